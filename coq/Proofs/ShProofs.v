(* Proofs/ShProofs.v — lemmas for C17: every string is rendered by `@sh` as
   exactly one shell word that expands to that string; `-o=shell` output is a
   list of assignment lines the shell reads back exactly. *)
From YQ Require Import Base.Str Gen.ShSafe Model.Sh Spec.PosixSh.

(* --- obligation over the regenerated table: the characters @sh leaves
   unquoted are literal in every word position of the shell spec --- *)
Lemma sh_unsafe_is_negated : sh_unsafe_negated = true.
Proof. vm_compute. reflexivity. Qed.

Lemma sh_safe_ranges_disjoint_special :
  ranges_disjoint sh_unsafe_ranges sh_special_ranges = true.
Proof. vm_compute. reflexivity. Qed.

Lemma safe_class_sound c : should_quote c = false -> literal_safe c = true.
Proof.
  unfold should_quote, sh_unsafe, literal_safe. rewrite sh_unsafe_is_negated.
  intro H. apply negb_false_iff in H.
  rewrite (ranges_disjoint_sound _ _ sh_safe_ranges_disjoint_special c H). reflexivity.
Qed.

Lemma literal_safe_neq c k :
  in_ranges k sh_special_ranges = true -> literal_safe c = true -> (c =? k) = false.
Proof.
  intros Hk Hc. apply N.eqb_neq. intros ->. unfold literal_safe in Hc.
  rewrite Hk in Hc. discriminate.
Qed.

Definition app_cur (cur : option str) (s : str) : option str :=
  match cur, s with
  | None, [] => None
  | None, _ => Some s
  | Some w, _ => Some (w ++ s)
  end.

Lemma app_cur_push cur c r : app_cur (push cur c) r = app_cur cur (c :: r).
Proof.
  destruct cur as [w|]; cbn [push app_cur].
  - rewrite <- app_assoc. reflexivity.
  - destruct r; reflexivity.
Qed.

Lemma app_cur_push_start cur c r : app_cur (push (start cur) c) r = app_cur cur (c :: r).
Proof.
  destruct cur as [w|]; cbn [start push app_cur].
  - rewrite <- app_assoc. reflexivity.
  - reflexivity.
Qed.

Lemma sh_go_words s : nul_free s ->
  forall inq cur, (inq = true -> cur <> None) ->
  shw (if inq then Sq else Unq) cur (sh_go inq s) = Some (flush (app_cur cur s)).
Proof.
  induction 1 as [|c r Hc Hr IH]; intros inq cur Hcur.
  - destruct inq; cbn.
    + destruct cur as [w|]; [|exfalso; apply Hcur; reflexivity].
      cbn. rewrite app_nil_r. reflexivity.
    + destruct cur as [w|]; cbn; [rewrite app_nil_r|]; reflexivity.
  - cbn [sh_go]. apply N.eqb_neq in Hc.
    destruct (c =? c_quote) eqn:Hq.
    + apply N.eqb_eq in Hq. subst c.
      assert (Hstep : forall cur0, shw Unq cur0 (c_bslash :: c_quote :: sh_go false r)
                            = Some (flush (app_cur cur0 (c_quote :: r)))).
      { intro cur0. cbn. rewrite (IH false) by discriminate. rewrite app_cur_push. reflexivity. }
      destruct inq; cbn [app]; [|apply Hstep].
      change (shw Sq cur (c_quote :: c_bslash :: c_quote :: sh_go false r))
        with (shw Unq cur (c_bslash :: c_quote :: sh_go false r)).
      apply Hstep.
    + destruct (should_quote c && negb inq) eqn:Hsq.
      * apply andb_true_iff in Hsq as [Hs Hi]. apply negb_true_iff in Hi. subst inq.
        cbn [shw]. change (c_quote =? 0) with false. cbv iota.
        change (c_quote =? 39) with true. cbv iota.
        cbn [shw]. rewrite Hc. unfold c_quote in Hq. rewrite Hq.
        rewrite (IH true) by (destruct cur; discriminate).
        rewrite app_cur_push_start. reflexivity.
      * destruct inq.
        -- cbn [shw]. rewrite Hc. unfold c_quote in Hq. rewrite Hq.
           rewrite (IH true) by (destruct cur; discriminate).
           rewrite app_cur_push. reflexivity.
        -- rewrite andb_true_r in Hsq. apply safe_class_sound in Hsq.
           cbn [shw]. rewrite Hc. unfold c_quote in Hq. rewrite Hq.
           rewrite (literal_safe_neq c 34), (literal_safe_neq c 92),
             (literal_safe_neq c 32), (literal_safe_neq c 9) by (assumption || reflexivity).
           cbn [orb]. rewrite Hsq. rewrite (IH false) by discriminate.
           rewrite app_cur_push. reflexivity.
Qed.

Theorem sh_single_word s :
  nul_free s -> sh_words (sh_encode s) = Some [s].
Proof.
  intros Hn. unfold sh_words, sh_encode.
  destruct s as [|c r]; [reflexivity|].
  rewrite (sh_go_words (c :: r) Hn false None) by discriminate. reflexivity.
Qed.

(* without the special case the empty string would give no word at all *)
Lemma sh_go_empty_no_word : shw Unq None (sh_go false []) = Some [].
Proof. reflexivity. Qed.

(* ---------------- shell variables ---------------- *)

Lemma alnum_ranges_disjoint_special :
  ranges_disjoint sv_alnum_us_ranges sh_special_ranges = true.
Proof. vm_compute. reflexivity. Qed.

Lemma alnum_literal_safe c : sv_alnum_us c = true -> literal_safe c = true.
Proof.
  unfold sv_alnum_us, literal_safe. intro H.
  rewrite (ranges_disjoint_sound _ _ alnum_ranges_disjoint_special c H). reflexivity.
Qed.

Lemma alnum_ranges_subset_name :
  ranges_subset sv_alnum_us_ranges [(48, 57); (65, 90); (95, 95); (97, 122)] = true
  /\ ranges_subset sv_alpha_us_ranges [(65, 90); (95, 95); (97, 122)] = true.
Proof. vm_compute. split; reflexivity. Qed.

Lemma alnum_name_char c : sv_alnum_us c = true -> name_char c = true.
Proof. apply ranges_subset_sound. apply alnum_ranges_subset_name. Qed.

Lemma alpha_name_start c : sv_alpha_us c = true -> name_start c = true.
Proof. apply ranges_subset_sound. apply alnum_ranges_subset_name. Qed.

(* value part: after NAME= the shell reads quote_value v, up to the newline,
   as exactly v *)
Lemma shsrc_plain v : forall nm cur rest,
  all_alnum_us v = true ->
  shsrc (InVal Unq) nm cur (v ++ rest) = shsrc (InVal Unq) nm (cur ++ v) rest.
Proof.
  induction v as [|c v IH]; intros nm cur rest H.
  - rewrite app_nil_r. reflexivity.
  - cbn [all_alnum_us] in H. apply andb_true_iff in H as [Hc Hv].
    pose proof (alnum_literal_safe c Hc) as Hs.
    cbn [app shsrc].
    rewrite (literal_safe_neq c 0), (literal_safe_neq c 39), (literal_safe_neq c 34),
      (literal_safe_neq c 92), (literal_safe_neq c 10) by (assumption || reflexivity).
    rewrite Hs. rewrite IH by assumption. rewrite <- app_assoc. reflexivity.
Qed.

Lemma shsrc_quoted v : nul_free v -> forall nm cur rest,
  shsrc (InVal Sq) nm cur (sv_escape v ++ c_quote :: rest)
  = shsrc (InVal Unq) nm (cur ++ v) rest.
Proof.
  induction 1 as [|c v Hc Hv IH]; intros nm cur rest.
  - cbn. rewrite app_nil_r. reflexivity.
  - apply N.eqb_neq in Hc. cbn [sv_escape].
    destruct (c =? c_quote) eqn:Hq.
    + apply N.eqb_eq in Hq. subst c. cbn. rewrite IH. rewrite <- app_assoc. reflexivity.
    + cbn [app shsrc]. rewrite Hc. unfold c_quote in Hq. rewrite Hq. rewrite IH.
      rewrite <- app_assoc. reflexivity.
Qed.

Lemma shsrc_value v : nul_free v -> forall nm rest,
  shsrc (InVal Unq) nm [] (quote_value v ++ rest) = shsrc (InVal Unq) nm v rest.
Proof.
  intros Hn nm rest. unfold quote_value. destruct (all_alnum_us v) eqn:Ha.
  - rewrite shsrc_plain by assumption. reflexivity.
  - cbn [app]. rewrite <- app_assoc. cbn [app].
    change (shsrc (InVal Unq) nm [] (c_quote :: sv_escape v ++ c_quote :: rest))
      with (shsrc (InVal Sq) nm [] (sv_escape v ++ c_quote :: rest)).
    rewrite shsrc_quoted by assumption. reflexivity.
Qed.

Lemma shsrc_name nm2 : forallb name_char nm2 = true -> forall nm1 rest,
  shsrc InName nm1 [] (nm2 ++ rest) = shsrc InName (nm1 ++ nm2) [] rest.
Proof.
  induction nm2 as [|c nm2 IH]; intros H nm1 rest.
  - rewrite app_nil_r. reflexivity.
  - cbn [forallb] in H. apply andb_true_iff in H as [Hc Hr].
    assert (c =? 0 = false) as H0.
    { apply N.eqb_neq. intros ->. vm_compute in Hc. discriminate. }
    assert (c =? 61 = false) as H61.
    { apply N.eqb_neq. intros ->. vm_compute in Hc. discriminate. }
    cbn [app shsrc]. rewrite H0, H61, Hc. rewrite IH by assumption.
    rewrite <- app_assoc. reflexivity.
Qed.

Definition assigns_ok (l : list (str * str)) : Prop :=
  Forall (fun p => name_ok (fst p) = true /\ nul_free (snd p)) l.

Theorem sv_render_sources l :
  assigns_ok l -> sh_source (sv_render l) = Some l.
Proof.
  unfold sh_source. induction 1 as [|[nm v] l [Hnm Hv] Hl IH]; [reflexivity|].
  cbn [fst snd] in Hnm, Hv. cbn [sv_render].
  destruct nm as [|c nm]; [discriminate|]. cbn [name_ok] in Hnm.
  apply andb_true_iff in Hnm as [Hc Hr].
  assert (Hall : forallb name_char (c :: nm) = true).
  { cbn [forallb]. rewrite Hr, andb_true_r. revert Hc. unfold name_start, name_char.
    apply ranges_subset_sound. vm_compute. reflexivity. }
  rewrite (shsrc_name (c :: nm) Hall [] _). cbn [app].
  cbn [shsrc]. change (c_eq =? 0) with false. change (c_eq =? 61) with true. cbv iota.
  cbn [name_ok]. rewrite Hc, Hr. cbn [andb].
  rewrite shsrc_value by assumption.
  cbn [app shsrc]. change (c_nl =? 0) with false. change (c_nl =? 39) with false.
  change (c_nl =? 34) with false. change (c_nl =? 92) with false. change (c_nl =? 10) with true.
  cbv iota. rewrite IH. reflexivity.
Qed.

(* names produced by appendPath are always valid shell names *)
Lemma cook_key_chars k : forallb name_char (cook_key k) = true.
Proof.
  induction k as [|c k IH]; [reflexivity|]. cbn [cook_key].
  destruct (sv_alnum_us c) eqn:Ha.
  - cbn [forallb]. rewrite (alnum_name_char c Ha), IH. reflexivity.
  - destruct ((c <? 32) || (126 <? c)); [assumption|]. cbn [forallb]. rewrite IH. reflexivity.
Qed.

Section Names.
  Variable nfkd : str -> str.

  Lemma append_path_name cooked raw :
    (cooked = [] \/ name_ok cooked = true) -> name_ok (append_path nfkd cooked raw) = true.
  Proof.
    intros Hc. unfold append_path. set (key := cook_key (nfkd raw)).
    pose proof (cook_key_chars (nfkd raw)) as Hk. fold key in Hk.
    destruct cooked as [|c0 cooked].
    - destruct key as [|c key].
      + reflexivity.
      + destruct (sv_alpha_us c) eqn:Ha.
        * cbn [name_ok]. rewrite (alpha_name_start c Ha). cbn [forallb] in Hk.
          apply andb_true_iff in Hk as [_ Hk]. rewrite Hk. reflexivity.
        * cbn [name_ok]. change (name_start c_us) with true. rewrite Hk. reflexivity.
    - destruct Hc as [Hc|Hc]; [discriminate|]. cbn [name_ok] in Hc.
      apply andb_true_iff in Hc as [H1 H2].
      cbn [app name_ok]. rewrite H1. cbn [andb]. rewrite forallb_app, H2.
      cbn [forallb andb]. change (name_char c_us) with true. rewrite Hk. reflexivity.
  Qed.

  Fixpoint sv_values_nul_free (n : svnode) : Prop :=
    match n with
    | SvScalar v => nul_free v
    | SvSeq items => (fix go l := match l with [] => True | x :: r => sv_values_nul_free x /\ go r end) items
    | SvMap entries => (fix go l := match l with [] => True | (_, x) :: r => sv_values_nul_free x /\ go r end) entries
    end.

  Lemma value_name_ok : name_ok value_name = true.
  Proof. reflexivity. Qed.

  Lemma sv_encode_ok : forall n path,
    (path = [] \/ name_ok path = true) -> sv_values_nul_free n ->
    assigns_ok (sv_encode nfkd n path).
  Proof.
    fix IH 1. intros [v|items|entries] path Hp Hn.
    - cbn. constructor; [|constructor]. cbn. split; [|assumption].
      destruct path; [reflexivity|]. destruct Hp; [discriminate|assumption].
    - cbn [sv_encode]. generalize 0 as i. cbn [sv_values_nul_free] in Hn.
      induction items as [|x r IHr]; intro i.
      + constructor.
      + destruct Hn as [Hx Hr]. apply Forall_app. split.
        * apply IH; [right; apply append_path_name; assumption | assumption].
        * apply IHr. assumption.
    - cbn [sv_encode]. cbn [sv_values_nul_free] in Hn.
      induction entries as [|[k x] r IHr].
      + constructor.
      + destruct Hn as [Hx Hr]. apply Forall_app. split.
        * apply IH; [right; apply append_path_name; assumption | assumption].
        * apply IHr. assumption.
  Qed.

  Theorem sv_output_sources n :
    sv_values_nul_free n ->
    sh_source (sv_output nfkd n) = Some (sv_encode nfkd n []).
  Proof.
    intro H. unfold sv_output. apply sv_render_sources.
    apply sv_encode_ok; [left; reflexivity | assumption].
  Qed.
End Names.
