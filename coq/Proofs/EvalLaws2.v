(* Proofs/EvalLaws2.v — C01: further structural laws of the evaluator model:
   `|` is associative, a fold (`ireduce`) visits every element of its source in
   order whatever the accumulator holds (including nothing), and `,` is
   associative whenever it appends. *)
From Coq Require Import List Arith Lia.
From YQ Require Import Base.Str Model.Node Model.Store Model.Eval Proofs.EvalFuel.
Import ListNotations.

Lemma bind_assoc {A B C} (m : res A) (k : A -> res B) (h : B -> res C) :
  bind (bind m k) h = bind m (fun a => bind (k a) h).
Proof. destruct m; reflexivity. Qed.

Lemma bind_ext {A B} (m : res A) (k k' : A -> res B) : (forall a, k a = k' a) -> bind m k = bind m k'.
Proof. intros H. destruct m; cbn; auto. Qed.

Lemma bind_not_oof_l {A B} (m : res A) (k : A -> res B) : bind m k <> OutOfFuel -> m <> OutOfFuel.
Proof. intros H E. subst m. apply H. reflexivity. Qed.

Lemma pipe_composes_ f l r ro vs ctx st :
  eval (S f) (EPipe l r) ro vs ctx st = bind (eval f l ro vs ctx st) (fun ol => eval f r ro vs (fst ol) (snd ol)).
Proof. reflexivity. Qed.

(* evaluation with fuel f that does not run out is evaluation with any larger fuel *)
Lemma eval_more f f' e ro vs ctx st :
  (f <= f')%nat -> eval f e ro vs ctx st <> OutOfFuel -> eval f' e ro vs ctx st = eval f e ro vs ctx st.
Proof. intros Hle Hn. exact (eval_fuel_mono f f' e ro vs ctx st _ Hle eq_refl Hn). Qed.

(* `(a | b) | c` and `a | (b | c)` are the same program: whenever one of them has an answer with some fuel, the
   other has the same answer with one more unit of fuel (and then with any larger fuel, by [eval_fuel_mono]) *)
Theorem pipe_assoc_lr f a b c ro vs ctx st :
  eval f (EPipe (EPipe a b) c) ro vs ctx st <> OutOfFuel ->
  eval (S f) (EPipe a (EPipe b c)) ro vs ctx st = eval f (EPipe (EPipe a b) c) ro vs ctx st.
Proof.
  destruct f as [|[|g]]; intros Hn; try (exfalso; apply Hn; reflexivity).
  change (eval (S (S g)) (EPipe (EPipe a b) c) ro vs ctx st) with
    (bind (bind (eval g a ro vs ctx st) (fun oa => eval g b ro vs (fst oa) (snd oa)))
          (fun ob => eval (S g) c ro vs (fst ob) (snd ob))) in *.
  change (eval (S (S (S g))) (EPipe a (EPipe b c)) ro vs ctx st) with
    (bind (eval (S (S g)) a ro vs ctx st) (fun oa =>
       bind (eval (S g) b ro vs (fst oa) (snd oa)) (fun ob => eval (S g) c ro vs (fst ob) (snd ob)))).
  rewrite bind_assoc in *.
  assert (Ha : eval g a ro vs ctx st <> OutOfFuel) by (eapply bind_not_oof_l; exact Hn).
  rewrite (eval_more g (S (S g)) a ro vs ctx st ltac:(lia) Ha).
  destruct (eval g a ro vs ctx st) as [oa| | | |] eqn:Ea; try reflexivity. cbn [bind] in *.
  assert (Hb : eval g b ro vs (fst oa) (snd oa) <> OutOfFuel) by (eapply bind_not_oof_l; exact Hn).
  rewrite (eval_more g (S g) b ro vs _ _ ltac:(lia) Hb). reflexivity.
Qed.

Theorem pipe_assoc_rl f a b c ro vs ctx st :
  eval f (EPipe a (EPipe b c)) ro vs ctx st <> OutOfFuel ->
  eval (S f) (EPipe (EPipe a b) c) ro vs ctx st = eval f (EPipe a (EPipe b c)) ro vs ctx st.
Proof.
  destruct f as [|[|g]]; intros Hn; try (exfalso; apply Hn; reflexivity).
  - change (eval (S (S g)) (EPipe a (EPipe b c)) ro vs ctx st) with
      (bind (eval (S g) a ro vs ctx st) (fun oa =>
         bind (eval g b ro vs (fst oa) (snd oa)) (fun ob => eval g c ro vs (fst ob) (snd ob)))) in *.
    change (eval (S (S (S g))) (EPipe (EPipe a b) c) ro vs ctx st) with
      (bind (bind (eval (S g) a ro vs ctx st) (fun oa => eval (S g) b ro vs (fst oa) (snd oa)))
            (fun ob => eval (S (S g)) c ro vs (fst ob) (snd ob))).
    rewrite bind_assoc.
    destruct (eval (S g) a ro vs ctx st) as [oa| | | |] eqn:Ea; try reflexivity. cbn [bind] in *.
    assert (Hb : eval g b ro vs (fst oa) (snd oa) <> OutOfFuel) by (eapply bind_not_oof_l; exact Hn).
    rewrite (eval_more g (S g) b ro vs _ _ ltac:(lia) Hb).
    destruct (eval g b ro vs (fst oa) (snd oa)) as [ob| | | |] eqn:Eb; try reflexivity. cbn [bind] in *.
    apply eval_more; [lia|exact Hn].
Qed.

(* ---------- folds ---------- *)
(* `src as $x ireduce (init; body)`: the source and the initial value are evaluated on the context once, then the
   body runs once per source element, in order, on whatever the previous run returned *)
Theorem reduce_is_fold f src x init body ro vs ctx st :
  eval (S f) (EReduce src x init body) ro vs ctx st =
  bind (eval f src ro vs ctx st) (fun oa =>
  bind (eval f init ro vs ctx (snd oa)) (fun oi =>
  iter (fun it acc st0 => eval f body (ret_ro init ro) ((x, [it]) :: vs) acc st0) (fst oa) (fst oi) (snd oi))).
Proof. reflexivity. Qed.

(* every element is visited, with the accumulator the elements before it produced -- also when that accumulator
   holds no node at all *)
Theorem iter_visits_every_element {A} (step : ptr -> A -> store -> res (A * store)) l1 p l2 a st :
  iter step (l1 ++ p :: l2) a st =
  bind (iter step l1 a st) (fun o =>
  bind (step p (fst o) (snd o)) (fun o' => iter step l2 (fst o') (snd o'))).
Proof.
  revert a st. induction l1 as [|q l1 IH]; intros a st; cbn [app iter].
  - cbn [bind fst snd]. reflexivity.
  - rewrite bind_assoc. apply bind_ext. intros o. apply IH.
Qed.

Corollary iter_last {A} (step : ptr -> A -> store -> res (A * store)) l p a st :
  iter step (l ++ [p]) a st = bind (iter step l a st) (fun o => step p (fst o) (snd o)).
Proof.
  rewrite iter_visits_every_element. apply bind_ext. intros o. cbn [iter].
  destruct (step p (fst o) (snd o)) as [[a' st']| | | |]; reflexivity.
Qed.

(* a fold over no element is its initial value *)
Theorem reduce_empty_source f src x init body ro vs ctx st st1 :
  eval f src ro vs ctx st = Ok ([], st1) ->
  eval (S f) (EReduce src x init body) ro vs ctx st = eval f init ro vs ctx st1.
Proof.
  intros H. rewrite reduce_is_fold, H. cbn [bind fst snd iter].
  destruct (eval f init ro vs ctx st1) as [[a s]| | | |]; reflexivity.
Qed.

(* ---------- `,` ---------- *)
Lemma union_app_assoc f a b c ro vs ctx st :
  bind (bind (eval f a ro vs ctx st) (fun oa =>
          bind (eval f b ro vs ctx (snd oa)) (fun ob => Ok (fst oa ++ fst ob, snd ob)))) (fun oab =>
     bind (eval f c ro vs ctx (snd oab)) (fun oc => Ok (fst oab ++ fst oc, snd oc)))
  =
  bind (eval f a ro vs ctx st) (fun oa =>
     bind (bind (eval f b ro vs ctx (snd oa)) (fun ob =>
             bind (eval f c ro vs ctx (snd ob)) (fun oc => Ok (fst ob ++ fst oc, snd oc)))) (fun obc =>
        Ok (fst oa ++ fst obc, snd obc))).
Proof.
  rewrite bind_assoc. apply bind_ext. intros oa. rewrite !bind_assoc. apply bind_ext. intros ob.
  cbn [bind fst snd]. rewrite bind_assoc. apply bind_ext. intros oc. cbn [bind fst snd]. rewrite app_assoc. reflexivity.
Qed.
