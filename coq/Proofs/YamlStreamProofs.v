(* Proofs/YamlStreamProofs.v — lemmas for the multi-document part of C05:
   Model/YamlStream.v over C10's printer / stream model. *)
From Coq Require Import List NArith Bool Lia PeanoNat.
From YQ Require Import Base.Str Model.Printer Model.Stream Spec.StreamSpec Proofs.StreamProofs
                       Model.YamlBridge Proofs.YamlBridgeProofs Model.YamlStream.
Import ListNotations.
Open Scope N_scope.

Definition litem_of (h : hline) : litem :=
  match h with HSep => LSep | _ => LLine (content_line h) end.

Lemma not_marker_comment pre txt : forallb is_hsp pre = true ->
  str_eqb (pre ++ 35 :: txt ++ [10]) (marker ++ [10]) || str_eqb (pre ++ 35 :: txt ++ [10]) marker = false.
Proof.
  intro Hpre. destruct (comment_head pre (txt ++ [10]) Hpre) as (a & r & E & _ & _ & A36). rewrite E.
  unfold marker. cbn [app str_eqb]. rewrite A36. reflexivity.
Qed.

Lemma litems_header : forall hs fuel,
  Forall (fun h => hline_ok h = true) hs -> (length (content_of hs) < fuel)%nat ->
  litems fuel (content_of hs) = map litem_of hs.
Proof.
  induction hs as [|h hs IH]; intros fuel Hok Hfuel; (destruct fuel as [|f]; [lia|]).
  - reflexivity.
  - inversion Hok as [|? ? Hh Hhs]; subst. rewrite content_cons in *. cbn [map].
    destruct h as [| |pre txt].
    + cbn [content_line app] in *. cbn [litems read_line]. change (10 =? 10) with true. cbv iota.
      change (str_eqb [10] (marker ++ [10]) || str_eqb [10] marker) with false. cbv iota.
      rewrite IH; [reflexivity|exact Hhs|cbn [length] in Hfuel; lia].
    + cbn [content_line] in *. rewrite <- app_assoc in *. cbn [app] in Hfuel |- *.
      change ((marker ++ [10]) ++ content_of hs) with (marker ++ 10 :: content_of hs) in *.
      assert (Hlen : (length (content_of hs) < f)%nat) by (rewrite app_length in Hfuel; cbn [length] in Hfuel; lia).
      cbn [litems]. rewrite (read_line_app marker (content_of hs) marker_no_nl).
      destruct (marker ++ 10 :: content_of hs) eqn:Em; [discriminate|].
      rewrite str_eqb_refl. cbn [orb litem_of].
      rewrite IH; [reflexivity|exact Hhs|exact Hlen].
    + cbn [hline_ok] in Hh. apply andb_true_iff in Hh as [Hh Htxt]. apply andb_true_iff in Hh as [Hplen Hpre].
      cbn [content_line litem_of] in *.
      assert (Hnl : forallb (fun c => negb (c =? 10)) (pre ++ 35 :: txt) = true).
      { rewrite forallb_app, (hsp_no_nl _ Hpre). cbn [forallb]. exact Htxt. }
      assert (Eq : (pre ++ 35 :: txt ++ [10]) ++ content_of hs = (pre ++ 35 :: txt) ++ 10 :: content_of hs).
      { rewrite <- !app_assoc. cbn [app]. rewrite <- app_assoc. reflexivity. }
      rewrite Eq in *.
      assert (Hlen : (length (content_of hs) < f)%nat) by (rewrite app_length in Hfuel; cbn [length] in Hfuel; lia).
      cbn [litems]. rewrite (read_line_app _ (content_of hs) Hnl).
      destruct ((pre ++ 35 :: txt) ++ 10 :: content_of hs) eqn:Em; [destruct pre; discriminate|].
      replace ((pre ++ 35 :: txt) ++ [10]) with (pre ++ 35 :: txt ++ [10]) by (rewrite <- app_assoc; reflexivity).
      rewrite (not_marker_comment pre txt Hpre).
      rewrite IH; [reflexivity|exact Hhs|exact Hlen].
Qed.

Lemma litems_of_header hs : Forall (fun h => hline_ok h = true) hs ->
  litems_of (content_of hs) = map litem_of hs.
Proof. intro H. unfold litems_of. apply litems_header; [exact H|lia]. Qed.

Lemma lead_bytes_header yemit : forall hs, Forall (fun h => hline_ok h = true) hs ->
  flat_map (event_bytes yemit) (lead_events yaml_cfg (map litem_of hs)) = render hs.
Proof.
  unfold lead_events. cbn [print_lead yaml_cfg].
  induction hs as [|h hs IH]; intro Hok; [reflexivity|].
  inversion Hok as [|? ? Hh Hhs]; subst. cbn [map flat_map]. rewrite flat_map_app, (IH Hhs), render_cons. f_equal.
  destruct h as [| |pre txt].
  - reflexivity.
  - reflexivity.
  - cbn [hline_ok] in Hh. apply andb_true_iff in Hh as [Hh Htxt]. apply andb_true_iff in Hh as [Hplen Hpre].
    cbn [litem_of lead_event flat_map event_bytes content_line render_line]. unfold lead_line_bytes.
    rewrite (out_line_comment pre txt Hpre).
    replace (pre ++ 35 :: txt ++ [10]) with ((pre ++ 35 :: txt) ++ [10]) at 2 by (rewrite <- app_assoc; reflexivity).
    rewrite rev_unit. rewrite !app_nil_r. reflexivity.
Qed.

(* ------------------------------------------------------------------ *)
(* the events of the identity on one file                              *)
(* ------------------------------------------------------------------ *)

Definition res_of (sd : sdoc cnode) : res cnode := mkRes (s_doc sd) (s_file sd) (s_lead sd) (s_body sd).

Lemma fresh_id sd : fresh never id_ev tt sd = Some [res_of sd].
Proof. reflexivity. Qed.

Lemma attached_id : attached (P := cnode) never id_ev tt.
Proof.
  intros sd rs H. rewrite fresh_id in H. injection H as <-. constructor; [|constructor].
  split; reflexivity.
Qed.

(* documents after the first: no leading content, a separator in front of each *)
Lemma join_rest yemit : forall (cs : list cnode) k,
  let x := join_sep never yaml_cfg true
             (map (fresh never id_ev tt) (number_docs 0 k [] (map (mkDoc []) cs))) in
  flat_map (event_bytes yemit) (jev x) = flat_map (fun c => sep_bytes ++ emit_doc yemit c) cs
  /\ jst x = Done
  /\ count_res (jev x) = length cs.
Proof.
  induction cs as [|c cs IH]; intro k; cbv zeta.
  - repeat split.
  - cbn [map number_docs]. rewrite fresh_id. cbn [join_sep]. unfold never at 1.
    cbn [chunk]. unfold never at 1.
    specialize (IH (k + 1)). cbv zeta in IH.
    destruct (join_sep never yaml_cfg true (map (fresh never id_ev tt) (number_docs 0 (k + 1) [] (map (mkDoc []) cs)))) as [[e2 b2] s2].
    unfold jev, jst in *. cbn [fst snd] in *. destruct IH as (I1 & I2 & I3).
    cbn -[emit_doc sep_bytes event_bytes count_res].
    repeat split.
    + cbn -[emit_doc sep_bytes]. rewrite I1. reflexivity.
    + exact I2.
    + unfold count_res in *. cbn [filter is_res length]. rewrite I3. reflexivity.
Qed.

Lemma join_docs_cons e es : join_docs (e :: es) = e ++ flat_map (fun x => sep_bytes ++ x) es.
Proof.
  revert e. induction es as [|e' es IH]; intro e; [cbn; rewrite app_nil_r; reflexivity|].
  change (join_docs (e :: e' :: es)) with (e ++ sep_bytes ++ join_docs (e' :: es)).
  rewrite IH. cbn [flat_map]. rewrite <- app_assoc. reflexivity.
Qed.

Lemma flat_map_map {A B C} (f : A -> B) (g : B -> list C) l : flat_map g (map f l) = flat_map (fun x => g (f x)) l.
Proof. induction l; cbn; [reflexivity|rewrite IHl; reflexivity]. Qed.

(* header block, first document, then every further document behind a separator *)
Lemma stream_events_bytes yemit hs c0 cs :
  Forall (fun h => hline_ok h = true) hs ->
  flat_map (event_bytes yemit) (fst (stream_events (content_of hs) (c0 :: cs)))
    = render hs ++ join_docs (map (emit_doc yemit) (c0 :: cs))
  /\ snd (stream_events (content_of hs) (c0 :: cs)) = Done
  /\ count_res (fst (stream_events (content_of hs) (c0 :: cs))) = length (c0 :: cs).
Proof.
  intro Hok. unfold stream_events. rewrite (litems_of_header hs Hok).
  rewrite (seq_is_concat cnode cnode unit blank_node (fun _ b => b) never never id_ev tt (fun _ => True) I
             (fun _ _ _ => I) (fun t ds _ => match t with tt => eq_refl end) yaml_cfg _ attached_id).
  2: { constructor; [reflexivity|constructor]. }
  2: { discriminate. }
  cbn [fst snd]. unfold spec_docs. cbn [number_files f_name f_lead f_bodies decode]. rewrite app_nil_r.
  cbn [number_docs map]. rewrite fresh_id. cbn [join_sep]. unfold never at 1. cbn [andb]. cbn [chunk]. unfold never at 1.
  pose proof (join_rest yemit cs (0 + 1)) as Hr. cbv zeta in Hr.
  destruct (join_sep never yaml_cfg true (map (fresh never id_ev tt) (number_docs 0 (0 + 1) [] (map (mkDoc []) cs)))) as [[e2 b2] s2].
  unfold jev, jst in *. cbn [fst snd] in *. destruct Hr as (R1 & R2 & R3).
  cbn [chunk fst snd app].
  repeat split.
  - unfold node_events, res_of. cbn [r_lead r_val r_doc r_file s_lead s_body s_doc s_file d_lead d_body]. change (nul_sep yaml_cfg) with false. cbv iota.
    rewrite !app_nil_r, !flat_map_app. rewrite (lead_bytes_header yemit hs Hok).
    cbn [flat_map event_bytes app]. rewrite app_nil_r, R1.
    cbn [map]. rewrite join_docs_cons, flat_map_map, <- app_assoc. reflexivity.
  - exact R2.
  - unfold never. cbn [fst snd app]. unfold node_events, res_of. cbn [r_lead r_val r_doc r_file s_lead s_body s_doc s_file d_lead d_body]. change (nul_sep yaml_cfg) with false. cbv iota.
    unfold count_res in *. rewrite !app_nil_r, !filter_app, !app_length. cbn [filter is_res length app]. rewrite R3.
    assert (Hl : forall l, length (filter (@is_res cnode) (lead_events yaml_cfg l)) = 0%nat).
    { unfold lead_events. cbn [print_lead yaml_cfg]. induction l as [|it l IHl]; [reflexivity|].
      cbn [flat_map]. rewrite filter_app, app_length, IHl. destruct it; reflexivity. }
    rewrite Hl. reflexivity.
Qed.

(* ------------------------------------------------------------------ *)
(* the pipeline                                                        *)
(* ------------------------------------------------------------------ *)

Lemma stream_pass yparse yemit hs body c0 cs :
  Forall (fun h => hline_ok h = true) hs -> body_ok body = true ->
  read_stream yparse body = Some (c0 :: cs) ->
  yq_stream yparse yemit (render hs ++ body) = Some (render hs ++ join_docs (map (emit_doc yemit) (c0 :: cs))).
Proof.
  intros Hok Hbody Hread. destruct (leading_roundtrip hs body Hok Hbody) as [Hp _].
  unfold yq_stream. rewrite Hp, Hread.
  destruct (stream_events_bytes yemit hs c0 cs Hok) as (Hb & _ & _). rewrite Hb. reflexivity.
Qed.

Lemma stream_doc_count yparse hs body c0 cs :
  Forall (fun h => hline_ok h = true) hs -> body_ok body = true ->
  read_stream yparse body = Some (c0 :: cs) ->
  let '(lead, rest) := process_read_stream (render hs ++ body) in
  exists cs', read_stream yparse rest = Some cs' /\
    count_res (fst (stream_events lead cs')) = length cs' /\ snd (stream_events lead cs') = Done.
Proof.
  intros Hok Hbody Hread. destruct (leading_roundtrip hs body Hok Hbody) as [Hp _]. rewrite Hp.
  exists (c0 :: cs). split; [exact Hread|].
  destruct (stream_events_bytes (fun _ => []) hs c0 cs Hok) as (_ & Hs & Hc). split; assumption.
Qed.

Section StreamContract.
  Variable yparse : str -> option (list ynode).
  Variable yemit : ynode -> str.
  Variable good : list cnode -> Prop.

  (* the emitted stream does not begin with lines the leading-content scanner would take *)
  Hypothesis H_body : forall cs, good cs -> body_ok (join_docs (map (emit_doc yemit) cs)) = true.
  (* reading the emitted stream back gives, document by document, candidates
     that are emitted the same way *)
  Hypothesis H_reread : forall cs, good cs ->
    exists cs', read_stream yparse (join_docs (map (emit_doc yemit) cs)) = Some cs'
                /\ map (emit_doc yemit) cs' = map (emit_doc yemit) cs.

  Lemma stream_second_pass_fixed hs body c0 cs :
    Forall (fun h => hline_ok h = true) hs -> body_ok body = true ->
    read_stream yparse body = Some (c0 :: cs) -> good (c0 :: cs) ->
    let o := render hs ++ join_docs (map (emit_doc yemit) (c0 :: cs)) in
    yq_stream yparse yemit (render hs ++ body) = Some o /\ yq_stream yparse yemit o = Some o.
  Proof.
    intros Hok Hbody Hread Hgood o. split; [apply stream_pass; assumption|].
    destruct (H_reread _ Hgood) as (cs' & Hr' & He').
    destruct cs' as [|c0' cs'']; [discriminate|].
    unfold o. rewrite (stream_pass yparse yemit hs _ c0' cs'' Hok (H_body _ Hgood) Hr'), He'. reflexivity.
  Qed.
End StreamContract.
