(* Proofs/SortNoPanic.v — the comparison operators, min/max and sort/sort_by have no panic outcome
   for ANY scalars and ANY sequence length (operator_compare.go compareScalars / superlativeByComparison,
   operator_sort.go Less after the repair of the panic(err) branch). *)
From Coq Require Import List NArith ZArith String.
From YQ Require Import Base.Str Spec.Order Model.Sort Proofs.SortProofs.
Import ListNotations.
Lemma float_or_err_no_panic s : float_or_err s <> Panic.
Proof. unfold float_or_err. destruct (parse_float s); discriminate. Qed.

Lemma compare_scalars_no_panic oe g a b : compare_scalars oe g a b <> Panic.
Proof.
  unfold compare_scalars.
  pose proof (float_or_err_no_panic (s_text a)) as Ha.
  pose proof (float_or_err_no_panic (s_text b)) as Hb.
  destruct (s_tag a), (s_tag b);
    repeat match goal with
    | |- context [if ?c then _ else _] => destruct c
    | |- context [match parse_int64 ?x with _ => _ end] => destruct (parse_int64 x)
    | |- context [float_or_err ?x] => destruct (float_or_err x)
    end; cbn [bind]; try discriminate; try congruence.
Qed.

Lemma superl_go_no_panic g : forall rest best, superl_go g best rest <> Panic.
Proof.
  induction rest as [|el r IH]; intros best; cbn [superl_go]; [discriminate|].
  pose proof (compare_scalars_no_panic false g (fst el) (fst best)) as Hc.
  destruct (compare_scalars false g (fst el) (fst best)) as [b| | |]; cbn [bind]; try discriminate; [apply IH|congruence].
Qed.

Theorem superlative_no_panic g l : superlative g l <> Panic.
Proof.
  destruct l as [|x r]; cbn [superlative]; [discriminate|].
  pose proof (superl_go_no_panic g r x) as H.
  destruct (superl_go g x r); cbn [bind]; try discriminate; congruence.
Qed.

Lemma less_keys_no_panic : forall ka kb, less_keys ka kb <> Panic.
Proof.
  induction ka as [|a ka IH]; intros [|b kb]; cbn [less_keys]; try discriminate.
  pose proof (cmp_no_panic a b) as Hc.
  destruct (cmp a b) as [z| | |]; cbn [bind]; try discriminate; [|congruence].
  destruct (z <? 0)%Z; [discriminate|]. destruct (0 <? z)%Z; [discriminate|]. apply IH.
Qed.

Section SortNoPanic.
  Context {A : Type} (less : A -> A -> outcome bool).
  Hypothesis Hless : forall x y, less x y <> Panic.
  Lemma ins_o_no_panic x : forall rp, ins_o less x rp <> Panic.
  Proof.
    induction rp as [|y r IH]; cbn [ins_o]; [discriminate|].
    pose proof (Hless x y) as Hl.
    destruct (less x y) as [b| | |]; cbn [bind]; try discriminate; [|congruence].
    destruct b; [|discriminate].
    destruct (ins_o less x r); cbn [bind]; try discriminate; congruence.
  Qed.
  Lemma sortr_o_no_panic : forall rl, sortr_o less rl <> Panic.
  Proof.
    induction rl as [|x t IH]; cbn [sortr_o]; [discriminate|].
    destruct (sortr_o less t) as [r| | |]; cbn [bind]; try discriminate; [apply ins_o_no_panic|congruence].
  Qed.
  Lemma sort_o_no_panic l : sort_o less l <> Panic.
  Proof.
    unfold sort_o. pose proof (sortr_o_no_panic (rev l)) as H.
    destruct (sortr_o less (rev l)); cbn [bind]; try discriminate; congruence.
  Qed.
End SortNoPanic.

Theorem sort_by_no_panic l : sort_by l <> Panic.
Proof. unfold sort_by. apply sort_o_no_panic. intros x y. apply less_keys_no_panic. Qed.
