(* Proofs/TomlProofs.v — lemmas for C14 (TOML, expression level): the control
   flow of the decoder (read-ahead up to the next header, "run against the
   current expression", empty tables, an array-table header at the end of the
   input) computes the section-by-section denotation for every expression
   list that is a flattened document; a dotted key into a fresh map creates
   the nested maps. *)
From Coq Require Import Lia.
From YQ Require Import Base.Str Model.Toml Spec.TomlSpec.

Definition starts_with_header (es : list texpr) : Prop :=
  match es with EKeyVal _ _ :: _ => False | _ => True end.

Lemma span_kvs_app kvs rest : starts_with_header rest -> span_kvs (List.map kv_expr kvs ++ rest) = (kvs, rest).
Proof.
  intro H. induction kvs as [|[p v] kvs IH].
  - cbn [List.map app]. destruct rest as [|[p v| |] rest]; try reflexivity. destruct H.
  - cbn [List.map app kv_expr fst snd span_kvs]. rewrite IH. reflexivity.
Qed.

Lemma sections_start (secs : list tsection) : starts_with_header (flat_map section_exprs secs).
Proof. destruct secs as [|s secs]; [exact I|]. cbn [flat_map section_exprs app]. destruct (s_array s); exact I. Qed.

Lemma go_sections secs : forall fuel root, (length secs < fuel)%nat ->
  toml_go fuel (flat_map section_exprs secs) root = place_sections secs root.
Proof.
  induction secs as [|s secs IH]; intros fuel root Hf.
  - destruct fuel; reflexivity.
  - destruct fuel as [|fuel]; [cbn [length] in Hf; lia|].
    cbn [flat_map section_exprs app place_sections]. unfold place_section.
    assert (Hf' : (length secs < fuel)%nat) by (cbn [length] in Hf; lia).
    destruct (s_array s); cbn [toml_go]; rewrite (span_kvs_app (s_kvs s) _ (sections_start secs));
      destruct (put_kvs (s_kvs s) []) as [t| |]; cbn [tbind]; try reflexivity.
    { destruct (array_append (s_path s) (NMap t) root) as [root'| |]; cbn [tbind]; try reflexivity. exact (IH fuel root' Hf'). }
    { destruct (deeply_assign (s_path s) (NMap t) root) as [root'| |]; cbn [tbind]; try reflexivity. exact (IH fuel root' Hf'). }
Qed.

Lemma flat_length secs : (length secs <= length (flat_map section_exprs secs))%nat.
Proof.
  induction secs as [|s secs IH]; [cbn; lia|]. cbn [flat_map section_exprs length app]. rewrite app_length. cbn [length]. lia.
Qed.

Theorem toml_denotes (d : tdoc) : toml_decode (flatten d) = toml_den d.
Proof.
  destruct d as [top secs]. unfold toml_decode, flatten, toml_den. cbn [fst snd].
  pose proof (flat_length secs) as HL.
  destruct top as [|kv top].
  - cbn [List.map app put_kvs tbind]. apply go_sections. lia.
  - set (es := List.map kv_expr (kv :: top) ++ flat_map section_exprs secs).
    assert (Hes : exists p v r, es = EKeyVal p v :: r).
    { subst es. destruct kv as [p v]. cbn [List.map app kv_expr fst snd]. eexists _, _, _. reflexivity. }
    destruct Hes as (p & v & r & Hes).
    assert (Hspan : span_kvs es = (kv :: top, flat_map section_exprs secs)).
    { subst es. apply span_kvs_app. apply sections_start. }
    assert (Hlen : (length secs < length es)%nat).
    { subst es. rewrite app_length, map_length. cbn [length]. lia. }
    cbn [toml_go]. rewrite Hes. rewrite <- Hes, Hspan.
    destruct (put_kvs (kv :: top) []) as [root| |]; cbn [tbind]; try reflexivity.
    apply go_sections. exact Hlen.
Qed.

(* a dotted key into an empty map creates the nested maps *)
Theorem dotted_key_nests p v : p <> [] -> deeply_assign p v [] = TOk (nest p v).
Proof.
  induction p as [|k p IH]; [congruence|]. intros _. destruct p as [|k2 p].
  - reflexivity.
  - assert (E : deeply_assign (k :: k2 :: p) v [] =
                tbind (deeply_assign (k2 :: p) v []) (fun sub => TOk (set_key k (NMap sub) []))) by reflexivity.
    rewrite E, IH by discriminate. reflexivity.
Qed.
