(* Proofs/OperandsRO.v — C08: which operators evaluate their operands, keys and
   conditions read-only *whatever the mode of their caller* (ReadOnlyClone in the
   handler), and which are only as read-only as their caller. *)
From Coq Require Import List Arith Bool Lia.
From YQ Require Import Base.Str Model.Node Model.Store Model.Eval Proofs.EvalRO.
Import ListNotations.

(* the operators whose handler clones the context read-only before evaluating both operands *)
Definition ro_binop (o : binop) : bool :=
  match o with
  | OAdd | OSub | OMul | OMulF _ | OMod | ONe | OAnd | OOr | OContains => true
  | OEq | OLt | OLe | OGt | OGe | OAlt => false
  end.

Lemma ro_binop_mode f o l r ro vs ctx st :
  ro_binop o = true -> eval f (EBin o l r) ro vs ctx st = eval f (EBin o l r) true vs ctx st.
Proof. intros H. destruct f as [|f]; [reflexivity|]. destruct o; try discriminate; reflexivity. Qed.

Theorem binop_operands_read_only f o l r ro vs ctx st out :
  ro_binop o = true -> afree l = true -> afree r = true ->
  eval f (EBin o l r) ro vs ctx st = Ok out ->
  (exists x, snd out = st ++ x) /\ forall p, (fst p < length st)%nat -> deref (snd out) p = deref st p.
Proof.
  intros Ho Hl Hr He. rewrite (ro_binop_mode f o l r ro vs ctx st Ho) in He.
  assert (Ha : afree (EBin o l r) = true) by (cbn [afree]; rewrite Hl, Hr; reflexivity).
  split; [exact (ro_store_monotone f _ vs ctx st out Ha He) | exact (ro_old_nodes_unchanged f _ vs ctx st out Ha He)].
Qed.

(* conditions, keys and arguments: the handler evaluates them read-only whatever its own mode *)
Definition ro_arg_op (e : expr) : bool :=
  match e with
  | ESelect _ | EHas _ | EUniqueBy _ | EGroupBy _ | ESortBy _ | EAnyC _ | EAllC _ => true
  | _ => false
  end.

Lemma ro_arg_mode f e ro vs ctx st :
  ro_arg_op e = true -> eval f e ro vs ctx st = eval f e true vs ctx st.
Proof. intros H. destruct f as [|f]; [reflexivity|]. destruct e; try discriminate; reflexivity. Qed.

Theorem arg_read_only f e ro vs ctx st out :
  ro_arg_op e = true -> afree e = true ->
  eval f e ro vs ctx st = Ok out ->
  (exists x, snd out = st ++ x) /\ forall p, (fst p < length st)%nat -> deref (snd out) p = deref st p.
Proof.
  intros Ho Ha He. rewrite (ro_arg_mode f e ro vs ctx st Ho) in He.
  split; [exact (ro_store_monotone f _ vs ctx st out Ha He) | exact (ro_old_nodes_unchanged f _ vs ctx st out Ha He)].
Qed.
