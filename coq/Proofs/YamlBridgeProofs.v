(* Proofs/YamlBridgeProofs.v — lemmas for C05 over Model/YamlBridge.v. *)
From Coq Require Import List NArith Bool Lia PeanoNat.
From YQ Require Import Base.Str Model.YamlBridge.
Import ListNotations.
Open Scope N_scope.

(* ------------------------------------------------------------------ *)
(* styles                                                              *)
(* ------------------------------------------------------------------ *)

Lemma map_yaml_style_id s : map_yaml_style s = s.
Proof.
  unfold map_yaml_style.
  repeat match goal with |- context [?a =? ?b] => destruct (N.eqb_spec a b); [subst; reflexivity|] end.
  reflexivity.
Qed.

Lemma map_to_yaml_style_id s : map_to_yaml_style s = s.
Proof.
  unfold map_to_yaml_style.
  repeat match goal with |- context [?a =? ?b] => destruct (N.eqb_spec a b); [subst; reflexivity|] end.
  reflexivity.
Qed.

Lemma style_rt s : map_to_yaml_style (map_yaml_style s) = s.
Proof. rewrite map_yaml_style_id. apply map_to_yaml_style_id. Qed.

(* ------------------------------------------------------------------ *)
(* induction principles                                                *)
(* ------------------------------------------------------------------ *)

Section YInd.
  Variable P : ynode -> Prop.
  Hypothesis H : forall k s t v a al h l f ln col content, Forall P content ->
    P (YNode k s t v a al h l f ln col content).
  Fixpoint ynode_ind' (n : ynode) : P n :=
    match n with
    | YNode k s t v a al h l f ln col content =>
        H k s t v a al h l f ln col content
          ((fix go (c : list ynode) : Forall P c :=
              match c with
              | [] => Forall_nil _
              | x :: xs => Forall_cons x (ynode_ind' x) (go xs)
              end) content)
    end.
End YInd.

Lemma list_ind2 {A} (P : list A -> Prop) :
  P [] -> (forall a, P [a]) -> (forall a b l, P l -> P (a :: b :: l)) -> forall l, P l.
Proof.
  intros H0 H1 H2.
  fix IH 1. intros [|a [|b l]]; [exact H0|apply H1|apply H2; apply IH].
Qed.

(* ------------------------------------------------------------------ *)
(* yaml.Node -> CandidateNode -> yaml.Node                             *)
(* ------------------------------------------------------------------ *)

Definition norm_child (c : ynode) : ynode := norm c.

Definition rt_ok (n : ynode) : Prop :=
  forall ik key c, ywf n = true -> from_y ik key n = Some c -> to_y c = norm n.

Lemma to_y_scalar_copy c0 ik key : is_yscalar c0 = true -> to_y (copy_from CScalar c0 ik key []) = norm c0.
Proof.
  destruct c0 as [k s t v a al h l f ln col content]. unfold is_yscalar. cbn [y_kind].
  destruct k; try discriminate. intros _. cbn. rewrite style_rt. reflexivity.
Qed.

Lemma child_rt c0 ik key c' : rt_ok c0 -> ywf c0 = true ->
  decode_child from_y ik key c0 = Some c' -> to_y c' = norm_child c0.
Proof.
  intros Hrt Hwf H. unfold decode_child in H. unfold norm_child.
  destruct (str_eqb (y_tag c0) t_null && is_yscalar c0) eqn:E.
  - injection H as <-. apply andb_true_iff in E as [_ E]. apply to_y_scalar_copy. exact E.
  - apply (Hrt ik key c' Hwf H).
Qed.

Lemma seq_items_rt : forall l i cs, Forall rt_ok l -> forallb ywf l = true ->
  seq_items from_y i l = Some cs -> map to_y cs = map norm_child l.
Proof.
  induction l as [|c0 r IH]; intros i cs Hall Hwf H.
  - injection H as <-. reflexivity.
  - cbn [seq_items] in H. fold (seq_items from_y) in H.
    inversion Hall as [|? ? Hc Hr]; subst.
    cbn [forallb] in Hwf. apply andb_true_iff in Hwf as [Hw0 Hwr].
    destruct (decode_child from_y false (Some (t_int, index_text i)) c0) as [c'|] eqn:Hd; [|discriminate].
    destruct (seq_items from_y (i + 1) r) as [r'|] eqn:Hi; [|discriminate].
    injection H as <-. cbn [map]. rewrite (child_rt _ _ _ _ Hc Hw0 Hd), (IH _ _ Hr Hwr Hi). reflexivity.
Qed.

Lemma map_pairs_rt : forall l cs, Forall rt_ok l -> forallb ywf l = true -> Nat.even (length l) = true ->
  map_pairs from_y l = Some cs -> map to_y cs = map norm_child l.
Proof.
  induction l as [|a|k v r IH] using list_ind2; intros cs Hall Hwf Hev H.
  - injection H as <-. reflexivity.
  - discriminate.
  - cbn [map_pairs] in H. fold (map_pairs from_y) in H.
    inversion Hall as [|? ? Hk Hall']; subst. inversion Hall' as [|? ? Hv Hr]; subst.
    cbn [forallb] in Hwf. apply andb_true_iff in Hwf as [Hwk Hwf]. apply andb_true_iff in Hwf as [Hwv Hwr].
    destruct (decode_child from_y true None k) as [k'|] eqn:Hdk; [|discriminate].
    destruct (decode_child from_y false (Some (c_tag k', c_value k')) v) as [v'|] eqn:Hdv; [|discriminate].
    destruct (map_pairs from_y r) as [r'|] eqn:Hp; [|discriminate].
    injection H as <-. cbn [map].
    rewrite (child_rt _ _ _ _ Hk Hwk Hdk), (child_rt _ _ _ _ Hv Hwv Hdv), (IH _ Hr Hwr Hev eq_refl). reflexivity.
Qed.

Lemma node_roundtrip : forall n, rt_ok n.
Proof.
  induction n as [k s t v a al h l f ln col content IH] using ynode_ind'.
  intros ik key c Hwf H. destruct k; cbn [from_y] in H.
  - discriminate.
  - destruct (seq_items from_y 0 content) as [cs|] eqn:Hs; [|discriminate].
    injection H as <-. cbn [ywf] in Hwf. cbn [copy_from to_y copy_to norm].
    rewrite style_rt, (seq_items_rt _ _ _ IH Hwf Hs). reflexivity.
  - destruct (map_pairs from_y content) as [cs|] eqn:Hs; [|discriminate].
    injection H as <-. cbn [ywf] in Hwf. apply andb_true_iff in Hwf as [Hev Hwf].
    cbn [copy_from to_y copy_to norm].
    rewrite style_rt, (map_pairs_rt _ _ IH Hwf Hev Hs). reflexivity.
  - injection H as <-. cbn [copy_from to_y copy_to norm]. rewrite style_rt. reflexivity.
  - injection H as <-. cbn [copy_from to_y copy_to norm]. rewrite style_rt. reflexivity.
  - injection H as <-. cbn [copy_from to_y copy_to norm]. rewrite style_rt. reflexivity.
Qed.

(* the conversion is defined on every tree yaml.v3 can build *)
Definition total_ok (n : ynode) : Prop :=
  forall ik key, ywf n = true -> exists c, from_y ik key n = Some c.

Lemma child_total c0 ik key : total_ok c0 -> ywf c0 = true -> exists c', decode_child from_y ik key c0 = Some c'.
Proof.
  intros Ht Hwf. unfold decode_child. destruct (str_eqb (y_tag c0) t_null && is_yscalar c0); [eexists; reflexivity|apply Ht; exact Hwf].
Qed.

Lemma seq_items_total : forall l i, Forall total_ok l -> forallb ywf l = true -> exists cs, seq_items from_y i l = Some cs.
Proof.
  induction l as [|c0 r IH]; intros i Hall Hwf; [eexists; reflexivity|].
  inversion Hall as [|? ? Hc Hr]; subst. cbn [forallb] in Hwf. apply andb_true_iff in Hwf as [Hw0 Hwr].
  cbn [seq_items]. fold (seq_items from_y).
  destruct (child_total c0 false (Some (t_int, index_text i)) Hc Hw0) as (c' & ->).
  destruct (IH (i + 1) Hr Hwr) as (r' & ->). eexists; reflexivity.
Qed.

Lemma map_pairs_total : forall l, Forall total_ok l -> forallb ywf l = true -> exists cs, map_pairs from_y l = Some cs.
Proof.
  induction l as [|a|k v r IH] using list_ind2; intros Hall Hwf; try (eexists; reflexivity).
  inversion Hall as [|? ? Hk Hall']; subst. inversion Hall' as [|? ? Hv Hr]; subst.
  cbn [forallb] in Hwf. apply andb_true_iff in Hwf as [Hwk Hwf]. apply andb_true_iff in Hwf as [Hwv Hwr].
  cbn [map_pairs]. fold (map_pairs from_y).
  destruct (child_total k true None Hk Hwk) as (k' & ->).
  destruct (child_total v false (Some (c_tag k', c_value k')) Hv Hwv) as (v' & ->).
  destruct (IH Hr Hwr) as (r' & ->). eexists; reflexivity.
Qed.

Lemma from_y_total : forall n, total_ok n.
Proof.
  induction n as [k s t v a al h l f ln col content IH] using ynode_ind'.
  intros ik key Hwf. destruct k; cbn [from_y]; cbn [ywf] in Hwf; try discriminate; try (eexists; reflexivity).
  - destruct (seq_items_total content 0 IH Hwf) as (cs & ->). eexists; reflexivity.
  - apply andb_true_iff in Hwf as [_ Hwf]. destruct (map_pairs_total content IH Hwf) as (cs & ->). eexists; reflexivity.
Qed.

(* norm is the identity on well-shaped trees without alias pointers *)
Fixpoint norm_free (n : ynode) : bool :=
  match n with
  | YNode k _ _ _ _ al _ _ _ _ _ content =>
      match al with None => true | Some _ => false end
      && match k with
         | YSequence | YMapping => forallb norm_free content
         | _ => match content with [] => true | _ => false end
         end
  end.

Lemma norm_free_id : forall n, norm_free n = true -> norm n = n.
Proof.
  induction n as [k s t v a al h l f ln col content IH] using ynode_ind'.
  intro H. cbn [norm_free] in H. apply andb_true_iff in H as [Hal Hc].
  destruct al; [discriminate|]. cbn [norm]. f_equal.
  assert (Hmap : forallb norm_free content = true -> map norm content = content).
  { clear Hc. intro Hc. induction content as [|c r IHr]; [reflexivity|].
    inversion IH as [|? ? Hc0 Hr]; subst. cbn [forallb] in Hc. apply andb_true_iff in Hc as [H0 Hrest].
    cbn [map]. rewrite (Hc0 H0), (IHr Hr Hrest). reflexivity. }
  destruct k; try (destruct content; [reflexivity|discriminate]); apply Hmap; exact Hc.
Qed.

(* ------------------------------------------------------------------ *)
(* Decode / Encode around the conversion                               *)
(* ------------------------------------------------------------------ *)

Lemma to_y_set_comments c h f lead :
  to_y (set_comments_leading c h f lead) = y_set_head_foot (to_y c) h f.
Proof. destruct c as [k s t v a al h0 l f0 ln col ik key ld content]. destruct k; reflexivity. Qed.

Lemma c_head_to_y c : y_head (to_y c) = c_head c.
Proof. destruct c as [k s t v a al h0 l f0 ln col ik key ld content]. destruct k; reflexivity. Qed.
Lemma c_foot_to_y c : y_foot (to_y c) = c_foot c.
Proof. destruct c as [k s t v a al h0 l f0 ln col ik key ld content]. destruct k; reflexivity. Qed.
Lemma y_head_norm n : y_head (norm n) = y_head n.
Proof. destruct n; reflexivity. Qed.
Lemma y_foot_norm n : y_foot (norm n) = y_foot n.
Proof. destruct n; reflexivity. Qed.

(* what yq hands to the emitter for a parsed document: the parsed root,
   every field intact up to [norm], with the document's head comment in front
   of the root's and the foot comments moved to the trailing content *)
Lemma decode_encode_parts lead dk ds dt dv da dal dhead dline dfoot dln dcol root rest c :
  ywf root = true ->
  decode_doc lead (YNode dk ds dt dv da dal dhead dline dfoot dln dcol (root :: rest)) = Some c ->
  encode_parts c = (y_set_head_foot (norm root) (dhead ++ y_head root) [], dfoot ++ y_foot root)
  /\ c_leading c = lead.
Proof.
  intros Hwf H. cbn [decode_doc] in H.
  destruct (from_y false None root) as [c0|] eqn:Hc0; [|discriminate].
  injection H as <-.
  pose proof (node_roundtrip root false None c0 Hwf Hc0) as Hrt.
  split.
  - unfold encode_parts. rewrite to_y_set_comments, Hrt.
    rewrite <- (c_head_to_y c0), <- (c_foot_to_y c0), Hrt, y_head_norm, y_foot_norm.
    destruct (norm root); reflexivity.
  - destruct c0; reflexivity.
Qed.

(* ------------------------------------------------------------------ *)
(* leading content                                                     *)
(* ------------------------------------------------------------------ *)

Lemma read_line_app l rest : forallb (fun c => negb (c =? 10)) l = true ->
  read_line (l ++ 10 :: rest) = (l ++ [10], rest, false).
Proof.
  induction l as [|c l IH]; intro H.
  - reflexivity.
  - cbn [forallb] in H. apply andb_true_iff in H as [Hc Hl]. apply negb_true_iff in Hc.
    cbn [app read_line]. rewrite Hc, (IH Hl). reflexivity.
Qed.

Lemma hsp_facts c : is_hsp c = true ->
  (c =? 10) = false /\ (c =? 35) = false /\ (c =? 45) = false /\ (c =? 37) = false /\ is_sp c = true.
Proof.
  unfold is_hsp, is_sp. intro H.
  repeat (apply orb_true_iff in H as [H|H]); apply N.eqb_eq in H; subst c; repeat split; reflexivity.
Qed.

Lemma hsp_no_nl pre : forallb is_hsp pre = true -> forallb (fun c => negb (c =? 10)) pre = true.
Proof.
  induction pre as [|c r IH]; intro H; [reflexivity|].
  cbn [forallb] in *. apply andb_true_iff in H as [Hc Hr].
  destruct (hsp_facts c Hc) as (H10 & _). rewrite H10, (IH Hr). reflexivity.
Qed.

Lemma comment_re_pre pre t : forallb is_hsp pre = true -> comment_re (pre ++ 35 :: t) = true.
Proof.
  induction pre as [|c r IH]; intro H; [reflexivity|].
  cbn [forallb] in H. apply andb_true_iff in H as [Hc Hr].
  destruct (hsp_facts c Hc) as (_ & H35 & _ & _ & Hsp).
  cbn [app comment_re]. rewrite H35, Hsp. apply IH. exact Hr.
Qed.

Lemma window_comment pre t : (length pre <= 3)%nat -> forallb is_hsp pre = true ->
  comment_re (firstn 4 (pre ++ 35 :: t)) = true.
Proof.
  intros Hlen Hpre.
  destruct pre as [|p1 [|p2 [|p3 [|p4 pre']]]]; cbn [length] in Hlen; try lia; cbn [forallb] in Hpre.
  - reflexivity.
  - apply andb_true_iff in Hpre as [H1 _]. destruct (hsp_facts p1 H1) as (_ & A35 & _ & _ & Asp).
    cbn [app firstn comment_re]. rewrite A35, Asp. reflexivity.
  - apply andb_true_iff in Hpre as [H1 Hpre]. apply andb_true_iff in Hpre as [H2 _].
    destruct (hsp_facts p1 H1) as (_ & A35 & _ & _ & Asp). destruct (hsp_facts p2 H2) as (_ & B35 & _ & _ & Bsp).
    cbn [app firstn comment_re]. rewrite A35, Asp, B35, Bsp. reflexivity.
  - apply andb_true_iff in Hpre as [H1 Hpre]. apply andb_true_iff in Hpre as [H2 Hpre]. apply andb_true_iff in Hpre as [H3 _].
    destruct (hsp_facts p1 H1) as (_ & A35 & _ & _ & Asp). destruct (hsp_facts p2 H2) as (_ & B35 & _ & _ & Bsp).
    destruct (hsp_facts p3 H3) as (_ & C35 & _ & _ & Csp).
    cbn [app firstn comment_re]. rewrite A35, Asp, B35, Bsp, C35, Csp. reflexivity.
Qed.

(* first byte of a comment line: horizontal white space or the hash *)
Lemma comment_head pre t : forallb is_hsp pre = true ->
  exists a r, pre ++ 35 :: t = a :: r /\ (a =? 10) = false /\ (a =? 45) = false /\ (a =? 36) = false.
Proof.
  intro Hpre. destruct pre as [|p1 pre'].
  - exists 35, t. repeat split; reflexivity.
  - cbn [forallb] in Hpre. apply andb_true_iff in Hpre as [H1 _].
    exists p1, (pre' ++ 35 :: t). split; [reflexivity|].
    unfold is_hsp in H1. repeat (apply orb_true_iff in H1 as [H1|H1]); apply N.eqb_eq in H1; subst p1; repeat split; reflexivity.
Qed.

Lemma classify_comment pre t :
  (length pre <= 3)%nat -> forallb is_hsp pre = true -> classify (pre ++ 35 :: t) = Line.
Proof.
  intros Hlen Hpre. pose proof (window_comment pre t Hlen Hpre) as Hw.
  destruct (comment_head pre t Hpre) as (a & r & E & A10 & A45 & _).
  rewrite E in *. unfold classify. rewrite A10.
  assert (Hs : forall x y z, str_eqb (firstn 4 (a :: r)) [45; x; y; z] = false).
  { intros x y z. cbn [firstn str_eqb]. rewrite A45. reflexivity. }
  unfold sep_sp, sep_nl. rewrite !Hs. cbn [orb]. rewrite Hw. reflexivity.
Qed.

Lemma render_cons h hs : render (h :: hs) = render_line h ++ render hs.
Proof. reflexivity. Qed.
Lemma content_cons h hs : content_of (h :: hs) = content_line h ++ content_of hs.
Proof. reflexivity. Qed.

Lemma prs_header : forall hs body fuel sb,
  Forall (fun h => hline_ok h = true) hs -> body_ok body = true ->
  (length (render hs ++ body) < fuel)%nat ->
  prs fuel (render hs ++ body) sb = (sb ++ content_of hs, body).
Proof.
  induction hs as [|h hs IH]; intros body fuel sb Hok Hbody Hfuel;
    (destruct fuel as [|f]; [lia|]).
  - unfold body_ok in Hbody. cbn [render flat_map app content_of]. cbn [prs].
    destruct (classify body); try discriminate. rewrite app_nil_r. reflexivity.
  - inversion Hok as [|? ? Hh Hhs]; subst.
    rewrite render_cons, content_cons, <- app_assoc in *.
    destruct h as [| |pre txt].
    + (* blank line *)
      cbn [render_line app] in *. cbn [prs]. unfold classify. change (10 =? 10) with true. cbv iota. cbn [tl].
      rewrite IH; [|exact Hhs|exact Hbody|cbn [length] in Hfuel; lia].
      cbn [content_line]. rewrite <- app_assoc. reflexivity.
    + (* separator line *)
      cbn [render_line app] in *. cbn [prs]. unfold classify. cbn [firstn skipn].
      change (45 =? 10) with false. change (str_eqb [45; 45; 45; 10] sep_sp) with false.
      change (str_eqb [45; 45; 45; 10] sep_nl) with true. cbn [orb]. cbv iota.
      rewrite IH; [|exact Hhs|exact Hbody|cbn [length] in Hfuel; lia].
      cbn [content_line]. rewrite <- !app_assoc. reflexivity.
    + (* comment line *)
      cbn [hline_ok] in Hh. apply andb_true_iff in Hh as [Hh Htxt].
      apply andb_true_iff in Hh as [Hplen Hpre]. apply Nat.leb_le in Hplen.
      cbn [render_line] in *. rewrite <- !app_assoc in *. cbn [app] in *. rewrite <- !app_assoc in *. cbn [app] in *.
      cbn [prs]. rewrite (classify_comment pre _ Hplen Hpre).
      change (pre ++ 35 :: txt ++ 10 :: render hs ++ body) with (pre ++ (35 :: txt) ++ 10 :: render hs ++ body).
      rewrite app_assoc, read_line_app.
      * rewrite IH; [|exact Hhs|exact Hbody|].
        -- cbn [content_line]. rewrite <- !app_assoc. cbn [app]. rewrite <- !app_assoc. reflexivity.
        -- rewrite !app_length in Hfuel. cbn [length] in Hfuel. rewrite !app_length in Hfuel.
           cbn [length] in Hfuel. rewrite app_length in *. lia.
      * rewrite forallb_app. rewrite (hsp_no_nl _ Hpre). cbn [forallb]. change (negb (35 =? 10)) with true.
        cbn [andb]. exact Htxt.
Qed.

Lemma marker_no_nl : forallb (fun c => negb (c =? 10)) marker = true.
Proof. reflexivity. Qed.

Lemma out_line_comment pre txt :
  forallb is_hsp pre = true ->
  out_line (pre ++ 35 :: txt ++ [10]) = pre ++ 35 :: txt ++ [10].
Proof.
  intros Hpre. unfold out_line.
  destruct (comment_head pre (txt ++ [10]) Hpre) as (a & r & E & _ & _ & A36).
  rewrite (comment_re_pre pre _ Hpre). rewrite E.
  assert (Hm : forall m, str_eqb (a :: r) (36 :: m) = false) by (intro m; cbn [str_eqb]; rewrite A36; reflexivity).
  unfold marker. cbn [app]. rewrite !Hm. cbn [orb]. rewrite !andb_false_r. reflexivity.
Qed.

(* a line of horizontal white space is printed as it is *)
Lemma out_line_space pre : forallb is_hsp pre = true -> out_line (pre ++ [10]) = pre ++ [10].
Proof.
  intro Hpre. unfold out_line.
  assert (Ht : forallb is_tsp (pre ++ [10]) = true).
  { rewrite forallb_app. cbn [forallb]. change (is_tsp 10) with true. rewrite andb_true_r. cbn [andb].
    clear -Hpre. induction pre as [|c r IH]; [reflexivity|]. cbn [forallb] in *. apply andb_true_iff in Hpre as [Hc Hr].
    rewrite (IH Hr), andb_true_r. unfold is_hsp in Hc. unfold is_tsp.
    repeat (apply orb_true_iff in Hc as [Hc|Hc]); apply N.eqb_eq in Hc; subst c; reflexivity. }
  assert (Hm : forall m, str_eqb (pre ++ [10]) (36 :: m) = false).
  { intro m. destruct pre as [|c r]; [reflexivity|]. cbn [forallb] in Hpre. apply andb_true_iff in Hpre as [Hc _].
    cbn [app str_eqb]. unfold is_hsp in Hc.
    repeat (apply orb_true_iff in Hc as [Hc|Hc]); apply N.eqb_eq in Hc; subst c; reflexivity. }
  unfold marker. cbn [app]. rewrite !Hm, Ht. reflexivity.
Qed.

Lemma pl_header : forall hs fuel,
  Forall (fun h => hline_ok h = true) hs -> (length (content_of hs) < fuel)%nat ->
  pl fuel (content_of hs) = render hs.
Proof.
  induction hs as [|h hs IH]; intros fuel Hok Hfuel; (destruct fuel as [|f]; [lia|]).
  - reflexivity.
  - inversion Hok as [|? ? Hh Hhs]; subst. rewrite content_cons, render_cons in *.
    destruct h as [| |pre txt].
    + cbn [content_line render_line app] in *. cbn [pl read_line]. change (10 =? 10) with true. cbv iota.
      rewrite IH; [reflexivity|exact Hhs|cbn [length] in Hfuel; lia].
    + cbn [content_line render_line] in *. rewrite <- app_assoc in *. cbn [app] in Hfuel |- *.
      assert (E : pl (S f) (marker ++ 10 :: content_of hs) = out_line (marker ++ [10]) ++ pl f (content_of hs)).
      { cbn [pl]. rewrite (read_line_app marker (content_of hs) marker_no_nl).
        destruct (marker ++ 10 :: content_of hs) eqn:Em; [discriminate|]. reflexivity. }
      change ((marker ++ [10]) ++ content_of hs) with (marker ++ 10 :: content_of hs) in *.
      rewrite E. rewrite IH; [reflexivity|exact Hhs|].
      rewrite app_length in Hfuel. cbn [length] in Hfuel. lia.
    + cbn [hline_ok] in Hh. apply andb_true_iff in Hh as [Hh Htxt].
      apply andb_true_iff in Hh as [Hplen Hpre].
      cbn [content_line render_line] in *.
      assert (Hnl : forallb (fun c => negb (c =? 10)) (pre ++ 35 :: txt) = true).
      { rewrite forallb_app, (hsp_no_nl _ Hpre). cbn [forallb]. exact Htxt. }
      assert (Eq : (pre ++ 35 :: txt ++ [10]) ++ content_of hs = (pre ++ 35 :: txt) ++ 10 :: content_of hs).
      { rewrite <- !app_assoc. cbn [app]. rewrite <- app_assoc. reflexivity. }
      rewrite Eq in *.
      assert (E : pl (S f) ((pre ++ 35 :: txt) ++ 10 :: content_of hs)
                  = out_line ((pre ++ 35 :: txt) ++ [10]) ++ pl f (content_of hs)).
      { cbn [pl]. rewrite (read_line_app _ (content_of hs) Hnl).
        destruct ((pre ++ 35 :: txt) ++ 10 :: content_of hs) eqn:Em; [destruct pre; discriminate|]. reflexivity. }
      rewrite E.
      replace ((pre ++ 35 :: txt) ++ [10]) with (pre ++ 35 :: txt ++ [10]) by (rewrite <- app_assoc; reflexivity).
      rewrite (out_line_comment pre txt Hpre).
      rewrite IH; [reflexivity|exact Hhs|].
      rewrite app_length in Hfuel. cbn [length] in Hfuel. lia.
Qed.

Lemma leading_roundtrip hs body :
  Forall (fun h => hline_ok h = true) hs -> body_ok body = true ->
  process_read_stream (render hs ++ body) = (content_of hs, body)
  /\ print_leading_content (content_of hs) = render hs.
Proof.
  intros Hok Hbody. split.
  - unfold process_read_stream. rewrite (prs_header hs body _ [] Hok Hbody); [reflexivity|lia].
  - unfold print_leading_content. apply pl_header; [exact Hok|lia].
Qed.

(* ------------------------------------------------------------------ *)
(* the pipeline over the library (contract as Section hypotheses)      *)
(* ------------------------------------------------------------------ *)

Lemma identity_preserves (yparse : str -> option (list ynode)) (yemit : ynode -> str)
      hs body dk ds dt dv da dal dhead dline dfoot dln dcol root rest :
  Forall (fun h => hline_ok h = true) hs -> body_ok body = true -> ywf root = true ->
  yparse body = Some [YNode dk ds dt dv da dal dhead dline dfoot dln dcol (root :: rest)] ->
  yq_pass yparse yemit (render hs ++ body)
  = Some (render hs ++ yemit (y_set_head_foot (norm root) (dhead ++ y_head root) [])
                    ++ print_leading_content (dfoot ++ y_foot root)).
Proof.
  intros Hok Hbody Hwf Hparse.
  destruct (leading_roundtrip hs body Hok Hbody) as [Hp Hl].
  unfold yq_pass. rewrite Hp. unfold read_doc. rewrite Hparse.
  destruct (from_y_total root false None Hwf) as (c0 & Hc0).
  destruct (decode_doc (content_of hs) (YNode dk ds dt dv da dal dhead dline dfoot dln dcol (root :: rest))) as [c|] eqn:Hd.
  - destruct (decode_encode_parts _ _ _ _ _ _ _ _ _ _ _ _ _ _ c Hwf Hd) as [He _].
    unfold emit_doc. rewrite He, Hl. reflexivity.
  - cbn [decode_doc] in Hd. rewrite Hc0 in Hd. discriminate.
Qed.

Section Contract.
  Variable yparse : str -> option (list ynode).
  Variable yemit : ynode -> str.
  Variable good : cnode -> Prop.

  (* what yaml.v3 emits for a good document does not begin with lines the
     leading-content scanner would take, and is at least 4 bytes long *)
  Hypothesis H_body : forall c, good c -> body_ok (emit_doc yemit c) = true.
  (* reading the emitted document back gives a document that is emitted the
     same way (idempotence of library + conversion on one bare document) *)
  Hypothesis H_reread : forall lead c, good c ->
    exists c', read_doc yparse lead (emit_doc yemit c) = Some c' /\ emit_doc yemit c' = emit_doc yemit c.

  Lemma second_pass_fixed hs body c :
    Forall (fun h => hline_ok h = true) hs -> body_ok body = true ->
    read_doc yparse (content_of hs) body = Some c -> good c ->
    let o := render hs ++ emit_doc yemit c in
    yq_pass yparse yemit (render hs ++ body) = Some o /\ yq_pass yparse yemit o = Some o.
  Proof.
    intros Hok Hbody Hread Hgood o.
    destruct (leading_roundtrip hs body Hok Hbody) as [Hp Hl].
    destruct (leading_roundtrip hs (emit_doc yemit c) Hok (H_body c Hgood)) as [Hp2 _].
    destruct (H_reread (content_of hs) c Hgood) as (c' & Hr' & He').
    split.
    - unfold yq_pass. rewrite Hp, Hread, Hl. reflexivity.
    - unfold yq_pass, o. rewrite Hp2, Hr', Hl, He'. reflexivity.
  Qed.
End Contract.
