(* Proofs/SortFirst.v — min / max (superlativeByComparison, operator_compare.go) answer with the FIRST
   of the best elements: the running best is replaced only by a strictly better element. *)
From Coq Require Import List NArith ZArith String.
From YQ Require Import Base.Str Spec.Order Model.Sort Proofs.SortProofs.
Import ListNotations.

Section LtLe.
  Context {A : Type} (c : A -> A -> comparison) (L : cmp_laws c).
  Lemma cl_lt_le_trans x y z : c x y = Lt -> c y z <> Gt -> c x z = Lt.
  Proof.
    intros H1 H2. destruct (c y z) eqn:E; [| |congruence].
    - pose proof (cl_eq_congr c L y z E x) as H. rewrite (cl_antisym c L x y), H1 in H. cbn in H.
      rewrite (cl_antisym c L z x), <- H. reflexivity.
    - eapply (cl_trans_lt c L); eassumption.
  Qed.
End LtLe.

Lemma superl_go_first greater rest : forall p1 best p2 m,
  (forall x y, In x (p1 ++ best :: p2 ++ rest) -> In y (p1 ++ best :: p2 ++ rest) -> ops_ok (fst x) (fst y) = true) ->
  (forall x, In x p1 -> sup_cmp greater (fst best) (fst x) = Lt) ->
  (forall x, In x p2 -> sup_cmp greater (fst best) (fst x) <> Gt) ->
  superl_go greater best rest = Ok m ->
  exists l1 l2, p1 ++ best :: p2 ++ rest = l1 ++ m :: l2
    /\ (forall x, In x l1 -> sup_cmp greater (fst m) (fst x) = Lt)
    /\ (forall x, In x l2 -> sup_cmp greater (fst m) (fst x) <> Gt).
Proof.
  pose proof (sup_cmp_laws greater) as L.
  induction rest as [|el r IH]; intros p1 best p2 m Hok H1 H2 H; cbn [superl_go] in H.
  - injection H as <-. exists p1, p2. rewrite app_nil_r. auto.
  - assert (Hin : forall z, In z (best :: p2 ++ el :: r) -> In z (p1 ++ best :: p2 ++ el :: r))
      by (intros z Hz; apply in_or_app; right; exact Hz).
    rewrite superl_step in H.
    2:{ apply Hok; apply Hin; [right; apply in_or_app; right; left; reflexivity | left; reflexivity]. }
    cbn [bind] in H.
    destruct (is_lt (sup_cmp greater (fst el) (fst best))) eqn:Eb.
    + assert (Hlt : sup_cmp greater (fst el) (fst best) = Lt)
        by (destruct (sup_cmp greater (fst el) (fst best)); cbn in Eb; congruence).
      specialize (IH (p1 ++ best :: p2) el [] m).
      assert (Eq1 : (p1 ++ best :: p2) ++ el :: [] ++ r = p1 ++ best :: p2 ++ el :: r)
        by (rewrite <- app_assoc; reflexivity).
      rewrite Eq1 in IH. apply IH; [exact Hok | | intros x [] | exact H].
      intros x Hx. apply in_app_or in Hx as [Hx|[<-|Hx]].
      * eapply (cl_trans_lt _ L); [exact Hlt | apply H1, Hx].
      * exact Hlt.
      * eapply (cl_lt_le_trans _ L); [exact Hlt | apply H2, Hx].
    + assert (Hbe : sup_cmp greater (fst best) (fst el) <> Gt).
      { intro E. apply (cl_gt_lt _ L) in E. rewrite E in Eb. discriminate. }
      specialize (IH p1 best (p2 ++ [el]) m).
      assert (Eq1 : p1 ++ best :: (p2 ++ [el]) ++ r = p1 ++ best :: p2 ++ el :: r)
        by (rewrite <- app_assoc; reflexivity).
      rewrite Eq1 in IH. apply IH; [exact Hok | exact H1 | | exact H].
      intros x Hx. apply in_app_or in Hx as [Hx|[<-|[]]]; [apply H2, Hx | exact Hbe].
Qed.

(* min / max return the FIRST of the best elements: everything before the answer is strictly worse *)
Theorem superlative_first greater l m :
  (forall x y, In x l -> In y l -> ops_ok (fst x) (fst y) = true) ->
  superlative greater l = Ok (Some m) ->
  exists l1 l2, l = l1 ++ m :: l2
    /\ (forall x, In x l1 -> sup_cmp greater (fst m) (fst x) = Lt)
    /\ (forall x, In x l2 -> sup_cmp greater (fst m) (fst x) <> Gt).
Proof.
  intros Hok H. destruct l as [|b r]; cbn [superlative] in H; [discriminate|].
  destruct (superl_go greater b r) as [m'| | |] eqn:E; cbn [bind] in H; try discriminate.
  injection H as <-.
  apply (superl_go_first greater r [] b [] m'); [exact Hok | intros x [] | intros x [] | exact E].
Qed.
