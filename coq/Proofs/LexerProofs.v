(* Proofs/LexerProofs.v — progress, first-match determinism and leading-layout
   insensitivity of Model/Lexer.v over the regenerated rule table. *)
From Coq Require Import Arith Lia.
From YQ Require Import Base.Str Base.Regex Gen.OpTable Gen.LexRules Model.Postfix Model.Tree Model.PostProcess
  Model.Lexer Proofs.RegexProofs.
Open Scope N_scope.

(* ------------------------------------------------------------------ *)
(* first match                                                          *)
(* ------------------------------------------------------------------ *)
Lemma first_match_spec rules s r rest :
  first_match rules s = Some (r, rest) ->
  exists pre post, rules = pre ++ r :: post /\
    (forall q, In q pre -> rule_match q s = None) /\ rule_match r s = Some rest.
Proof.
  induction rules as [|q rules IH]; cbn [first_match]; [discriminate|].
  destruct (rule_match q s) as [rest'|] eqn:E.
  - intro H. injection H as <- <-. exists [], rules. split; [reflexivity|]. split; [intros ? []| exact E].
  - intro H. destruct (IH H) as (pre & post & -> & Hpre & Hr).
    exists (q :: pre), post. split; [reflexivity|]. split; [|exact Hr].
    intros q' [<-|Hin]; [exact E | apply Hpre; exact Hin].
Qed.

Lemma first_match_none rules s :
  first_match rules s = None -> forall q, In q rules -> rule_match q s = None.
Proof.
  induction rules as [|q rules IH]; cbn [first_match]; intros H q' Hin; [destruct Hin|].
  destruct (rule_match q s) eqn:E; [discriminate|].
  destruct Hin as [<-|Hin]; [exact E | apply IH; assumption].
Qed.

(* ------------------------------------------------------------------ *)
(* progress                                                             *)
(* ------------------------------------------------------------------ *)
Definition rules_nonnullable_b : bool := forallb (fun r => negb (nullable (lr_re r))) lex_rules.
Definition rules_star_bodies_b : bool := forallb (fun r => star_bodies_ok (lr_re r)) lex_rules.

Lemma rules_nonnullable : rules_nonnullable_b = true.
Proof. vm_compute. reflexivity. Qed.
Lemma rules_star_bodies : rules_star_bodies_b = true.
Proof. vm_compute. reflexivity. Qed.

Lemma rule_nonnullable r : In r lex_rules -> nullable (lr_re r) = false.
Proof.
  intro Hin. pose proof rules_nonnullable as H. unfold rules_nonnullable_b in H.
  rewrite forallb_forall in H. apply negb_true_iff. apply H. exact Hin.
Qed.

Lemma first_match_progress s r rest :
  first_match lex_rules s = Some (r, rest) -> In r lex_rules /\ (length rest < length s)%nat.
Proof.
  intro H. apply first_match_spec in H as (pre & post & Heq & _ & Hr).
  assert (Hin : In r lex_rules) by (rewrite Heq; apply in_or_app; right; left; reflexivity).
  split; [exact Hin|]. apply match_rest_shorter in Hr as [_ Hs]. apply Hs. apply rule_nonnullable. exact Hin.
Qed.

Lemma lex_raw_fuel_indep : forall f1 f2 s, (length s < f1)%nat -> (length s < f2)%nat ->
  lex_raw f1 s = lex_raw f2 s.
Proof.
  induction f1 as [|f1 IH]; intros f2 s H1 H2; [lia|].
  destruct f2 as [|f2]; [lia|]. destruct s as [|c s]; [reflexivity|].
  cbn [lex_raw]. destruct (first_match lex_rules (c :: s)) as [[r rest]|] eqn:E; [|reflexivity].
  apply first_match_progress in E as [_ Hlt].
  destruct (length (c :: s) - length rest)%nat eqn:En; [reflexivity|].
  rewrite (IH f2 rest) by (cbn [length] in *; lia). reflexivity.
Qed.

Lemma lex_raw_total : forall f s, (length s < f)%nat ->
  lex_raw f s <> LOutOfFuel /\ lex_raw f s <> LErr LexEmptyMatch.
Proof.
  induction f as [|f IH]; intros s Hf; [lia|].
  destruct s as [|c s]; [split; discriminate|].
  cbn [lex_raw]. destruct (first_match lex_rules (c :: s)) as [[r rest]|] eqn:E; [|split; discriminate].
  apply first_match_progress in E as [_ Hlt].
  destruct (length (c :: s) - length rest)%nat eqn:En; [lia|].
  destruct (IH rest) as [H1 H2]; [cbn [length] in *; lia|].
  destruct (lex_raw f rest) as [toks|e|]; [split; discriminate| |contradiction].
  split; [discriminate|]. intro H. injection H as ->. apply H2. reflexivity.
Qed.

Lemma tokenise_total s : tokenise_raw s <> LOutOfFuel /\ tokenise_raw s <> LErr LexEmptyMatch.
Proof.
  unfold tokenise_raw. destruct (lex_raw_total (S (length s)) s) as [H1 H2]; [lia|].
  destruct (lex_raw (S (length s)) s) as [toks|e|]; [split; discriminate| |contradiction].
  split; [discriminate|]. intro H. injection H as ->. apply H2. reflexivity.
Qed.

(* one step of the tokeniser *)
Definition tok_of (r : lrule) (text : str) : list rtok :=
  if lr_elide r then []
  else match yq_definition r with
       | Some d => match yq_token (lr_action d) text with Some t => [t] | None => [] end
       | None => []
       end.

Definition lprepend (l : list rtok) (x : lres (list rtok)) : lres (list rtok) :=
  match x with LOk ts => LOk (l ++ ts) | LErr e => LErr e | LOutOfFuel => LOutOfFuel end.

Lemma tokenise_nil : tokenise_raw [] = LOk [].
Proof. reflexivity. Qed.

Lemma tokenise_step c s :
  tokenise_raw (c :: s) =
  match first_match lex_rules (c :: s) with
  | None => LErr LexInvalidInput
  | Some (r, rest) => lprepend (tok_of r (firstn (length (c :: s) - length rest) (c :: s))) (tokenise_raw rest)
  end.
Proof.
  unfold tokenise_raw at 1. cbn [lex_raw].
  destruct (first_match lex_rules (c :: s)) as [[r rest]|] eqn:E; [|reflexivity].
  apply first_match_progress in E as [_ Hlt].
  destruct (length (c :: s) - length rest)%nat eqn:En; [lia|].
  unfold tokenise_raw. rewrite (lex_raw_fuel_indep (length (c :: s)) (S (length rest)) rest) by lia.
  destruct (lex_raw (S (length rest)) rest) as [toks|e|]; cbn [lprepend]; try reflexivity.
  unfold tok_of. destruct (lr_elide r); cbn [yq_tokens app]; [reflexivity|].
  destruct (yq_definition r) as [d|]; [|reflexivity].
  destruct (yq_token (lr_action d) _); reflexivity.
Qed.

(* ------------------------------------------------------------------ *)
(* leading layout                                                       *)
(* ------------------------------------------------------------------ *)
(* blank, TAB, newline: the class of the elided `whitespace` rule *)
Definition layoutW : ranges := [(9, 10); (32, 32)].

Definition bytes (s : str) : Prop := Forall (fun c => c < 256) s.

Definition all_bytes : list N := List.map N.of_nat (List.seq 0 256).

Lemma all_bytes_in c : c < 256 -> In c all_bytes.
Proof.
  intro H. unfold all_bytes. apply in_map_iff. exists (N.to_nat c). split; [apply N2Nat.id|].
  apply in_seq. lia.
Qed.

Definition no_first_in (W : ranges) (r : regex) : bool :=
  forallb (fun c => negb (in_ranges c W) || negb (first_may r c)) all_bytes.

Lemma layoutW_byte c : in_ranges c layoutW = true -> c < 256.
Proof.
  intro H. apply in_ranges_spec in H as (lo & hi & Hin & Hr).
  cbn [layoutW In] in Hin. destruct Hin as [Heq|[Heq|[]]]; injection Heq as <- <-; lia.
Qed.

Lemma no_first_in_sound r c :
  no_first_in layoutW r = true -> in_ranges c layoutW = true -> first_may r c = false.
Proof.
  intros H Hc. unfold no_first_in in H. rewrite forallb_forall in H.
  specialize (H c (all_bytes_in c (layoutW_byte c Hc))). rewrite Hc in H. cbn [negb orb] in H.
  apply negb_true_iff. exact H.
Qed.

Definition text_indep (a : laction) : bool :=
  match a with
  | ASkip => true
  | AOp _ _ _ VNone => true
  | AOp _ _ _ (VFixed _) => true
  | _ => false
  end.

Definition tok_indep (r : lrule) : bool :=
  match yq_definition r with Some d => text_indep (lr_action d) | None => true end.

Lemma tok_of_indep r t1 t2 : tok_indep r = true -> tok_of r t1 = tok_of r t2.
Proof.
  unfold tok_indep, tok_of. intro H. destruct (lr_elide r); [reflexivity|].
  destruct (yq_definition r) as [d|]; [|reflexivity].
  destruct (lr_action d) as [|ty cp|v a cp vl]; cbn [text_indep] in H; try discriminate; try reflexivity.
  destruct vl; try discriminate; reflexivity.
Qed.

Definition kindNo (r : lrule) : bool := no_first_in layoutW (lr_re r) && negb (nullable (lr_re r)).

Definition kindE (r : lrule) : bool :=
  match lr_re r with
  | RSeq (RStar (RClass W')) X =>
      ranges_subset layoutW W' && no_first_in layoutW X && negb (nullable X) && negb (lr_elide r) && tok_indep r
  | _ => false
  end.

Definition kindW (r : lrule) : bool :=
  match lr_re r with
  | RPlus (RClass W') => ranges_subset layoutW W' && ranges_subset W' layoutW && lr_elide r
  | _ => false
  end.

Fixpoint split_ws (l : list lrule) : option (list lrule * lrule * list lrule) :=
  match l with
  | [] => None
  | r :: rs =>
      if kindW r then Some ([], r, rs)
      else match split_ws rs with
           | Some (p, w, q) => Some (r :: p, w, q)
           | None => None
           end
  end.

Fixpoint cross_ok (l : list lrule) : bool :=
  match l with
  | [] => true
  | q :: rest =>
      (if kindE q then true
       else forallb (fun r' => if kindE r'
                               then forallb (fun d => negb (first_may (lr_re r') d) || negb (first_may (lr_re q) d)) all_bytes
                               else true) rest) && cross_ok rest
  end.

Definition layout_ok_b : bool :=
  match split_ws lex_rules with
  | Some (pre, w, post) => forallb (fun r => kindE r || kindNo r) pre && cross_ok pre
  | None => false
  end.

Lemma layout_ok : layout_ok_b = true.
Proof. vm_compute. reflexivity. Qed.

Lemma split_ws_sound l : forall pre w post, split_ws l = Some (pre, w, post) -> l = pre ++ w :: post /\ kindW w = true.
Proof.
  induction l as [|r l IH]; intros pre w post H; cbn [split_ws] in H; [discriminate|].
  destruct (kindW r) eqn:E.
  - injection H as <- <- <-. split; [reflexivity | exact E].
  - destruct (split_ws l) as [[[p w'] q]|]; [|discriminate]. injection H as <- <- <-.
    destruct (IH p w' q eq_refl) as [-> Hw]. split; [reflexivity | exact Hw].
Qed.

(* a rule of kind No cannot match at a layout character; a rule of kind E
   matches there exactly as it matches one character later *)
Lemma kindNo_nomatch r c s : kindNo r = true -> in_ranges c layoutW = true -> rule_match r (c :: s) = None.
Proof.
  unfold kindNo. intros H Hc. apply andb_true_iff in H as [Hf Hn]. apply negb_true_iff in Hn.
  unfold rule_match, match_rest. rewrite (mt_no_first _ c (no_first_in_sound _ c Hf Hc)). rewrite Hn. reflexivity.
Qed.

Lemma kindE_skip r c s : kindE r = true -> in_ranges c layoutW = true -> rule_match r (c :: s) = rule_match r s.
Proof.
  unfold kindE, rule_match, match_rest. intros H Hc.
  destruct (lr_re r) as [| | |a b| | | |]; try discriminate.
  destruct a as [| | | | |a'| |]; try discriminate. destruct a' as [| |W'| | | | |]; try discriminate.
  apply andb_true_iff in H as [H _]. apply andb_true_iff in H as [H _].
  apply andb_true_iff in H as [H Hn]. apply andb_true_iff in H as [Hsub Hf]. apply negb_true_iff in Hn.
  apply ws_star_skip.
  - eapply ranges_subset_sound; eassumption.
  - apply no_first_in_sound; assumption.
  - exact Hn.
Qed.

Lemma kindE_props r : kindE r = true -> nullable (lr_re r) = false /\ lr_elide r = false /\ tok_indep r = true.
Proof.
  unfold kindE. intro H.
  destruct (lr_re r) as [| | |a b| | | |]; try discriminate.
  destruct a as [| | | | |a'| |]; try discriminate. destruct a' as [| |W'| | | | |]; try discriminate.
  apply andb_true_iff in H as [H Hti]. apply andb_true_iff in H as [H He].
  apply andb_true_iff in H as [H Hn]. apply negb_true_iff in Hn, He.
  cbn [nullable andb]. repeat split; assumption.
Qed.

Fixpoint firstE (l : list lrule) (s : str) : option (lrule * str) :=
  match l with
  | [] => None
  | r :: rs =>
      if kindE r then
        match rule_match r s with
        | Some rest => Some (r, rest)
        | None => firstE rs s
        end
      else firstE rs s
  end.

Lemma first_match_at_layout pre tail c s :
  forallb (fun r => kindE r || kindNo r) pre = true -> in_ranges c layoutW = true ->
  first_match (pre ++ tail) (c :: s) =
  match firstE pre s with Some x => Some x | None => first_match tail (c :: s) end.
Proof.
  intros Hk Hc. induction pre as [|r pre IH]; [reflexivity|].
  cbn [forallb] in Hk. apply andb_true_iff in Hk as [Hr Hk].
  cbn [app first_match firstE]. destruct (kindE r) eqn:E.
  - rewrite (kindE_skip r c s E Hc). destruct (rule_match r s); [reflexivity | apply IH; exact Hk].
  - cbn [orb] in Hr. rewrite (kindNo_nomatch r c s Hr Hc). apply IH. exact Hk.
Qed.

Lemma firstE_in l s r rest : firstE l s = Some (r, rest) -> In r l /\ kindE r = true /\ rule_match r s = Some rest.
Proof.
  induction l as [|q l IH]; cbn [firstE]; [discriminate|].
  destruct (kindE q) eqn:E.
  - destruct (rule_match q s) as [rest'|] eqn:Em.
    + intro H. injection H as <- <-. split; [left; reflexivity|]. split; assumption.
    + intro H. destruct (IH H) as (Hin & Hk & Hm). split; [right; exact Hin|]. split; assumption.
  - intro H. destruct (IH H) as (Hin & Hk & Hm). split; [right; exact Hin|]. split; assumption.
Qed.

Lemma first_match_from_firstE pre tail s r rest :
  forallb (fun r => kindE r || kindNo r) pre = true -> cross_ok pre = true -> bytes s ->
  firstE pre s = Some (r, rest) -> first_match (pre ++ tail) s = Some (r, rest).
Proof.
  intros Hk Hx Hb. induction pre as [|q pre IH]; cbn [firstE]; [discriminate|].
  cbn [forallb] in Hk. apply andb_true_iff in Hk as [Hq Hk].
  cbn [cross_ok] in Hx. apply andb_true_iff in Hx as [Hxq Hx].
  cbn [app first_match]. destruct (kindE q) eqn:E.
  - destruct (rule_match q s) as [rest'|]; [intro H; exact H | intro H; apply IH; assumption].
  - intro H. cbn [orb] in Hq.
    destruct (firstE_in _ _ _ _ H) as (Hin & HkE & Hm).
    assert (Hnone : rule_match q s = None).
    { unfold kindNo in Hq. apply andb_true_iff in Hq as [_ Hqn]. apply negb_true_iff in Hqn.
      destruct s as [|d s'].
      - unfold rule_match, match_rest. apply mt_nil_nonnullable. exact Hqn.
      - destruct (kindE_props r HkE) as (Hrn & _ & _).
        pose proof (match_first _ _ _ _ Hrn Hm) as Hfd.
        rewrite forallb_forall in Hxq. specialize (Hxq r Hin). rewrite HkE in Hxq.
        rewrite forallb_forall in Hxq. inversion Hb as [|? ? Hd _]; subst.
        specialize (Hxq d (all_bytes_in d Hd)). rewrite Hfd in Hxq. cbn [negb orb] in Hxq.
        apply negb_true_iff in Hxq.
        unfold rule_match, match_rest. rewrite (mt_no_first _ d Hxq). rewrite Hqn. reflexivity. }
    rewrite Hnone. apply IH; assumption.
Qed.

Lemma drop_class_ext W1 W2 s :
  (forall c, in_ranges c W1 = in_ranges c W2) -> drop_class W1 s = drop_class W2 s.
Proof.
  intro H. induction s as [|x s IH]; [reflexivity|]. cbn [drop_class]. rewrite H. rewrite IH. reflexivity.
Qed.

Lemma kindW_match w c s :
  kindW w = true -> in_ranges c layoutW = true ->
  rule_match w (c :: s) = Some (drop_class layoutW s) /\ lr_elide w = true.
Proof.
  unfold kindW, rule_match. intros H Hc.
  destruct (lr_re w) as [| | | | | |a|]; try discriminate. destruct a as [| |W'| | | | |]; try discriminate.
  apply andb_true_iff in H as [H He]. apply andb_true_iff in H as [H1 H2].
  split; [|exact He].
  rewrite ws_plus_match by (eapply ranges_subset_sound; eassumption).
  f_equal. apply drop_class_ext. intro x.
  destruct (in_ranges x W') eqn:E1, (in_ranges x layoutW) eqn:E2; try reflexivity.
  - rewrite (ranges_subset_sound _ _ H2 x E1) in E2. discriminate.
  - rewrite (ranges_subset_sound _ _ H1 x E2) in E1. discriminate.
Qed.

Lemma bytes_drop s : bytes s -> bytes (drop_class layoutW s).
Proof.
  induction 1 as [|x s Hx Hs IH]; cbn [drop_class]; [constructor|].
  destruct (in_ranges x layoutW); [exact IH | constructor; assumption].
Qed.

Lemma lprepend_nil x : lprepend [] x = x.
Proof. destruct x; reflexivity. Qed.

(* main statement, with the auxiliary one it is proved together with *)
Lemma leading_layout_n : forall n s, (length s <= n)%nat -> bytes s ->
  tokenise_raw s = tokenise_raw (drop_class layoutW s) /\
  (forall c, in_ranges c layoutW = true -> tokenise_raw (c :: s) = tokenise_raw s).
Proof.
  pose proof layout_ok as Hok. unfold layout_ok_b in Hok.
  destruct (split_ws lex_rules) as [[[pre w] post]|] eqn:Hsp; [|discriminate].
  apply andb_true_iff in Hok as [Hkinds Hcross].
  destruct (split_ws_sound _ _ _ _ Hsp) as [Hrules Hw].
  induction n as [|n IH]; intros s Hlen Hb.
  - destruct s; [|cbn [length] in Hlen; lia].
    assert (HB : tokenise_raw [] = tokenise_raw (drop_class layoutW [])) by reflexivity.
    split; [exact HB|]. intros c Hc.
    rewrite tokenise_step. rewrite Hrules. rewrite (first_match_at_layout pre _ c [] Hkinds Hc).
    destruct (firstE pre []) as [[r rest]|] eqn:EfE.
    + exfalso. destruct (firstE_in _ _ _ _ EfE) as (_ & HkE & Hm).
      destruct (kindE_props r HkE) as (Hrn & _ & _).
      unfold rule_match, match_rest in Hm. rewrite (mt_nil_nonnullable _ Hrn) in Hm. discriminate.
    + cbn [first_match]. destruct (kindW_match w c [] Hw Hc) as [Hm He]. rewrite Hm.
      unfold tok_of. rewrite He. rewrite lprepend_nil. reflexivity.
  - assert (HB : tokenise_raw s = tokenise_raw (drop_class layoutW s)).
    { destruct s as [|d s']; [reflexivity|]. cbn [drop_class].
      destruct (in_ranges d layoutW) eqn:Ed; [|reflexivity].
      inversion Hb as [|? ? Hd Hb']; subst. cbn [length] in Hlen.
      destruct (IH s') as [HB' HA']; [lia | exact Hb'|].
      rewrite (HA' d Ed). exact HB'. }
    split; [exact HB|]. intros c Hc.
    rewrite tokenise_step. rewrite Hrules. rewrite (first_match_at_layout pre _ c s Hkinds Hc).
    destruct (firstE pre s) as [[r rest]|] eqn:EfE.
    + pose proof (first_match_from_firstE pre (w :: post) s r rest Hkinds Hcross Hb EfE) as Hfm.
      destruct (firstE_in _ _ _ _ EfE) as (_ & HkE & Hm).
      destruct (kindE_props r HkE) as (Hrn & _ & Hti).
      destruct s as [|d s'].
      * exfalso. unfold rule_match, match_rest in Hm. rewrite (mt_nil_nonnullable _ Hrn) in Hm. discriminate.
      * rewrite (tokenise_step d s'). rewrite <- Hrules in Hfm. rewrite Hfm.
        rewrite (tok_of_indep r _ (firstn (length (d :: s') - length rest) (d :: s')) Hti). reflexivity.
    + cbn [first_match]. destruct (kindW_match w c s Hw Hc) as [Hm He]. rewrite Hm.
      unfold tok_of. rewrite He. rewrite lprepend_nil. symmetry. exact HB.
Qed.

Lemma leading_layout_char c s :
  bytes s -> in_ranges c layoutW = true -> tokenise_raw (c :: s) = tokenise_raw s.
Proof. intros Hb Hc. exact (proj2 (leading_layout_n (length s) s (le_n _) Hb) c Hc). Qed.

Definition layout_run (ws : str) : Prop := Forall (fun c => in_ranges c layoutW = true) ws.

Lemma leading_layout ws s : layout_run ws -> bytes s -> tokenise_raw (ws ++ s) = tokenise_raw s.
Proof.
  intros Hws Hb. induction Hws as [|c ws Hc Hws IH]; [reflexivity|].
  cbn [app]. rewrite leading_layout_char; [exact IH | | exact Hc].
  apply Forall_app. split; [|exact Hb].
  clear IH. induction Hws as [|x ws Hx _ IH']; constructor; [apply layoutW_byte; exact Hx | exact IH'].
Qed.

(* ------------------------------------------------------------------ *)
(* a token followed by layout                                           *)
(* ------------------------------------------------------------------ *)
(* q cannot match any text that starts with u: u contradicts q's mandatory literal prefix *)
Definition blocked (q : lrule) (u : str) : bool := negb (fits (fst (mp (lr_re q))) u).

(* Executable side condition: t lexes as one token by some rule R of the
   list; R itself never consumes c; every earlier rule either never consumes
   c (so c and what follows cannot make it match), or is contradicted by
   t ++ [c] on its literal prefix, or cannot start with the first byte of t. *)
Fixpoint safe_after (l : list lrule) (t : str) (c : N) : bool :=
  match l with
  | [] => false
  | q :: rest =>
      match rule_match q t with
      | Some _ => negb (may_consume (lr_re q) c)
      | None =>
          (negb (may_consume (lr_re q) c) || blocked q (t ++ [c]) ||
           match t with
           | d :: _ => negb (first_may (lr_re q) d) && negb (nullable (lr_re q))
           | [] => false
           end) && safe_after rest t c
      end
  end.

Lemma token_then_char l : forall t c z R,
  first_match l t = Some (R, []) -> safe_after l t c = true ->
  first_match l (t ++ c :: z) = Some (R, c :: z).
Proof.
  induction l as [|q l IH]; intros t c z R Hfm Hsafe; cbn [first_match safe_after] in *; [discriminate|].
  destruct (rule_match q t) as [rest|] eqn:Em.
  - injection Hfm as <- ->. apply negb_true_iff in Hsafe.
    unfold rule_match in *. rewrite (match_rest_extend _ c z t Hsafe). rewrite Em. reflexivity.
  - apply andb_true_iff in Hsafe as [Hq Hrest].
    assert (Hnone : rule_match q (t ++ c :: z) = None).
    { apply orb_true_iff in Hq as [Hq|Hq]; [apply orb_true_iff in Hq as [Hq|Hq]|].
      - apply negb_true_iff in Hq. unfold rule_match in *. rewrite (match_rest_extend _ c z t Hq). rewrite Em. reflexivity.
      - unfold blocked in Hq. apply negb_true_iff in Hq. unfold rule_match, match_rest.
        apply mp_sound. replace (t ++ c :: z) with ((t ++ [c]) ++ z) by (rewrite <- app_assoc; reflexivity).
        apply fits_more. exact Hq.
      - destruct t as [|d t']; [discriminate|]. apply andb_true_iff in Hq as [Hf Hn].
        apply negb_true_iff in Hf, Hn. unfold rule_match, match_rest. cbn [app].
        rewrite (mt_no_first _ d Hf). rewrite Hn. reflexivity. }
    rewrite Hnone. apply IH; assumption.
Qed.

Lemma firstn_app_exact {A} (a b : list A) : firstn (length (a ++ b) - length b) (a ++ b) = a.
Proof.
  rewrite app_length. replace (length a + length b - length b)%nat with (length a + 0)%nat by lia.
  rewrite firstn_app_2. cbn [firstn]. apply app_nil_r.
Qed.

Lemma token_then_layout t c z R :
  first_match lex_rules t = Some (R, []) -> safe_after lex_rules t c = true ->
  in_ranges c layoutW = true -> bytes z ->
  tokenise_raw (t ++ c :: z) = lprepend (tok_of R t) (tokenise_raw z).
Proof.
  intros Hfm Hsafe Hc Hz.
  pose proof (token_then_char lex_rules t c z R Hfm Hsafe) as Hfm'.
  destruct t as [|d t'].
  - exfalso. apply first_match_progress in Hfm as [_ Hlt]. cbn [length] in Hlt. lia.
  - cbn [app] in *. rewrite tokenise_step. rewrite Hfm'.
    change (d :: t' ++ c :: z) with ((d :: t') ++ c :: z). rewrite firstn_app_exact.
    rewrite (leading_layout_char c z Hz Hc). reflexivity.
Qed.

Lemma token_alone t R :
  first_match lex_rules t = Some (R, []) -> tokenise_raw t = LOk (tok_of R t).
Proof.
  intro Hfm. destruct t as [|d t'].
  - exfalso. apply first_match_progress in Hfm as [_ Hlt]. cbn [length] in Hlt. lia.
  - rewrite tokenise_step. rewrite Hfm. cbn [length]. rewrite Nat.sub_0_r.
    change (S (length t')) with (length (d :: t')). rewrite firstn_all.
    cbn [tokenise_raw lex_raw yq_tokens lprepend]. rewrite app_nil_r. reflexivity.
Qed.

(* ---- fully spaced texts: token, layout, token, layout, ... ---- *)
Definition item := (str * N * str)%type.     (* token text, first layout byte, more layout *)

Fixpoint spaced (l : list item) : str :=
  match l with
  | [] => []
  | (t, c, ws) :: rest => t ++ c :: ws ++ spaced rest
  end.

Definition tok_text (t : str) : list rtok :=
  match first_match lex_rules t with Some (R, _) => tok_of R t | None => [] end.

Definition item_ok (it : item) : Prop :=
  let '(t, c, ws) := it in
  (exists R, first_match lex_rules t = Some (R, [])) /\ safe_after lex_rules t c = true /\
  in_ranges c layoutW = true /\ layout_run ws /\ bytes t.

Lemma layout_run_bytes ws : layout_run ws -> bytes ws.
Proof. induction 1 as [|x ws Hx _ IH]; constructor; [apply layoutW_byte; exact Hx | exact IH]. Qed.

Lemma spaced_bytes l : Forall item_ok l -> bytes (spaced l).
Proof.
  induction 1 as [|[[t c] ws] l Hit _ IH]; [constructor|].
  destruct Hit as (_ & _ & Hc & Hws & Ht). cbn [spaced].
  apply Forall_app. split; [exact Ht|]. constructor; [apply layoutW_byte; exact Hc|].
  apply Forall_app. split; [apply layout_run_bytes; exact Hws | exact IH].
Qed.

Lemma spaced_tokens l : Forall item_ok l ->
  tokenise_raw (spaced l) = LOk (flat_map (fun it : item => tok_text (fst (fst it))) l).
Proof.
  induction 1 as [|[[t c] ws] l Hit Hl IH]; [reflexivity|].
  pose proof (spaced_bytes l Hl) as Hb.
  destruct Hit as ((R & Hfm) & Hsafe & Hc & Hws & Ht). cbn [spaced flat_map fst].
  rewrite (token_then_layout t c (ws ++ spaced l) R Hfm Hsafe Hc).
  - rewrite (leading_layout ws (spaced l) Hws Hb). rewrite IH. cbn [lprepend].
    unfold tok_text. rewrite Hfm. reflexivity.
  - apply Forall_app. split; [apply layout_run_bytes; exact Hws | exact Hb].
Qed.

(* the token list of a fully spaced text does not depend on WHICH layout
   (blanks, TABs, newlines, how many) separates the tokens *)
Lemma spaced_layout_insensitive l1 l2 :
  Forall item_ok l1 -> Forall item_ok l2 ->
  List.map (fun it : item => fst (fst it)) l1 = List.map (fun it : item => fst (fst it)) l2 ->
  tokenise_raw (spaced l1) = tokenise_raw (spaced l2).
Proof.
  intros H1 H2 Heq. rewrite (spaced_tokens l1 H1), (spaced_tokens l2 H2). f_equal.
  rewrite !flat_map_concat_map.
  rewrite <- (map_map (fun it : item => fst (fst it)) tok_text l1).
  rewrite <- (map_map (fun it : item => fst (fst it)) tok_text l2). rewrite Heq. reflexivity.
Qed.

(* ---- witnesses ---- *)
From Coq Require Import String.
Local Open Scope string_scope.
Definition S_ (s : String.string) : str := str_of_string s.
Definition nl : str := [10].
Definition tab : str := [9].

(* removing the layout around `-` changes the tokens: 3 - 1 against 3-1 and 3 -1 *)
Lemma minus_number_layout_sensitive :
  tokenise_raw (S_ "3 - 1") <> tokenise_raw (S_ "3-1") /\
  tokenise_raw (S_ "3 - 1") <> tokenise_raw (S_ "3 -1") /\
  tokenise_raw (S_ "3-1") = tokenise_raw (S_ "3 -1").
Proof. split; [vm_compute; discriminate|]. split; [vm_compute; discriminate | vm_compute; reflexivity]. Qed.

(* a path element swallows what follows without a blank (by design: keys may contain plus, minus, star) *)
Lemma path_swallows_operator :
  tokenise_raw (S_ ".a + 1") <> tokenise_raw (S_ ".a+ 1").
Proof. vm_compute. discriminate. Qed.

(* an unterminated quote after a dot is a path element; a NEWLINE before a
   later quote turns it into a wrapped path element, a blank does not *)
Lemma unterminated_wrapped_path_layout_sensitive :
  tokenise_raw (S_ ".""a" ++ nl ++ S_ "b""")%list <> tokenise_raw (S_ ".""a b""") /\
  safe_after lex_rules (S_ ".""a") 10 = false /\ safe_after lex_rules (S_ ".""a") 32 = true.
Proof. split; [vm_compute; discriminate|]. split; vm_compute; reflexivity. Qed.

(* TAB after a path element or after `.` is layout (repaired finding) *)
Lemma tab_after_path_is_layout :
  tokenise_raw (S_ ".a" ++ tab ++ S_ "| .b")%list = tokenise_raw (S_ ".a | .b") /\
  tokenise_raw (S_ "." ++ tab ++ S_ "| .b")%list = tokenise_raw (S_ ". | .b") /\
  safe_after lex_rules (S_ ".a") 9 = true /\ safe_after lex_rules (S_ ".") 9 = true.
Proof. repeat split; vm_compute; reflexivity. Qed.

(* the side condition holds for ordinary tokens and a comment before a newline *)
Definition w_items : list item :=
  [(S_ ".a", 32, []); (S_ "|", 10, tab); (S_ "select", 9, []); (S_ "(", 32, []); (S_ ".b", 32, []);
   (S_ "# ) not code (", 10, S_ "  "); (S_ "12", 10, []); (S_ ")", 32, [])].

Lemma spaced_example_ok :
  forallb (fun it : item => let '(t, c, ws) := it in
             match first_match lex_rules t with Some (_, []) => true | _ => false end &&
             safe_after lex_rules t c && in_ranges c layoutW &&
             forallb (fun x => in_ranges x layoutW) ws && forallb (fun x => (x <? 256)%N) t) w_items = true.
Proof. vm_compute. reflexivity. Qed.

Definition item_okb (it : item) : bool :=
  let '(t, c, ws) := it in
  match first_match lex_rules t with Some (_, []) => true | _ => false end &&
  safe_after lex_rules t c && in_ranges c layoutW &&
  forallb (fun x => in_ranges x layoutW) ws && forallb (fun x => (x <? 256)%N) t.

Lemma item_okb_sound it : item_okb it = true -> item_ok it.
Proof.
  destruct it as [[t c] ws]. unfold item_okb, item_ok. intro H.
  apply andb_true_iff in H as [H Hb]. apply andb_true_iff in H as [H Hws].
  apply andb_true_iff in H as [H Hc]. apply andb_true_iff in H as [Hfm Hsafe].
  split.
  - destruct (first_match lex_rules t) as [[R rest]|]; [|discriminate].
    destruct rest; [|discriminate]. exists R. reflexivity.
  - split; [exact Hsafe|]. split; [exact Hc|]. split.
    + unfold layout_run. apply Forall_forall. intros x Hx. rewrite forallb_forall in Hws. apply Hws. exact Hx.
    + unfold bytes. apply Forall_forall. intros x Hx. rewrite forallb_forall in Hb. apply N.ltb_lt. apply Hb. exact Hx.
Qed.

Lemma spaced_example :
  Forall item_ok w_items /\
  parse_text (spaced w_items) = parse_text (S_ ".a | select(.b 12)").
Proof.
  split.
  - apply Forall_forall. intros it Hin. apply item_okb_sound.
    pose proof spaced_example_ok as H. rewrite forallb_forall in H. exact (H it Hin).
  - vm_compute. reflexivity.
Qed.

Lemma leading_layout_parse ws s : layout_run ws -> bytes s -> parse_text (ws ++ s)%list = parse_text s.
Proof. intros Hws Hb. unfold parse_text. rewrite (leading_layout ws s Hws Hb). reflexivity. Qed.
