(* Proofs/CsvProofs.v — lemmas for C14 (CSV/TSV): what the writer emits for a
   field denotes the field (RFC 4180), and the reader automaton reads back
   every rectangular set of records the writer wrote, for every valid
   separator, when no field holds CR LF and no record is a lone empty field. *)
From Coq Require Import Lia PeanoNat.
From YQ Require Import Base.Str Model.Csv Spec.Codecs.

(* ---------- the step function of the automaton, unfolded once ---------- *)
Definition csv_bare_step (sep c : N) (r : str) : cres :=
  if c =? c_dq then CErr CsvBareQuote
  else if c =? sep then c_next_field (csv_go sep MField r)
  else if c =? c_nl then c_end_record (csv_go sep MRecord r)
  else c_prefix c (csv_go sep MBare r).

Definition csv_field_start (sep c : N) (r : str) : cres :=
  if c =? c_dq then csv_go sep MQuoted r else csv_bare_step sep c r.

Definition csv_step (sep : N) (m : cmode) (c : N) (r : str) : cres :=
  match m with
  | MRecord => if c =? c_nl then csv_go sep MRecord r else c_as_record (csv_field_start sep c r)
  | MField => csv_field_start sep c r
  | MBare => csv_bare_step sep c r
  | MQuoted => if c =? c_dq then csv_go sep MQuoteSeen r else c_prefix c (csv_go sep MQuoted r)
  | MQuoteSeen =>
      if c =? c_dq then c_prefix c_dq (csv_go sep MQuoted r)
      else if c =? sep then c_next_field (csv_go sep MField r)
      else if c =? c_nl then c_end_record (csv_go sep MRecord r)
      else CErr CsvQuote
  end.

Lemma csv_go_cons sep m c r :
  csv_go sep m (c :: r) =
  if c =? c_cr then
    match r with
    | [] => csv_go sep m r
    | d :: _ => if d =? c_nl then csv_go sep m r else csv_step sep m c r
    end
  else csv_step sep m c r.
Proof. destruct m; reflexivity. Qed.

Lemma csv_go_nocr sep m c r : (c =? c_cr) = false -> csv_go sep m (c :: r) = csv_step sep m c r.
Proof. intro H. rewrite csv_go_cons, H. reflexivity. Qed.

(* a CR that is followed by something other than LF is an ordinary character *)
Lemma csv_go_cr_other sep m d r : (d =? c_nl) = false ->
  csv_go sep m (c_cr :: d :: r) = csv_step sep m c_cr (d :: r).
Proof. intro H. rewrite csv_go_cons. change (c_cr =? c_cr) with true. cbv iota. rewrite H. reflexivity. Qed.

(* ---------- results with a longer current field ---------- *)
Definition prefix_str (f : str) (r : cres) : cres :=
  match r with COk g fs recs => COk (f ++ g) fs recs | e => e end.

Lemma prefix_str_nil r : prefix_str [] r = r.
Proof. destruct r; reflexivity. Qed.

Lemma prefix_str_cons c f r : c_prefix c (prefix_str f r) = prefix_str (c :: f) r.
Proof. destruct r; reflexivity. Qed.

(* ---------- separators ---------- *)
Lemma valid_sep_facts sep : csv_valid_sep sep = true ->
  (sep =? c_dq) = false /\ (sep =? c_cr) = false /\ (sep =? c_nl) = false.
Proof.
  unfold csv_valid_sep. intro H. apply andb_true_iff in H as [H _]. apply negb_true_iff in H.
  apply orb_false_iff in H as [H H4]. apply orb_false_iff in H as [H H3]. apply orb_false_iff in H as [_ H2].
  repeat split; assumption.
Qed.

(* ---------- bare fields ---------- *)
Definition bare_char (sep c : N) : bool := negb (csv_special sep c).

Lemma bare_char_facts sep c : bare_char sep c = true ->
  (c =? c_nl) = false /\ (c =? c_cr) = false /\ (c =? c_dq) = false /\ (c =? sep) = false.
Proof.
  unfold bare_char, csv_special. intro H. apply negb_true_iff in H.
  apply orb_false_iff in H as [H H4]. apply orb_false_iff in H as [H H3]. apply orb_false_iff in H as [H1 H2].
  repeat split; assumption.
Qed.

Lemma go_bare sep f s : forallb (bare_char sep) f = true ->
  csv_go sep MBare (f ++ s) = prefix_str f (csv_go sep MBare s).
Proof.
  induction f as [|c f IH]; intro H.
  - cbn [app]. rewrite prefix_str_nil. reflexivity.
  - cbn [forallb] in H. apply andb_true_iff in H as [Hc Hf].
    destruct (bare_char_facts sep c Hc) as (H1 & H2 & H3 & H4).
    cbn [app]. rewrite (csv_go_nocr _ _ _ _ H2). cbn [csv_step]. unfold csv_bare_step.
    rewrite H3, H4, H1, (IH Hf). apply prefix_str_cons.
Qed.

(* at the start of a field, a character that is neither a quote nor CR is
   handled as inside a bare field *)
Lemma go_field_as_bare sep c r : (c =? c_dq) = false -> (c =? c_cr) = false ->
  csv_go sep MField (c :: r) = csv_go sep MBare (c :: r).
Proof.
  intros H1 H2. rewrite !(csv_go_nocr _ _ _ _ H2). cbn [csv_step]. unfold csv_field_start. rewrite H1. reflexivity.
Qed.

(* ---------- quoted fields ---------- *)
Lemma quote_body_head_not_nl f s : crlf_free (c_cr :: f) = true ->
  exists d r, csv_quote_body f ++ c_dq :: s = d :: r /\ (d =? c_nl) = false.
Proof.
  intro H. destruct f as [|d f].
  - exists c_dq, s. split; reflexivity.
  - cbn [crlf_free] in H. change (c_cr =? 13) with true in H. cbn [andb] in H.
    apply andb_true_iff in H as [H _]. apply negb_true_iff in H.
    cbn [csv_quote_body]. destruct (d =? c_dq) eqn:E.
    + eexists _, _. split; [reflexivity|reflexivity].
    + eexists _, _. split; [reflexivity|exact H].
Qed.

Lemma go_quoted sep f s : crlf_free f = true ->
  csv_go sep MQuoted (csv_quote_body f ++ c_dq :: s) = prefix_str f (csv_go sep MQuoteSeen s).
Proof.
  induction f as [|c f IH]; intro H.
  - cbn [csv_quote_body app]. rewrite csv_go_nocr by reflexivity. cbn [csv_step].
    change (c_dq =? c_dq) with true. cbv iota. rewrite prefix_str_nil. reflexivity.
  - assert (Hf : crlf_free f = true).
    { cbn [crlf_free] in H. apply andb_true_iff in H as [_ H]. exact H. }
    cbn [csv_quote_body]. destruct (c =? c_dq) eqn:Eq.
    + apply N.eqb_eq in Eq. subst c. cbn [app].
      rewrite csv_go_nocr by reflexivity. cbn [csv_step]. change (c_dq =? c_dq) with true. cbv iota.
      rewrite csv_go_nocr by reflexivity. cbn [csv_step]. change (c_dq =? c_dq) with true. cbv iota.
      rewrite (IH Hf). apply prefix_str_cons.
    + cbn [app]. destruct (c =? c_cr) eqn:Ecr.
      * apply N.eqb_eq in Ecr. subst c.
        destruct (quote_body_head_not_nl f s H) as (d & r & E & Hd).
        rewrite E, (csv_go_cr_other _ _ _ _ Hd), <- E. cbn [csv_step]. rewrite Eq, (IH Hf). apply prefix_str_cons.
      * rewrite (csv_go_nocr _ _ _ _ Ecr). cbn [csv_step]. rewrite Eq, (IH Hf). apply prefix_str_cons.
Qed.

(* ---------- one written field followed by a separator or a line end ---------- *)
Lemma existsb_false_forallb {A} (p : A -> bool) l : existsb p l = false -> forallb (fun x => negb (p x)) l = true.
Proof.
  induction l as [|x l IH]; [reflexivity|]. cbn [existsb forallb]. intro H.
  apply orb_false_iff in H as [H1 H2]. rewrite H1, (IH H2). reflexivity.
Qed.

Lemma no_quotes_bare sep f : csv_needs_quotes sep f = false -> forallb (bare_char sep) f = true.
Proof.
  destruct f as [|c f]; [reflexivity|]. unfold csv_needs_quotes. intro H.
  apply orb_false_iff in H as [H _]. apply orb_false_iff in H as [_ H].
  exact (existsb_false_forallb _ _ H).
Qed.

Definition after_field (f : str) (r : cres) : cres :=
  match r with COk g fs recs => COk f (g :: fs) recs | e => e end.
Definition last_field (f : str) (r : cres) : cres :=
  match r with COk _ _ recs => COk f [] recs | e => e end.

Lemma go_bare_then sep f t s : csv_valid_sep sep = true -> forallb (bare_char sep) f = true ->
  (t = sep \/ t = c_nl) ->
  csv_go sep MField (f ++ t :: s) = csv_go sep MBare (f ++ t :: s).
Proof.
  intros Hv Hf Ht. destruct (valid_sep_facts sep Hv) as (S1 & S2 & S3).
  destruct f as [|c f].
  - cbn [app]. destruct Ht as [->| ->]; apply go_field_as_bare; try assumption; reflexivity.
  - cbn [forallb] in Hf. apply andb_true_iff in Hf as [Hc _].
    destruct (bare_char_facts sep c Hc) as (_ & H2 & H3 & _). cbn [app]. apply go_field_as_bare; assumption.
Qed.

Lemma go_field_sep sep f s : csv_valid_sep sep = true -> crlf_free f = true ->
  csv_go sep MField (csv_write_field sep f ++ sep :: s) = after_field f (csv_go sep MField s).
Proof.
  intros Hv Hf. destruct (valid_sep_facts sep Hv) as (S1 & S2 & S3).
  unfold csv_write_field. destruct (csv_needs_quotes sep f) eqn:Eq.
  - cbn [app]. rewrite <- app_assoc. cbn [app].
    rewrite csv_go_nocr by reflexivity. cbn [csv_step]. unfold csv_field_start.
    change (c_dq =? c_dq) with true. cbv iota. rewrite (go_quoted sep f _ Hf).
    rewrite (csv_go_nocr _ _ _ _ S2). cbn [csv_step]. rewrite S1, N.eqb_refl.
    destruct (csv_go sep MField s); cbn [c_next_field prefix_str after_field]; [rewrite app_nil_r|]; reflexivity.
  - pose proof (no_quotes_bare sep f Eq) as Hb.
    rewrite (go_bare_then sep f sep s Hv Hb (or_introl eq_refl)), (go_bare sep f _ Hb).
    rewrite (csv_go_nocr _ _ _ _ S2). cbn [csv_step]. unfold csv_bare_step. rewrite S1, N.eqb_refl.
    destruct (csv_go sep MField s); cbn [c_next_field prefix_str after_field]; [rewrite app_nil_r|]; reflexivity.
Qed.

Lemma go_field_nl sep f s : csv_valid_sep sep = true -> crlf_free f = true ->
  csv_go sep MField (csv_write_field sep f ++ c_nl :: s) = last_field f (csv_go sep MRecord s).
Proof.
  intros Hv Hf. destruct (valid_sep_facts sep Hv) as (S1 & S2 & S3).
  assert (N1 : (c_nl =? sep) = false) by (rewrite N.eqb_sym; exact S3).
  unfold csv_write_field. destruct (csv_needs_quotes sep f) eqn:Eq.
  - cbn [app]. rewrite <- app_assoc. cbn [app].
    rewrite csv_go_nocr by reflexivity. cbn [csv_step]. unfold csv_field_start.
    change (c_dq =? c_dq) with true. cbv iota. rewrite (go_quoted sep f _ Hf).
    rewrite csv_go_nocr by reflexivity. cbn [csv_step]. change (c_nl =? c_dq) with false. cbv iota.
    rewrite N1. change (c_nl =? c_nl) with true. cbv iota.
    destruct (csv_go sep MRecord s); cbn [c_end_record prefix_str last_field]; [rewrite app_nil_r|]; reflexivity.
  - pose proof (no_quotes_bare sep f Eq) as Hb.
    rewrite (go_bare_then sep f c_nl s Hv Hb (or_intror eq_refl)), (go_bare sep f _ Hb).
    rewrite csv_go_nocr by reflexivity. cbn [csv_step]. unfold csv_bare_step.
    change (c_nl =? c_dq) with false. cbv iota. rewrite N1. change (c_nl =? c_nl) with true. cbv iota.
    destruct (csv_go sep MRecord s); cbn [c_end_record prefix_str last_field]; [rewrite app_nil_r|]; reflexivity.
Qed.

(* ---------- the fields of one record ---------- *)
Definition whole_record (fs : list str) (r : cres) : cres :=
  match fs with
  | [] => r
  | f :: fs' => match r with COk _ _ recs => COk f fs' recs | e => e end
  end.

Lemma go_fields sep fs s : csv_valid_sep sep = true -> fs <> [] -> Forall (fun f => crlf_free f = true) fs ->
  csv_go sep MField (csv_write_fields sep fs ++ c_nl :: s) = whole_record fs (csv_go sep MRecord s).
Proof.
  intros Hv Hne Hall. induction fs as [|f fs IH]; [congruence|].
  inversion Hall as [|? ? Hf Hfs]; subst.
  destruct fs as [|g fs].
  - cbn [csv_write_fields whole_record]. rewrite (go_field_nl sep f s Hv Hf).
    destruct (csv_go sep MRecord s); reflexivity.
  - change (csv_write_fields sep (f :: g :: fs)) with (csv_write_field sep f ++ sep :: csv_write_fields sep (g :: fs)).
    rewrite <- app_assoc. cbn [app]. rewrite (go_field_sep sep f _ Hv Hf).
    rewrite (IH ltac:(discriminate) Hfs). cbn [whole_record].
    destruct (csv_go sep MRecord s); reflexivity.
Qed.

(* the first character of a written record is neither LF nor CR *)
Lemma record_head sep fs s : csv_valid_sep sep = true -> fs <> [] -> fs <> [[]] ->
  exists c r, csv_write_fields sep fs ++ c_nl :: s = c :: r /\ (c =? c_nl) = false /\ (c =? c_cr) = false.
Proof.
  intros Hv H1 H2. destruct (valid_sep_facts sep Hv) as (S1 & S2 & S3).
  destruct fs as [|f fs]; [congruence|].
  assert (Hf : forall t, exists c r, csv_write_field sep f ++ t = c :: r /\ ((c =? c_nl) = false /\ (c =? c_cr) = false) \/ (f = [] /\ csv_write_field sep f = [])).
  { intro t. unfold csv_write_field. destruct (csv_needs_quotes sep f) eqn:Eq.
    - exists c_dq. eexists. left. split; [reflexivity|]. split; reflexivity.
    - destruct f as [|c f].
      + exists 0, []. right. split; reflexivity.
      + pose proof (no_quotes_bare sep _ Eq) as Hb. cbn [forallb] in Hb. apply andb_true_iff in Hb as [Hc _].
        destruct (bare_char_facts sep c Hc) as (B1 & B2 & _).
        exists c. eexists. left. split; [reflexivity|]. split; assumption. }
  destruct fs as [|g fs].
  - cbn [csv_write_fields]. destruct (Hf (c_nl :: s)) as (c & r & [(E & A & B)|(E1 & E2)]).
    + exists c, r. repeat split; assumption.
    + subst f. congruence.
  - change (csv_write_fields sep (f :: g :: fs)) with (csv_write_field sep f ++ sep :: csv_write_fields sep (g :: fs)).
    rewrite <- app_assoc.
    destruct (Hf ((sep :: csv_write_fields sep (g :: fs)) ++ c_nl :: s)) as (c & r & [(E & A & B)|(E1 & E2)]).
    + exists c, r. repeat split; assumption.
    + rewrite E2. cbn [app]. eexists sep, _. split; [reflexivity|]. split; assumption.
Qed.

Lemma lone_empty_false fs : lone_empty fs = false -> fs <> [[]].
Proof. intros H E. subst fs. discriminate. Qed.

Lemma lone_empty_true fs : lone_empty fs = true -> fs = [[]].
Proof. destruct fs as [|[|c f] [|g fs]]; try discriminate. reflexivity. Qed.

Lemma go_record sep fs s : csv_valid_sep sep = true -> csv_row_ok fs ->
  csv_go sep MRecord (csv_write_record sep fs ++ s) =
  match csv_go sep MRecord s with COk _ _ recs => COk [] [] (fs :: recs) | e => e end.
Proof.
  intros Hv (H1 & Hall). destruct (valid_sep_facts sep Hv) as (S1 & S2 & S3).
  unfold csv_write_record. destruct (lone_empty fs) eqn:El.
  - (* the quoted empty record *)
    apply lone_empty_true in El. subst fs. cbn [app].
    rewrite csv_go_nocr by reflexivity. cbn [csv_step]. change (c_dq =? c_nl) with false. cbv iota.
    unfold csv_field_start. change (c_dq =? c_dq) with true. cbv iota.
    rewrite csv_go_nocr by reflexivity. cbn [csv_step]. change (c_dq =? c_dq) with true. cbv iota.
    rewrite csv_go_nocr by reflexivity. cbn [csv_step]. change (c_nl =? c_dq) with false. cbv iota.
    assert (N1 : (c_nl =? sep) = false) by (rewrite N.eqb_sym; exact S3). rewrite N1.
    change (c_nl =? c_nl) with true. cbv iota.
    destruct (csv_go sep MRecord s); reflexivity.
  - pose proof (lone_empty_false fs El) as H2.
    rewrite <- app_assoc. cbn [app].
    destruct (record_head sep fs s Hv H1 H2) as (c & r & E & A & B).
    pose proof (go_fields sep fs s Hv H1 Hall) as G. rewrite E in *.
    rewrite (csv_go_nocr _ _ _ _ B). cbn [csv_step]. rewrite A.
    rewrite (csv_go_nocr _ _ _ _ B) in G. cbn [csv_step] in G. rewrite G.
    destruct fs as [|f fs]; [congruence|]. cbn [whole_record].
    destruct (csv_go sep MRecord s); reflexivity.
Qed.

Lemma go_records sep rows : csv_valid_sep sep = true -> Forall csv_row_ok rows ->
  csv_go sep MRecord (csv_write sep rows) = COk [] [] rows.
Proof.
  intros Hv Hall. induction Hall as [|fs rows Hfs _ IH]; [reflexivity|].
  unfold csv_write. cbn [List.map concat]. fold (csv_write sep rows).
  rewrite (go_record sep fs _ Hv Hfs), IH. reflexivity.
Qed.

Lemma all_length_same n rows : all_length n rows = same_length n rows.
Proof. induction rows as [|r rows IH]; [reflexivity|]. cbn [all_length same_length]. rewrite IH. reflexivity. Qed.

Theorem csv_rows_roundtrip sep rows :
  csv_valid_sep sep = true -> Forall csv_row_ok rows -> rectangular rows ->
  csv_read sep (csv_write sep rows) = CsvOk rows.
Proof.
  intros Hv Hall Hrect. unfold csv_read. rewrite (go_records sep rows Hv Hall).
  destruct rows as [|first rest]; [reflexivity|].
  unfold rectangular in Hrect. rewrite all_length_same, Hrect. reflexivity.
Qed.

(* ---------- field level, against the RFC 4180 reading ---------- *)
Lemma quote_body_denotes f : csv_quoted_body (csv_quote_body f) f.
Proof.
  induction f as [|c f IH]; [constructor|]. cbn [csv_quote_body].
  destruct (c =? c_dq) eqn:E.
  - apply N.eqb_eq in E. subst c. apply csv_qb_quote. exact IH.
  - apply csv_qb_char; [|exact IH]. apply N.eqb_neq in E. exact E.
Qed.

Lemma bare_char_same sep c : bare_char sep c = csv_bare_char sep c.
Proof.
  unfold bare_char, csv_bare_char, csv_special, c_nl, c_cr, c_dq.
  destruct (c =? 10), (c =? 13), (c =? 34), (c =? sep); reflexivity.
Qed.

Theorem csv_field_wellformed sep f : csv_field_denotes sep (csv_write_field sep f) f.
Proof.
  unfold csv_write_field. destruct (csv_needs_quotes sep f) eqn:E.
  - apply csv_fd_quoted. apply quote_body_denotes.
  - apply csv_fd_bare. pose proof (no_quotes_bare sep f E) as H.
    rewrite forallb_forall in *. intros c Hc. rewrite <- bare_char_same. exact (H c Hc).
Qed.

(* ---------- yq's object form: header from the first object ---------- *)
Definition obj_doc (header : list str) (rows : list (list str)) : cnode :=
  CSeq (List.map (fun row => CMap (combine header (List.map CScalar row))) rows).

Lemma csv_row_scalars row : csv_row (List.map CScalar row) = Some row.
Proof.
  unfold csv_row. induction row as [|v row IH]; [reflexivity|].
  cbn [List.map scalar_value opt_all]. cbn [List.map] in IH. rewrite IH. reflexivity.
Qed.

Lemma map_fst_combine {A B} (l : list A) (l' : list B) : length l = length l' -> List.map fst (combine l l') = l.
Proof.
  revert l'. induction l as [|x l IH]; intros [|y l'] H; try reflexivity; try discriminate.
  cbn [combine List.map fst]. rewrite IH; [reflexivity|]. cbn [length] in H. lia.
Qed.

Lemma child_row_combine header vals : NoDup header -> length header = length vals ->
  csv_child_row header (combine header vals) = vals.
Proof.
  revert vals. induction header as [|h hs IH]; intros [|v vs] Hnd Hlen; try reflexivity; try discriminate.
  inversion Hnd as [|? ? Hnotin Hnd']; subst.
  unfold csv_child_row. cbn [combine List.map map_find]. rewrite str_eqb_refl. f_equal.
  transitivity (csv_child_row hs (combine hs vs)).
  - unfold csv_child_row. apply map_ext_in. intros h' Hin. cbn [map_find].
    destruct (str_eqb h h') eqn:E; [|reflexivity].
    apply str_eqb_eq in E. subst h'. contradiction.
  - apply IH; [exact Hnd'|]. cbn [length] in Hlen. lia.
Qed.

Lemma objects_rows header rows : NoDup header -> rows <> [] -> header <> [] ->
  Forall (fun r => length r = length header) rows ->
  csv_rows_of (obj_doc header rows) = Some (header :: rows).
Proof.
  intros Hnd Hne Hh Hlen. destruct rows as [|r0 rs]; [congruence|].
  assert (Hmaps : opt_all (List.map as_map (List.map (fun row => CMap (combine header (List.map CScalar row))) (r0 :: rs)))
                  = Some (List.map (fun row => combine header (List.map CScalar row)) (r0 :: rs))).
  { generalize (r0 :: rs). intro l. induction l as [|x l IH]; [reflexivity|].
    cbn [List.map as_map opt_all]. cbn [List.map] in IH. rewrite IH. reflexivity. }
  assert (Hrows : opt_all (List.map (fun m => csv_row (csv_child_row header m))
                    (List.map (fun row => combine header (List.map CScalar row)) (r0 :: rs))) = Some (r0 :: rs)).
  { revert Hlen. generalize (r0 :: rs). intros l Hl. induction Hl as [|x l Hx _ IH]; [reflexivity|].
    cbn [List.map opt_all]. rewrite child_row_combine; [|exact Hnd|rewrite map_length; symmetry; exact Hx].
    rewrite csv_row_scalars. cbn [List.map] in IH. rewrite IH. reflexivity. }
  inversion Hlen as [|? ? H0 _]; subst.
  unfold obj_doc. cbn [List.map] in *.
  destruct header as [|h hs]; [congruence|]. destruct r0 as [|v vs]; [discriminate|].
  cbn [combine List.map] in *. cbn [csv_rows_of].
  cbn [List.map as_map opt_all fst] in *.
  rewrite (map_fst_combine hs (List.map CScalar vs)) by (rewrite map_length; cbn [length] in H0; lia).
  destruct (opt_all (List.map as_map _)) as [maps|] eqn:Em; [|discriminate].
  injection Hmaps as Hmaps. subst maps. cbn [opt_bind].
  cbn [List.map opt_all] in Hrows |- *.
  destruct (csv_row (csv_child_row (h :: hs) ((h, CScalar v) :: combine hs (List.map CScalar vs)))) as [row0|] eqn:E0; [|discriminate].
  destruct (opt_all (List.map (fun m => csv_row (csv_child_row (h :: hs) m)) _)) as [rest|] eqn:Er; [|discriminate].
  injection Hrows as -> ->. reflexivity.
Qed.

Theorem csv_objects_roundtrip sep header rows :
  csv_valid_sep sep = true -> NoDup header -> header <> [] -> rows <> [] ->
  Forall (fun r => length r = length header) rows ->
  Forall csv_row_ok (header :: rows) ->
  skip_bom (csv_write sep (header :: rows)) = csv_write sep (header :: rows) ->
  exists text, csv_encode sep (obj_doc header rows) = Some text /\
               csv_decode sep text = CsvOk (List.map (fun row => combine header row) rows).
Proof.
  intros Hv Hnd Hh Hne Hlen Hok Hbom.
  exists (csv_write sep (header :: rows)). split.
  - unfold csv_encode. unfold obj_doc at 1. fold (obj_doc header rows).
    rewrite (objects_rows header rows Hnd Hne Hh Hlen), Hv. reflexivity.
  - unfold csv_decode. rewrite Hbom.
    rewrite (csv_rows_roundtrip sep (header :: rows) Hv Hok); [reflexivity|].
    unfold rectangular. cbn [same_length]. rewrite Nat.eqb_refl. cbn [andb].
    clear -Hlen. induction Hlen as [|r rs Hr _ IH]; [reflexivity|].
    cbn [same_length]. rewrite Hr, Nat.eqb_refl. exact IH.
Qed.
