(* Proofs/PostfixProofs.v — lemmas about Model/Postfix.v and Model/Tree.v on
   the grammar of Spec/PrecGrammar.v. *)
From Coq Require Import String.
From YQ Require Import Base.Str Gen.OpTable Model.Postfix Model.Tree Spec.PrecGrammar.
Open Scope N_scope.

(* ------------------------------------------------------------------ *)
(* constants taken from the regenerated table                          *)
(* ------------------------------------------------------------------ *)
Lemma collect_nargs : o_nargs collect_op = 1.
Proof. vm_compute. reflexivity. Qed.
Lemma collect_object_nargs : o_nargs collect_object_op = 0.
Proof. vm_compute. reflexivity. Qed.
Lemma short_pipe_nargs : o_nargs short_pipe_op = 2.
Proof. vm_compute. reflexivity. Qed.

Lemma set_opt_nargs o b : o_nargs (set_opt o b) = o_nargs o.
Proof. reflexivity. Qed.

(* ------------------------------------------------------------------ *)
(* (a) createExpressionTree inverts the postfix listing                *)
(* ------------------------------------------------------------------ *)
(* induction on the size (children are options) *)
Fixpoint tree_size (t : tree) : nat :=
  match t with
  | Node _ l r => S ((match l with Some a => tree_size a | None => O end) +
                     (match r with Some b => tree_size b | None => O end))
  end.

Lemma build_postfix_n n : forall t, (tree_size t <= n)%nat ->
  wf_tree t -> forall rest stack, build (postfix_of t ++ rest) stack = build rest (t :: stack).
Proof.
  induction n as [|n IH]; intros [o l r] Hs Hwf rest stack.
  - cbn [tree_size] in Hs. lia.
  - cbn [tree_size] in Hs. cbn [wf_tree] in Hwf. destruct Hwf as (Har & Hl & Hr).
    cbn [postfix_of].
    destruct (o_nargs o =? 1) eqn:E1.
    + destruct Har as [-> Hrn]. destruct r as [b|]; [|congruence].
      cbn [app]. rewrite <- app_assoc. rewrite IH; [|lia|exact Hr].
      cbn [app build]. rewrite E1. reflexivity.
    + destruct (o_nargs o =? 2) eqn:E2.
      * destruct Har as [Hln Hrn]. destruct l as [a|]; [|congruence]. destruct r as [b|]; [|congruence].
        rewrite <- !app_assoc. rewrite IH; [|lia|exact Hl].
        rewrite IH; [|lia|exact Hr].
        cbn [app build]. rewrite E1, E2. reflexivity.
      * destruct Har as [-> ->]. cbn [app build]. rewrite E1, E2. reflexivity.
Qed.

Lemma build_postfix t :
  wf_tree t -> forall rest stack, build (postfix_of t ++ rest) stack = build rest (t :: stack).
Proof. apply (build_postfix_n (tree_size t)). lia. Qed.

Lemma postfix_nonempty t : postfix_of t <> [].
Proof.
  destruct t as [o l r]. cbn [postfix_of]. intro H.
  apply app_eq_nil in H as [_ H]. apply app_eq_nil in H as [_ H]. discriminate.
Qed.

Lemma tree_of_postfix t : wf_tree t -> create_expression_tree (postfix_of t) = Ok (Some t).
Proof.
  intro Hwf. unfold create_expression_tree.
  destruct (postfix_of t) as [|x xs] eqn:E; [exfalso; eapply postfix_nonempty; exact E|].
  rewrite <- E. rewrite <- (app_nil_r (postfix_of t)).
  rewrite build_postfix by exact Hwf. reflexivity.
Qed.

(* the tree builder accepts exactly the postfix lists whose arities add up *)
Lemma build_depth ops : forall stack,
  match build ops stack with
  | Ok st => depth_after ops (length stack) = Some (length st)
  | Err _ => depth_after ops (length stack) = None
  end.
Proof.
  induction ops as [|o ops IH]; intro stack; cbn [build depth_after].
  - reflexivity.
  - destruct (o_nargs o =? 1).
    + destruct stack as [|rhs rem]; cbn [length]; [reflexivity|].
      specialize (IH (Node o None (Some rhs) :: rem)). cbn [length] in IH. exact IH.
    + destruct (o_nargs o =? 2).
      * destruct stack as [|rhs [|lhs rem]]; cbn [length]; try reflexivity.
        specialize (IH (Node o (Some lhs) (Some rhs) :: rem)). cbn [length] in IH. exact IH.
      * specialize (IH (Node o None None :: stack)). cbn [length] in IH. exact IH.
Qed.

Lemma tree_builder_accepts_iff ops :
  (exists t, create_expression_tree ops = Ok (Some t)) <-> (ops <> [] /\ depth_after ops 0 = Some 1%nat).
Proof.
  unfold create_expression_tree. destruct ops as [|o ops].
  - split; [intros [t H]; discriminate | intros [H _]; congruence].
  - pose proof (build_depth (o :: ops) []) as H. cbn [length] in H.
    destruct (build (o :: ops) []) as [st|e].
    + split.
      * intros [t Ht]. split; [discriminate|].
        destruct st as [|t1 [|t2 st]]; try discriminate. exact H.
      * intros [_ Hd]. rewrite Hd in H. destruct st as [|t1 [|t2 st]]; cbn [length] in H; try discriminate.
        exists t1. reflexivity.
    + split; [intros [t Ht]; discriminate | intros [_ Hd]; congruence].
Qed.

(* ------------------------------------------------------------------ *)
(* stack lemmas                                                        *)
(* ------------------------------------------------------------------ *)
Definition stops (p : N) (S : list sitem) : Prop :=
  match S with SOp q :: _ => (p <? o_prec q) = false | _ => True end.

Lemma prec_pop_stop p S R : stops p S -> prec_pop p S R = (S, R).
Proof.
  destruct S as [|[q|b] S]; cbn [prec_pop stops]; intro H; try reflexivity.
  rewrite H. reflexivity.
Qed.

Lemma prec_pop_all p l : forall S R,
  forallb (fun q => p <? o_prec q) l = true -> stops p S ->
  prec_pop p (List.map SOp l ++ S) R = (S, R ++ l).
Proof.
  induction l as [|q l IH]; intros S R Hl Hs.
  - cbn [List.map app]. rewrite app_nil_r. apply prec_pop_stop. exact Hs.
  - cbn [forallb] in Hl. apply andb_true_iff in Hl as [Hq Hl].
    cbn [List.map app prec_pop]. rewrite Hq. rewrite IH by assumption.
    rewrite <- app_assoc. reflexivity.
Qed.

Lemma close_pop_all b l : forall S R,
  close_pop b (List.map SOp l ++ SOpen b :: S) R = Ok (S, R ++ l).
Proof.
  induction l as [|q l IH]; intros S R.
  - cbn [List.map app close_pop]. destruct b; cbn [br_eqb]; rewrite app_nil_r; reflexivity.
  - cbn [List.map app close_pop]. rewrite IH. rewrite <- app_assoc. reflexivity.
Qed.

Lemma emitted_pending e : emitted e ++ pending e = postfix_of (tree_of e).
Proof.
  induction e as [o|f x IHx|o a IHa b IHb|a IHa|a IHa opt|a IHa|ta a IHa i IHi opt];
    cbn [emitted pending tree_of postfix_of].
  - reflexivity.
  - cbn [app]. reflexivity.
  - rewrite <- IHb. rewrite <- !app_assoc. reflexivity.
  - rewrite app_nil_r. reflexivity.
  - rewrite app_nil_r. cbn [app]. reflexivity.
  - rewrite app_nil_r. cbn [app]. rewrite <- ?app_assoc. reflexivity.
  - rewrite app_nil_r. cbn [app]. rewrite <- ?app_assoc. reflexivity.
Qed.

Definition stack_safe (e : pexpr) (S : list sitem) : Prop :=
  match S with SOp q :: _ => lowok (o_prec q) e = true | _ => True end.

Definition top_not_ta (S : list sitem) : Prop :=
  match S with SOp q :: _ => is_ta q = false | _ => True end.

Lemma run_cons t r pe pp S R :
  run (t :: r) pe pp S R =
  if adjacency_error pe pp t then Err EBadExpr
  else match step t S R with
       | Ok (S', R') =>
           if outer_closed t S' r then Err (ENoOpen BParen)
           else run r (ends_operand t) (is_prefix_op t) S' R'
       | Err e => Err e
       end.
Proof. reflexivity. Qed.

Lemma leb_not_ltb p q : (p <=? q) = true -> (q <? p) = false.
Proof. intro H. apply N.leb_le in H. apply N.ltb_ge. exact H. Qed.

(* single steps *)
Lemma run_leaf o r S R :
  (o_nargs o =? 0) = true -> stops (o_prec o) S ->
  run (TOp o :: r) false false S R = run r true false (SOp o :: S) R.
Proof.
  intros Hn Hs. rewrite run_cons. unfold adjacency_error.
  cbn [orb andb starts_operand ends_operand is_prefix_op step outer_closed].
  rewrite andb_false_r. rewrite prec_pop_stop by exact Hs.
  apply N.eqb_eq in Hn. rewrite Hn. reflexivity.
Qed.

Lemma run_prefix f r S R :
  (o_nargs f =? 1) = true -> stops (o_prec f) S ->
  run (TOp f :: r) false false S R = run r false true (SOp f :: S) R.
Proof.
  intros Hn Hs. rewrite run_cons. unfold adjacency_error.
  cbn [orb andb starts_operand ends_operand is_prefix_op step outer_closed].
  rewrite andb_false_r. rewrite prec_pop_stop by exact Hs.
  apply N.eqb_eq in Hn. rewrite Hn. reflexivity.
Qed.

Lemma run_infix o l r pe pp S R :
  (o_nargs o =? 2) = true -> tighter o l = true -> stops (o_prec o) S ->
  run (TOp o :: r) pe pp (List.map SOp l ++ S) R = run r false false (SOp o :: S) (R ++ l).
Proof.
  intros Hn Ht Hs. rewrite run_cons. unfold adjacency_error.
  cbn [starts_operand ends_operand is_prefix_op step outer_closed].
  apply N.eqb_eq in Hn. rewrite Hn. cbn [N.ltb N.compare Pos.compare Pos.compare_cont andb N.eqb].
  rewrite (prec_pop_all (o_prec o) l S R Ht Hs). reflexivity.
Qed.

Lemma run_open b r S R :
  run (TOpen b :: r) false false S R = run r false false (SOpen b :: S) R.
Proof. reflexivity. Qed.

Lemma run_open_after_prefix r S R :
  run (TOpen BParen :: r) false true S R = run r false false (SOpen BParen :: S) R.
Proof. reflexivity. Qed.

Lemma run_close_paren l opt r pe pp s S R :
  run (TClose BParen opt :: r) pe pp (List.map SOp l ++ SOpen BParen :: s :: S) R =
  run r true false (s :: S) (R ++ l).
Proof.
  rewrite run_cons. unfold adjacency_error. cbn [starts_operand andb step].
  rewrite close_pop_all. reflexivity.
Qed.

(* The main invariant: after the tokens of e, the operators of its right
   spine are on the stack, everything else has been emitted. *)
Lemma run_render e : okp e -> forall S R rest,
  S <> [] -> stack_safe e S -> top_not_ta S ->
  run (render e ++ rest) false false S R =
  run rest true false (List.map SOp (pending e) ++ S) (R ++ emitted e).
Proof.
  unfold okp.
  induction e as [o|f x IHx|o a IHa b IHb|a IHa|a IHa opt|a IHa|ta a IHa i IHi opt];
    intros Hok S R rest Hne Hsafe Hta; cbn [okpb] in Hok.
  - (* leaf *)
    cbn [render app pending emitted List.map]. unfold leaf_arity in Hok.
    rewrite run_leaf; [rewrite app_nil_r; reflexivity | exact Hok |].
    destruct S as [|[q|b] S]; cbn [stops]; try exact I.
    cbn [stack_safe lowok] in Hsafe. apply leb_not_ltb. exact Hsafe.
  - (* f ( x ) *)
    apply andb_true_iff in Hok as [Hn Hx].
    cbn [render app pending emitted List.map].
    rewrite run_prefix; [|exact Hn|].
    + rewrite run_open_after_prefix. rewrite <- app_assoc.
      rewrite (IHx Hx); [|discriminate|exact I|exact I].
      cbn [app]. rewrite run_close_paren.
      rewrite <- app_assoc. rewrite emitted_pending. reflexivity.
    + destruct S as [|[q|b] S]; cbn [stops]; try exact I.
      cbn [stack_safe lowok] in Hsafe. apply leb_not_ltb. exact Hsafe.
  - (* a o b *)
    apply andb_true_iff in Hok as [Hok Hlow]. apply andb_true_iff in Hok as [Hok Htight].
    apply andb_true_iff in Hok as [Hok Hb]. apply andb_true_iff in Hok as [Hok Ha].
    apply andb_true_iff in Hok as [Hok Hnta].
    cbn [render]. rewrite <- app_assoc. cbn [app].
    assert (HsafeA : stack_safe a S /\ stops (o_prec o) S).
    { destruct S as [|[q|br] S]; cbn [stack_safe stops]; try (split; exact I).
      cbn [stack_safe lowok] in Hsafe. apply andb_true_iff in Hsafe as [Hs1 Hs3].
      apply andb_true_iff in Hs1 as [Hs1 Hs2]. split; [assumption|].
      apply leb_not_ltb. exact Hs2. }
    destruct HsafeA as (HsA & Hstop).
    rewrite (IHa Ha); [|exact Hne|exact HsA|exact Hta].
    rewrite (run_infix o (pending a) _ true false S (R ++ emitted a) Hok Htight Hstop).
    rewrite <- (app_assoc R (emitted a) (pending a)). rewrite emitted_pending.
    rewrite (IHb Hb).
    + cbn [pending emitted]. rewrite List.map_app. cbn [List.map]. rewrite <- !app_assoc. reflexivity.
    + discriminate.
    + cbn [stack_safe]. exact Hlow.
    + cbn [top_not_ta]. apply negb_true_iff. exact Hnta.
  - (* ( a ) *)
    cbn [render app pending emitted List.map]. rewrite run_open.
    rewrite <- app_assoc. rewrite (IHa Hok); [|discriminate|exact I|exact I].
    cbn [app]. destruct S as [|s S]; [congruence|]. rewrite run_close_paren.
    rewrite <- app_assoc. rewrite emitted_pending. reflexivity.
  - (* [ a ] *)
    cbn [render app pending emitted List.map]. rewrite run_open.
    rewrite <- app_assoc. rewrite (IHa Hok); [|discriminate|exact I|exact I].
    cbn [app]. rewrite run_cons. unfold adjacency_error. cbn [starts_operand andb step].
    rewrite close_pop_all.
    rewrite <- !app_assoc. rewrite (app_assoc (emitted a)). rewrite emitted_pending.
    destruct S as [|[q|br] S]; try reflexivity.
    cbn [top_not_ta] in Hta. rewrite Hta. reflexivity.
  - (* { a } *)
    cbn [render app pending emitted List.map]. rewrite run_open.
    rewrite <- app_assoc. rewrite (IHa Hok); [|discriminate|exact I|exact I].
    cbn [app]. rewrite run_cons. unfold adjacency_error. cbn [starts_operand andb step].
    rewrite close_pop_all.
    rewrite <- !app_assoc. rewrite (app_assoc (emitted a)). rewrite emitted_pending.
    destruct S as [|[q|br] S]; try reflexivity.
    cbn [top_not_ta] in Hta. rewrite Hta. reflexivity.
  - (* a TA [ i ] *)
    apply andb_true_iff in Hok as [Hok Htight]. apply andb_true_iff in Hok as [Hok Hi].
    apply andb_true_iff in Hok as [Hok Ha]. apply andb_true_iff in Hok as [Hok Hista].
    cbn [render]. rewrite <- app_assoc. cbn [app].
    assert (HsafeA : stack_safe a S /\ stops (o_prec ta) S).
    { destruct S as [|[q|br] S]; cbn [stack_safe stops]; try (split; exact I).
      cbn [stack_safe lowok] in Hsafe. apply andb_true_iff in Hsafe as [Hs1 Hs2].
      split; [assumption|]. apply leb_not_ltb. exact Hs2. }
    destruct HsafeA as (HsA & Hstop).
    rewrite (IHa Ha); [|exact Hne|exact HsA|exact Hta].
    rewrite (run_infix ta (pending a) _ true false S (R ++ emitted a) Hok Htight Hstop).
    rewrite <- (app_assoc R (emitted a) (pending a)). rewrite emitted_pending.
    rewrite run_open. rewrite <- (app_assoc (render i)).
    rewrite (IHi Hi); [|discriminate|exact I|exact I].
    cbn [app]. rewrite run_cons. unfold adjacency_error. cbn [starts_operand andb step].
    rewrite close_pop_all.
    rewrite Hista. cbn [pending emitted List.map app outer_closed ends_operand is_prefix_op].
    rewrite <- (app_assoc _ (emitted i) (pending i)). rewrite emitted_pending.
    rewrite <- ?app_assoc. cbn [app]. reflexivity.
Qed.

(* ------------------------------------------------------------------ *)
(* from the invariant to ParseExpression                                *)
(* ------------------------------------------------------------------ *)
Lemma wf_tree_of e : okp e -> wf_tree (tree_of e).
Proof.
  unfold okp.
  induction e as [o|f x IHx|o a IHa b IHb|a IHa|a IHa opt|a IHa|ta a IHa i IHi opt];
    intro Hok; cbn [okpb] in Hok; cbn [tree_of wf_tree].
  - unfold leaf_arity in Hok. apply N.eqb_eq in Hok. rewrite Hok. cbn [N.eqb]. repeat split.
  - apply andb_true_iff in Hok as [Hn Hx]. rewrite Hn.
    repeat split; [discriminate | apply IHx; exact Hx].
  - apply andb_true_iff in Hok as [Hok Hlow]. apply andb_true_iff in Hok as [Hok Htight].
    apply andb_true_iff in Hok as [Hok Hb]. apply andb_true_iff in Hok as [Hok Ha].
    apply andb_true_iff in Hok as [Hok Hnta].
    apply N.eqb_eq in Hok. rewrite Hok. cbn [N.eqb Pos.eqb].
    repeat split; try discriminate; [apply IHa | apply IHb]; assumption.
  - apply IHa. exact Hok.
  - rewrite collect_nargs. cbn [N.eqb Pos.eqb].
    repeat split; [discriminate | apply IHa; exact Hok].
  - rewrite short_pipe_nargs. cbn [N.eqb Pos.eqb wf_tree]. rewrite collect_object_nargs. cbn [N.eqb].
    repeat split; try discriminate. apply IHa. exact Hok.
  - apply andb_true_iff in Hok as [Hok Htight]. apply andb_true_iff in Hok as [Hok Hi].
    apply andb_true_iff in Hok as [Hok Ha]. apply andb_true_iff in Hok as [Hok Hista].
    rewrite set_opt_nargs. apply N.eqb_eq in Hok. rewrite Hok. cbn [N.eqb Pos.eqb wf_tree].
    rewrite collect_nargs. cbn [N.eqb Pos.eqb].
    repeat split; try discriminate; [apply IHa | apply IHi]; assumption.
Qed.

Lemma convert_render e : okp e -> convert_to_postfix (render e) = Ok (postfix_of (tree_of e)).
Proof.
  intro Hok. unfold convert_to_postfix.
  rewrite (run_render e Hok [SOpen BParen] [] [TClose BParen false]); [|discriminate|exact I|exact I].
  rewrite run_cons. unfold adjacency_error. cbn [starts_operand andb step]. rewrite close_pop_all.
  cbn [outer_closed run app]. rewrite emitted_pending. reflexivity.
Qed.

Lemma parse_render e : okp e -> parse (render e) = Ok (Some (tree_of e)).
Proof.
  intro Hok. unfold parse. rewrite (convert_render e Hok).
  apply tree_of_postfix. apply wf_tree_of. exact Hok.
Qed.

(* any two valid bracketings of one tree parse alike *)
Lemma same_tree_same_parse e e' :
  okp e -> okp e' -> tree_of e = tree_of e' -> parse (render e) = parse (render e').
Proof. intros H H' Ht. rewrite !parse_render by assumption. rewrite Ht. reflexivity. Qed.

(* ------------------------------------------------------------------ *)
(* (b) minimally vs fully parenthesised spelling                        *)
(* ------------------------------------------------------------------ *)
Lemma tree_pmin t : tree_of (pmin t) = ttree t.
Proof.
  induction t as [o|f x IHx|o a IHa b IHb|a IHa opt|a IHa|ta a IHa i IHi opt];
    cbn [pmin tree_of ttree]; unfold paren_left, paren_right;
    repeat match goal with |- context [if ?c then _ else _] => destruct c end;
    cbn [tree_of]; congruence.
Qed.

Lemma tree_pfull t : tree_of (pfull t) = ttree t.
Proof.
  induction t as [o|f x IHx|o a IHa b IHb|a IHa opt|a IHa|ta a IHa i IHi opt];
    cbn [pfull tree_of ttree]; congruence.
Qed.

Lemma okp_paren_left o a : okp a -> okp (paren_left o a) /\ tighter o (pending (paren_left o a)) = true.
Proof.
  intro Ha. unfold paren_left. destruct (tighter o (pending a)) eqn:E.
  - split; assumption.
  - split; [exact Ha | reflexivity].
Qed.

Lemma okp_paren_right o b : okp b -> okp (paren_right o b) /\ lowok (o_prec o) (paren_right o b) = true.
Proof.
  intro Hb. unfold paren_right. destruct (lowok (o_prec o) b) eqn:E.
  - split; assumption.
  - split; [exact Hb | reflexivity].
Qed.

Lemma okp_pmin t : wf_termb t = true -> okp (pmin t).
Proof.
  unfold okp.
  induction t as [o|f x IHx|o a IHa b IHb|a IHa opt|a IHa|ta a IHa i IHi opt];
    intro Hwf; cbn [wf_termb] in Hwf; cbn [pmin okpb].
  - exact Hwf.
  - apply andb_true_iff in Hwf as [Hn Hx]. rewrite Hn, (IHx Hx). reflexivity.
  - apply andb_true_iff in Hwf as [Hwf Hb]. apply andb_true_iff in Hwf as [Hwf Ha].
    apply andb_true_iff in Hwf as [Hwf Hnta].
    destruct (okp_paren_left o (pmin a) (IHa Ha)) as [Hl1 Hl2].
    destruct (okp_paren_right o (pmin b) (IHb Hb)) as [Hr1 Hr2].
    unfold okp in Hl1, Hr1. rewrite Hwf, Hnta, Hl1, Hr1, Hl2, Hr2. reflexivity.
  - apply IHa. exact Hwf.
  - apply IHa. exact Hwf.
  - apply andb_true_iff in Hwf as [Hwf Hi]. apply andb_true_iff in Hwf as [Hwf Ha].
    apply andb_true_iff in Hwf as [Hwf Hista].
    destruct (okp_paren_left ta (pmin a) (IHa Ha)) as [Hl1 Hl2].
    unfold okp in Hl1. rewrite Hwf, Hista, Hl1, (IHi Hi), Hl2. reflexivity.
Qed.

Lemma okp_pfull t : wf_termb t = true -> okp (pfull t).
Proof.
  unfold okp.
  induction t as [o|f x IHx|o a IHa b IHb|a IHa opt|a IHa|ta a IHa i IHi opt];
    intro Hwf; cbn [wf_termb] in Hwf; cbn [pfull okpb pending lowok tighter forallb].
  - exact Hwf.
  - apply andb_true_iff in Hwf as [Hn Hx]. rewrite Hn, (IHx Hx). reflexivity.
  - apply andb_true_iff in Hwf as [Hwf Hb]. apply andb_true_iff in Hwf as [Hwf Ha].
    apply andb_true_iff in Hwf as [Hwf Hnta].
    rewrite Hwf, Hnta, (IHa Ha), (IHb Hb). reflexivity.
  - apply IHa. exact Hwf.
  - apply IHa. exact Hwf.
  - apply andb_true_iff in Hwf as [Hwf Hi]. apply andb_true_iff in Hwf as [Hwf Ha].
    apply andb_true_iff in Hwf as [Hwf Hista].
    rewrite Hwf, Hista, (IHa Ha), (IHi Hi). reflexivity.
Qed.

Lemma parse_min_eq_full t :
  wf_termb t = true ->
  parse (render (pmin t)) = Ok (Some (ttree t)) /\
  parse (render (pfull t)) = Ok (Some (ttree t)).
Proof.
  intro Hwf. split.
  - rewrite (parse_render _ (okp_pmin t Hwf)). rewrite tree_pmin. reflexivity.
  - rewrite (parse_render _ (okp_pfull t Hwf)). rewrite tree_pfull. reflexivity.
Qed.

(* ------------------------------------------------------------------ *)
(* (c) redundant parentheses                                            *)
(* ------------------------------------------------------------------ *)
Lemma addp_tree e e' : addp e e' -> tree_of e' = tree_of e.
Proof. induction 1; cbn [tree_of]; congruence. Qed.

Lemma addp_pending e e' : addp e e' ->
  forall P, forallb P (pending e) = true -> forallb P (pending e') = true.
Proof.
  induction 1; intros P HP; cbn [pending forallb] in *; try assumption; try reflexivity.
  rewrite forallb_app in *. apply andb_true_iff in HP as [H1 H2].
  rewrite (IHaddp2 P H1), H2. reflexivity.
Qed.

Lemma addp_lowok e e' : addp e e' -> forall p, lowok p e = true -> lowok p e' = true.
Proof.
  induction 1; intros p Hp; cbn [lowok] in *; try assumption; try reflexivity.
  - apply andb_true_iff in Hp as [Hp H3]. apply andb_true_iff in Hp as [H1 H2].
    rewrite (IHaddp1 p H1), H2, (IHaddp2 p H3). reflexivity.
  - apply andb_true_iff in Hp as [H1 H2]. rewrite (IHaddp1 p H1), H2. reflexivity.
Qed.

Lemma addp_okp e e' : addp e e' -> okp e -> okp e'.
Proof.
  unfold okp. induction 1; intro Hok; cbn [okpb] in *; try (apply IHaddp; assumption); try assumption.
  - apply andb_true_iff in Hok as [Hn Hx]. rewrite Hn, (IHaddp Hx). reflexivity.
  - apply andb_true_iff in Hok as [Hok Hlow]. apply andb_true_iff in Hok as [Hok Htight].
    apply andb_true_iff in Hok as [Hok Hb]. apply andb_true_iff in Hok as [Hok Ha].
    apply andb_true_iff in Hok as [Hok Hnta].
    rewrite Hok, Hnta, (IHaddp1 Ha), (IHaddp2 Hb).
    unfold tighter in *. rewrite (addp_pending _ _ H _ Htight). rewrite (addp_lowok _ _ H0 _ Hlow). reflexivity.
  - apply andb_true_iff in Hok as [Hok Htight]. apply andb_true_iff in Hok as [Hok Hi].
    apply andb_true_iff in Hok as [Hok Ha]. apply andb_true_iff in Hok as [Hok Hista].
    rewrite Hok, Hista, (IHaddp1 Ha), (IHaddp2 Hi).
    unfold tighter in *. rewrite (addp_pending _ _ H _ Htight). reflexivity.
Qed.

Lemma redundant_parens e e' : okp e -> addp e e' -> parse (render e') = parse (render e).
Proof.
  intros Hok Hadd. apply same_tree_same_parse.
  - eapply addp_okp; eassumption.
  - exact Hok.
  - apply addp_tree. exact Hadd.
Qed.

(* ------------------------------------------------------------------ *)
(* (d) bracket matching                                                 *)
(* ------------------------------------------------------------------ *)
Fixpoint brackets_of (S : list sitem) : list br :=
  match S with
  | [] => []
  | SOp _ :: S' => brackets_of S'
  | SOpen b :: S' => b :: brackets_of S'
  end.

Lemma br_eqb_eq a b : br_eqb a b = true <-> a = b.
Proof. destruct a, b; cbn [br_eqb]; split; intro H; try reflexivity; try discriminate. Qed.

Lemma close_pop_brackets b : forall S R S' R',
  close_pop b S R = Ok (S', R') -> brackets_of S = b :: brackets_of S'.
Proof.
  induction S as [|[q|b'] S IH]; intros R S' R' H; cbn [close_pop] in H.
  - discriminate.
  - cbn [brackets_of]. eapply IH. exact H.
  - destruct (br_eqb b' b) eqn:E; [|discriminate].
    apply br_eqb_eq in E. subst b'. injection H as <- _. reflexivity.
Qed.

Lemma prec_pop_brackets p : forall S R, brackets_of (fst (prec_pop p S R)) = brackets_of S.
Proof.
  induction S as [|[q|b] S IH]; intro R; cbn [prec_pop]; try reflexivity.
  destruct (p <? o_prec q); [|reflexivity]. cbn [brackets_of]. apply IH.
Qed.

(* the sentinel `(` stays at the bottom of the stack *)
Lemma close_pop_bottom b : forall S0 R S1 R1,
  close_pop b (S0 ++ [SOpen BParen]) R = Ok (S1, R1) ->
  (brackets_of S0 = [] /\ b = BParen /\ S1 = []) \/
  (exists S0', S1 = S0' ++ [SOpen BParen] /\ brackets_of S0 = b :: brackets_of S0').
Proof.
  induction S0 as [|[q|b'] S0 IH]; intros R S1 R1 H; cbn [app close_pop] in H.
  - destruct (br_eqb BParen b) eqn:E; [|discriminate].
    apply br_eqb_eq in E. injection H as <- _. left. repeat split. symmetry. exact E.
  - cbn [brackets_of]. eapply IH. exact H.
  - destruct (br_eqb b' b) eqn:E; [|discriminate].
    apply br_eqb_eq in E. subst b'. injection H as <- _.
    right. exists S0. split; reflexivity.
Qed.

Lemma step_close_bottom b opt S0 R S' R' :
  step (TClose b opt) (S0 ++ [SOpen BParen]) R = Ok (S', R') ->
  (brackets_of S0 = [] /\ b = BParen /\ S' = []) \/
  (exists S0', S' = S0' ++ [SOpen BParen] /\ brackets_of S0 = b :: brackets_of S0').
Proof.
  intro H.
  assert (Hgen : forall S1 R1, close_pop b (S0 ++ [SOpen BParen]) R = Ok (S1, R1) -> b <> BParen ->
            (S' = S1 \/ exists q, S1 = SOp q :: S') ->
            exists S0', S' = S0' ++ [SOpen BParen] /\ brackets_of S0 = b :: brackets_of S0').
  { intros S1 R1 Hc Hb Hs. apply close_pop_bottom in Hc as [(_ & Hb' & _)|(S0' & -> & Hbr)]; [contradiction|].
    destruct Hs as [->|[q Hq]].
    - exists S0'. split; [reflexivity | exact Hbr].
    - destruct S0' as [|x S0'']; cbn [app] in Hq; [discriminate|].
      injection Hq as -> <-. exists S0''. split; [reflexivity | exact Hbr]. }
  destruct b; cbn [step] in H.
  - apply close_pop_bottom in H. exact H.
  - right. destruct (close_pop BCollect (S0 ++ [SOpen BParen]) R) as [[S1 R1]|e] eqn:Hc; [|discriminate].
    destruct S1 as [|[q|b1] S2].
    + injection H as <- _. eapply Hgen; [reflexivity | discriminate | left; reflexivity].
    + destruct (is_ta q); injection H as <- _; (eapply Hgen; [reflexivity | discriminate |]);
        [right; exists q; reflexivity | left; reflexivity].
    + injection H as <- _. eapply Hgen; [reflexivity | discriminate | left; reflexivity].
  - right. destruct (close_pop BObject (S0 ++ [SOpen BParen]) R) as [[S1 R1]|e] eqn:Hc; [|discriminate].
    destruct S1 as [|[q|b1] S2].
    + injection H as <- _. eapply Hgen; [reflexivity | discriminate | left; reflexivity].
    + destruct (is_ta q); injection H as <- _; (eapply Hgen; [reflexivity | discriminate |]);
        [right; exists q; reflexivity | left; reflexivity].
    + injection H as <- _. eapply Hgen; [reflexivity | discriminate | left; reflexivity].
Qed.

Lemma prec_pop_bottom p : forall S0 R, exists S0' R',
  prec_pop p (S0 ++ [SOpen BParen]) R = (S0' ++ [SOpen BParen], R') /\ brackets_of S0' = brackets_of S0.
Proof.
  induction S0 as [|[q|b] S0 IH]; intro R; cbn [app prec_pop].
  - exists [], R. split; reflexivity.
  - destruct (p <? o_prec q).
    + destruct (IH (R ++ [q])) as (S0' & R' & H1 & H2). exists S0', R'. split; [exact H1 | exact H2].
    + exists (SOp q :: S0), R. split; reflexivity.
  - exists (SOpen b :: S0), R. split; reflexivity.
Qed.

Lemma run_brackets ts : forall S0 R pe pp r,
  run (ts ++ [TClose BParen false]) pe pp (S0 ++ [SOpen BParen]) R = Ok ([], r) ->
  bmatch (brackets_of S0) ts = true.
Proof.
  induction ts as [|t ts IH]; intros S0 R pe pp r Hrun.
  - cbn [app] in Hrun. rewrite run_cons in Hrun.
    destruct (adjacency_error pe pp (TClose BParen false)); [discriminate|].
    destruct (step (TClose BParen false) (S0 ++ [SOpen BParen]) R) as [[S' R']|e] eqn:Hs; [|discriminate].
    cbn [outer_closed] in Hrun.
    apply step_close_bottom in Hs as [(Hb & _ & ->)|(S0' & -> & Hb)].
    + rewrite Hb. reflexivity.
    + destruct S0'; cbn [app run] in Hrun; discriminate.
  - cbn [app] in Hrun. rewrite run_cons in Hrun.
    destruct (adjacency_error pe pp t); [discriminate|].
    destruct (step t (S0 ++ [SOpen BParen]) R) as [[S' R']|e] eqn:Hs; [|discriminate].
    destruct t as [o|b|b opt].
    + cbn [step] in Hs.
      destruct (prec_pop_bottom (o_prec o) S0 R) as (S0' & R1 & Hp & Hb).
      rewrite Hp in Hs. injection Hs as <- <-. cbn [outer_closed] in Hrun.
      change (SOp o :: S0' ++ [SOpen BParen]) with ((SOp o :: S0') ++ [SOpen BParen]) in Hrun.
      apply IH in Hrun. cbn [brackets_of] in Hrun. rewrite Hb in Hrun. exact Hrun.
    + cbn [step] in Hs. injection Hs as <- <-. cbn [outer_closed] in Hrun.
      change (SOpen b :: S0 ++ [SOpen BParen]) with ((SOpen b :: S0) ++ [SOpen BParen]) in Hrun.
      apply IH in Hrun. exact Hrun.
    + apply step_close_bottom in Hs as [(Hb & -> & ->)|(S0' & -> & Hb)].
      * exfalso. cbn [outer_closed] in Hrun. destruct (ts ++ [TClose BParen false]) eqn:E.
        -- apply app_eq_nil in E as [_ E]. discriminate.
        -- discriminate.
      * assert (Hoc : outer_closed (TClose b opt) (S0' ++ [SOpen BParen]) (ts ++ [TClose BParen false]) = false).
        { destruct b; try reflexivity. destruct S0'; reflexivity. }
        rewrite Hoc in Hrun. apply IH in Hrun.
        rewrite Hb. cbn [bmatch]. rewrite Hrun. rewrite (proj2 (br_eqb_eq b b) eq_refl). reflexivity.
Qed.

Lemma convert_ok_balanced ts r : convert_to_postfix ts = Ok r -> balanced ts.
Proof.
  unfold convert_to_postfix, balanced. intro H.
  destruct (run (ts ++ [TClose BParen false]) false false [SOpen BParen] []) as [[S R]|e] eqn:Hr; [|discriminate].
  destruct S as [|x S]; [|discriminate].
  exact (run_brackets ts [] [] false false R Hr).
Qed.

Lemma unbalanced_rejected ts : ~ balanced ts -> exists e, parse ts = Err e.
Proof.
  intro Hnb. unfold parse.
  destruct (convert_to_postfix ts) as [r|e] eqn:Hc.
  - exfalso. apply Hnb. eapply convert_ok_balanced. exact Hc.
  - exists e. reflexivity.
Qed.

(* ------------------------------------------------------------------ *)
(* (d) operand juxtaposition                                            *)
(* ------------------------------------------------------------------ *)
Lemma run_adjacent ts : forall pe pp S R x, run ts pe pp S R = Ok x -> adjacent_ok pe pp ts = true.
Proof.
  induction ts as [|t ts IH]; intros pe pp S R x H; [reflexivity|].
  rewrite run_cons in H. cbn [adjacent_ok].
  destruct (adjacency_error pe pp t); [discriminate|].
  destruct (step t S R) as [[S' R']|e]; [|discriminate].
  destruct (outer_closed t S' ts); [discriminate|].
  cbn [negb andb]. eapply IH. exact H.
Qed.

Lemma adjacent_ok_app l1 : forall l2 pe pp, adjacent_ok pe pp (l1 ++ l2) = true -> adjacent_ok pe pp l1 = true.
Proof.
  induction l1 as [|t l1 IH]; intros l2 pe pp H; [reflexivity|].
  cbn [app adjacent_ok] in *. apply andb_true_iff in H as [H1 H2].
  rewrite H1. cbn [andb]. eapply IH. exact H2.
Qed.

Lemma juxtaposition_rejected ts : ~ no_juxtaposition ts -> exists e, parse ts = Err e.
Proof.
  unfold no_juxtaposition, parse, convert_to_postfix. intro Hn.
  destruct (run (ts ++ [TClose BParen false]) false false [SOpen BParen] []) as [[S R]|e] eqn:Hr.
  - exfalso. apply Hn. apply run_adjacent in Hr. eapply adjacent_ok_app. exact Hr.
  - exists e. reflexivity.
Qed.

(* ------------------------------------------------------------------ *)
(* witnesses (operators taken from the regenerated table)               *)
(* ------------------------------------------------------------------ *)
Local Open Scope string_scope.
Definition w_one : op := table_op "valueOpType" (str_of_string "1").
Definition w_two : op := table_op "valueOpType" (str_of_string "2").
Definition w_three : op := table_op "valueOpType" (str_of_string "3").
Definition w_self : op := table_op "selfReferenceOpType" [].
Definition w_a : op := table_op "traversePathOpType" (str_of_string "a").
Definition w_add : op := table_op "addOpType" [].
Definition w_sub : op := table_op "subtractOpType" [].
Definition w_mul : op := table_op "multiplyOpType" [].
Definition w_pipe : op := table_op "pipeOpType" [].
Definition w_eq : op := table_op "equalsOpType" [].
Definition w_min : op := table_op "minOpType" [].
Definition w_len : op := table_op "lengthOpType" [].
Definition w_select : op := table_op "selectOpType" [].
Definition w_ta : op := table_op "traverseArrayOpType" [].

(* `1 ) ( | 2` and `)(` : rejected (were accepted before fix 673c42d) *)
Definition w_close_open : list tok :=
  [TOp w_one; TClose BParen false; TOpen BParen; TOp w_pipe; TOp w_two].

Lemma close_open_rejected :
  parse w_close_open = Err (ENoOpen BParen) /\
  parse [TClose BParen false; TOpen BParen] = Err (ENoOpen BParen).
Proof. split; vm_compute; reflexivity. Qed.

(* `1 2 +`, `+ 1 2`, `1 + select 2` : rejected (were accepted before fix 665c233) *)
Lemma postfix_order_rejected :
  parse [TOp w_one; TOp w_two; TOp w_add] = Err EBadExpr /\
  parse [TOp w_add; TOp w_one; TOp w_two] = Err EBadExpr /\
  parse [TOp w_one; TOp w_add; TOp w_select; TOp w_two] = Err EBadExpr.
Proof. repeat split; vm_compute; reflexivity. Qed.

(* `. | min == 1` : min is an operand like any other (Precedence 50 since fix ddd7f9c) *)
Definition w_minmax_term : term :=
  TBin w_pipe (TLeaf w_self) (TBin w_eq (TLeaf w_min) (TLeaf w_one)).
Definition w_minmax_flat : list tok :=
  [TOp w_self; TOp w_pipe; TOp w_min; TOp w_eq; TOp w_one].

Lemma minmax_parsed :
  wf_termb w_minmax_term = true /\
  render (pmin w_minmax_term) = w_minmax_flat /\
  parse w_minmax_flat = Ok (Some (ttree w_minmax_term)).
Proof. repeat split; vm_compute; reflexivity. Qed.

(* `1 - 2 - 3` and `2 * 3 + 1`: equal precedence nests to the right *)
Lemma equal_precedence_nests_right :
  parse [TOp w_one; TOp w_sub; TOp w_two; TOp w_sub; TOp w_three] =
    Ok (Some (Node w_sub (Some (Node w_one None None))
                (Some (Node w_sub (Some (Node w_two None None)) (Some (Node w_three None None)))))) /\
  parse [TOp w_two; TOp w_mul; TOp w_three; TOp w_add; TOp w_one] =
    Ok (Some (Node w_mul (Some (Node w_two None None))
                (Some (Node w_add (Some (Node w_three None None)) (Some (Node w_one None None)))))).
Proof. split; vm_compute; reflexivity. Qed.

(* a term on which the two spellings differ and the hypotheses hold:
   (1 | 2) + select(.a == 1)[length]  *)
Definition w_example : term :=
  TBin w_add (TBin w_pipe (TLeaf w_one) (TLeaf w_two))
             (TIndex w_ta (TUn w_select (TBin w_eq (TLeaf w_a) (TLeaf w_one))) (TLeaf w_len) true).

Lemma example_ok :
  wf_termb w_example = true /\ okp (pmin w_example) /\ okp (pfull w_example) /\
  render (pmin w_example) <> render (pfull w_example) /\
  List.length (render (pmin w_example)) = 16%nat.
Proof.
  split; [vm_compute; reflexivity|]. split; [vm_compute; reflexivity|].
  split; [vm_compute; reflexivity|]. split; [vm_compute; discriminate | vm_compute; reflexivity].
Qed.
