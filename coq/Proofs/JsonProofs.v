(* Proofs/JsonProofs.v — lemmas for C06 over Model/Json.v and Spec/JsonGrammar.v. *)
From Coq Require Import List NArith ZArith Bool Lia.
From YQ Require Import Base.Str Model.Json Spec.JsonGrammar.
Import ListNotations.
Open Scope N_scope.

(* ------------------------------------------------------------------ *)
(* small tools                                                         *)
(* ------------------------------------------------------------------ *)

Ltac btest H :=
  repeat match type of H with
         | (_ && _) = true => let H1 := fresh H in apply andb_true_iff in H as [H H1]; btest H1
         end.

Lemma in_rng_spec lo hi c : in_rng lo hi c = true <-> lo <= c <= hi.
Proof. unfold in_rng. rewrite andb_true_iff, !N.leb_le. tauto. Qed.

Lemma in_rng_false lo hi c : in_rng lo hi c = false <-> (c < lo \/ hi < c).
Proof.
  unfold in_rng. rewrite andb_false_iff, !N.leb_gt. tauto.
Qed.

Lemma str_ind_len (P : str -> Prop) :
  P [] ->
  (forall c r, (forall r', (length r' <= length r)%nat -> P r') -> P (c :: r)) ->
  forall s, P s.
Proof.
  intros H0 Hs s.
  assert (H : forall n s, (length s <= n)%nat -> P s).
  { induction n as [|n IH]; intros [|c r] Hl; cbn in Hl; try exact H0; try lia.
    apply Hs. intros r' Hr'. apply IH. lia. }
  apply (H (length s)). lia.
Qed.

(* ------------------------------------------------------------------ *)
(* decimal text                                                        *)
(* ------------------------------------------------------------------ *)

Lemma pow2_spec k : pow2 k = 2 ^ k.
Proof. unfold pow2. rewrite N.shiftl_mul_pow2. lia. Qed.

Lemma dec_fuel_ok n : n < 2 ^ N.of_nat (S (N.to_nat (N.log2 n))).
Proof.
  rewrite Nat2N.inj_succ, N2Nat.id.
  destruct (N.eq_dec n 0) as [->|Hn]; [cbn; lia|].
  apply N.log2_spec. lia.
Qed.

Lemma dec_aux_app fuel : forall n acc, dec_aux fuel n acc = dec_aux fuel n [] ++ acc.
Proof.
  induction fuel as [|f IH]; intros n acc; cbn [dec_aux]; [reflexivity|].
  destruct (n <? 10); [reflexivity|].
  rewrite (IH (n / 10) (_ :: acc)), (IH (n / 10) [_]), <- app_assoc. reflexivity.
Qed.

Lemma div10_lt n f : n < 2 ^ N.of_nat (S f) -> n / 10 < 2 ^ N.of_nat f.
Proof.
  intro H. rewrite Nat2N.inj_succ, N.pow_succ_r' in H.
  apply N.div_lt_upper_bound; lia.
Qed.

Lemma dec_aux_val fuel : forall n acc, n < 2 ^ N.of_nat fuel ->
  digits_val 0 (dec_aux fuel n acc) = digits_val n acc.
Proof.
  induction fuel as [|f IH]; intros n acc Hn; cbn [dec_aux].
  - change (N.of_nat 0) with 0 in Hn. rewrite N.pow_0_r in Hn. assert (n = 0) as -> by lia. reflexivity.
  - destruct (n <? 10) eqn:Hlt.
    + cbn [digits_val]. f_equal. lia.
    + apply N.ltb_ge in Hlt. rewrite (IH (n / 10) _ (div10_lt _ _ Hn)).
      cbn [digits_val]. f_equal.
      pose proof (N.div_mod n 10 ltac:(lia)) as Hdm.
      set (q := n / 10) in *. set (r := n mod 10) in *. clearbody q r. lia.
Qed.

Lemma dec_N_val n : digits_val 0 (dec_N n) = n.
Proof. unfold dec_N. rewrite dec_aux_val by apply dec_fuel_ok. reflexivity. Qed.

Lemma dec_aux_digits fuel : forall n acc, all_digits acc = true -> all_digits (dec_aux fuel n acc) = true.
Proof.
  induction fuel as [|f IH]; intros n acc Ha; cbn [dec_aux]; [exact Ha|].
  destruct (n <? 10) eqn:Hlt.
  - cbn [all_digits]. rewrite Ha, andb_true_r. apply N.ltb_lt in Hlt.
    apply in_rng_spec. lia.
  - apply IH. cbn [all_digits]. rewrite Ha, andb_true_r.
    pose proof (N.mod_lt n 10 ltac:(lia)) as Hm. apply in_rng_spec.
    set (r := n mod 10) in *. clearbody r. lia.
Qed.

Lemma dec_N_digits n : all_digits (dec_N n) = true.
Proof. apply dec_aux_digits. reflexivity. Qed.

Lemma dec_aux_head fuel : forall n acc, 0 < n -> n < 2 ^ N.of_nat fuel ->
  exists d t, dec_aux fuel n acc = d :: t /\ 49 <= d <= 57.
Proof.
  induction fuel as [|f IH]; intros n acc Hpos Hn; cbn [dec_aux].
  - change (N.of_nat 0) with 0 in Hn. rewrite N.pow_0_r in Hn. lia.
  - destruct (n <? 10) eqn:Hlt.
    + apply N.ltb_lt in Hlt. exists (48 + n), acc. split; [reflexivity|lia].
    + apply N.ltb_ge in Hlt. apply IH; [|apply div10_lt; exact Hn].
      apply N.div_str_pos. lia.
Qed.

Lemma dec_N_zero : dec_N 0 = [48].
Proof. reflexivity. Qed.

Lemma dec_N_head n : 0 < n -> exists d t, dec_N n = d :: t /\ 49 <= d <= 57 /\ all_digits t = true.
Proof.
  intro Hpos. destruct (dec_aux_head _ n [] Hpos (dec_fuel_ok n)) as (d & t & He & Hd).
  exists d, t. split; [exact He|]. split; [exact Hd|].
  pose proof (dec_N_digits n) as Ha. unfold dec_N in Ha. rewrite He in Ha.
  cbn [all_digits] in Ha. apply andb_true_iff in Ha. tauto.
Qed.

Lemma dec_N_nonempty n : exists d t, dec_N n = d :: t /\ 48 <= d <= 57 /\ all_digits t = true.
Proof.
  destruct (N.eq_dec n 0) as [->|Hn].
  - exists 48, []. repeat split; cbn; lia.
  - destruct (dec_N_head n ltac:(lia)) as (d & t & He & Hd & Ht).
    exists d, t. repeat split; try assumption; lia.
Qed.

Lemma all_digits_digits t : t <> [] -> all_digits t = true -> digits t.
Proof.
  induction t as [|c t IH]; intros Hne Ha; [congruence|].
  cbn [all_digits] in Ha. apply andb_true_iff in Ha as [Hc Ht].
  apply in_rng_spec in Hc.
  destruct t as [|c' t'].
  - apply ds_one. exact Hc.
  - apply ds_cons; [exact Hc|]. apply IH; [discriminate|exact Ht].
Qed.

Lemma dec_N_jint n : jint (dec_N n).
Proof.
  destruct (N.eq_dec n 0) as [->|Hn]; [apply ji_zero|].
  destruct (dec_N_head n ltac:(lia)) as (d & t & He & Hd & Ht). rewrite He.
  destruct t as [|c t']; [apply ji_one; exact Hd|].
  apply ji_more; [exact Hd|]. apply all_digits_digits; [discriminate|exact Ht].
Qed.

Lemma dec_Z_jnumber z : jnumber (dec_Z z).
Proof.
  unfold dec_Z. destruct (z <? 0)%Z.
  - replace (dec_N (Z.abs_N z)) with (dec_N (Z.abs_N z) ++ [] ++ []) by (rewrite !app_nil_r; reflexivity).
    apply jn_neg; [apply dec_N_jint|apply jf_none|apply jx_none].
  - replace (dec_N (Z.abs_N z)) with (dec_N (Z.abs_N z) ++ [] ++ []) by (rewrite !app_nil_r; reflexivity).
    apply jn_pos; [apply dec_N_jint|apply jf_none|apply jx_none].
Qed.

(* ------------------------------------------------------------------ *)
(* UTF-8 step function                                                 *)
(* ------------------------------------------------------------------ *)

Lemma cont_spec c : cont c = true <-> 128 <= c <= 191.
Proof. apply in_rng_spec. Qed.

Lemma ulen_1 c r : ulen c r = 1%nat -> c < 128.
Proof.
  unfold ulen. destruct (c <? 128) eqn:H1; [intros _; apply N.ltb_lt; exact H1|].
  repeat match goal with
         | |- context [if ?b then _ else _] => destruct b
         | |- context [match ?l with [] => _ | _ :: _ => _ end] => destruct l
         end; discriminate.
Qed.

Lemma ulen_2 c r : ulen c r = 2%nat ->
  exists c1 r1, r = c1 :: r1 /\ 194 <= c <= 223 /\ 128 <= c1 <= 191.
Proof.
  unfold ulen. destruct (c <? 128); [discriminate|].
  destruct (in_rng 194 223 c) eqn:H2.
  - destruct r as [|c1 r1]; [discriminate|]. destruct (cont c1) eqn:Hc; [|discriminate].
    intros _. exists c1, r1. apply in_rng_spec in H2. apply cont_spec in Hc. auto.
  - repeat match goal with
           | |- context [if ?b then _ else _] => destruct b
           | |- context [match ?l with [] => _ | _ :: _ => _ end] => destruct l
           end; discriminate.
Qed.

Lemma ulen_3 c r : ulen c r = 3%nat ->
  exists c1 c2 r2, r = c1 :: c2 :: r2 /\ 224 <= c <= 239 /\ 128 <= c1 <= 191 /\ 128 <= c2 <= 191
                   /\ (c = 224 -> 160 <= c1) /\ (c = 237 -> c1 <= 159).
Proof.
  unfold ulen. destruct (c <? 128); [discriminate|].
  destruct (in_rng 194 223 c) eqn:H2.
  { destruct r as [|c1 r1]; [discriminate|]. destruct (cont c1); discriminate. }
  destruct (in_rng 224 239 c) eqn:H3.
  - destruct r as [|c1 [|c2 r2]]; try discriminate.
    match goal with |- (if ?b then _ else _) = _ -> _ => destruct b eqn:Hb end; [|discriminate].
    intros _. apply andb_true_iff in Hb as [Hb1 Hb2]. apply in_rng_spec in H3. apply cont_spec in Hb2.
    exists c1, c2, r2. split; [reflexivity|]. split; [exact H3|].
    destruct (c =? 224) eqn:E1.
    + apply N.eqb_eq in E1. apply in_rng_spec in Hb1. repeat split; try lia.
    + apply N.eqb_neq in E1. destruct (c =? 237) eqn:E2.
      * apply N.eqb_eq in E2. apply in_rng_spec in Hb1. repeat split; try lia.
      * apply N.eqb_neq in E2. apply cont_spec in Hb1. repeat split; try lia.
  - repeat match goal with
           | |- context [if ?b then _ else _] => destruct b
           | |- context [match ?l with [] => _ | _ :: _ => _ end] => destruct l
           end; discriminate.
Qed.

Lemma ulen_4 c r : ulen c r = 4%nat ->
  exists c1 c2 c3 r3, r = c1 :: c2 :: c3 :: r3 /\ 240 <= c <= 244 /\ 128 <= c1 <= 191
                      /\ 128 <= c2 <= 191 /\ 128 <= c3 <= 191
                      /\ (c = 240 -> 144 <= c1) /\ (c = 244 -> c1 <= 143).
Proof.
  unfold ulen. destruct (c <? 128); [discriminate|].
  destruct (in_rng 194 223 c) eqn:H2.
  { destruct r as [|c1 r1]; [discriminate|]. destruct (cont c1); discriminate. }
  destruct (in_rng 224 239 c) eqn:H3.
  { destruct r as [|c1 [|c2 r2]]; try discriminate.
    match goal with |- (if ?b then _ else _) = _ -> _ => destruct b end; discriminate. }
  destruct (in_rng 240 244 c) eqn:H4; [|discriminate].
  destruct r as [|c1 [|c2 [|c3 r3]]]; try discriminate.
  match goal with |- (if ?b then _ else _) = _ -> _ => destruct b eqn:Hb end; [|discriminate].
  intros _. apply andb_true_iff in Hb as [Hb Hb3]. apply andb_true_iff in Hb as [Hb1 Hb2].
  apply in_rng_spec in H4. apply cont_spec in Hb2, Hb3.
  exists c1, c2, c3, r3. split; [reflexivity|]. split; [exact H4|].
  destruct (c =? 240) eqn:E1.
  + apply N.eqb_eq in E1. apply in_rng_spec in Hb1. repeat split; try lia.
  + apply N.eqb_neq in E1. destruct (c =? 244) eqn:E2.
    * apply N.eqb_eq in E2. apply in_rng_spec in Hb1. repeat split; try lia.
    * apply N.eqb_neq in E2. apply cont_spec in Hb1. repeat split; try lia.
Qed.

Lemma ulen_cases c r :
  ulen c r = 0%nat \/ ulen c r = 1%nat \/ ulen c r = 2%nat \/ ulen c r = 3%nat \/ ulen c r = 4%nat.
Proof.
  unfold ulen.
  repeat match goal with
         | |- context [if ?b then _ else _] => destruct b
         | |- context [match ?l with [] => _ | _ :: _ => _ end] => destruct l
         end; auto.
Qed.

(* unfolding equations of the three string functions, by the value of ulen *)
Lemma enc_body_0 c r : ulen c r = 0%nat -> enc_body (c :: r) = esc_fffd ++ enc_body r.
Proof. intro H. cbn [enc_body]. rewrite H. reflexivity. Qed.
Lemma enc_body_1 c r : ulen c r = 1%nat -> enc_body (c :: r) = esc1 c ++ enc_body r.
Proof. intro H. cbn [enc_body]. rewrite H. reflexivity. Qed.
Lemma enc_body_2 c c1 r1 : ulen c (c1 :: r1) = 2%nat -> enc_body (c :: c1 :: r1) = c :: c1 :: enc_body r1.
Proof. intro H. cbn [enc_body]. rewrite H. reflexivity. Qed.
Lemma enc_body_3 c c1 c2 r2 : ulen c (c1 :: c2 :: r2) = 3%nat ->
  enc_body (c :: c1 :: c2 :: r2) = esc3 c c1 c2 ++ enc_body r2.
Proof. intro H. cbn [enc_body]. rewrite H. reflexivity. Qed.
Lemma enc_body_4 c c1 c2 c3 r3 : ulen c (c1 :: c2 :: c3 :: r3) = 4%nat ->
  enc_body (c :: c1 :: c2 :: c3 :: r3) = c :: c1 :: c2 :: c3 :: enc_body r3.
Proof. intro H. cbn [enc_body]. rewrite H. reflexivity. Qed.

Lemma sanitize_0 c r : ulen c r = 0%nat -> sanitize (c :: r) = utf8_fffd ++ sanitize r.
Proof. intro H. cbn [sanitize]. rewrite H. reflexivity. Qed.
Lemma sanitize_1 c r : ulen c r = 1%nat -> sanitize (c :: r) = c :: sanitize r.
Proof. intro H. cbn [sanitize]. rewrite H. reflexivity. Qed.
Lemma sanitize_2 c c1 r1 : ulen c (c1 :: r1) = 2%nat -> sanitize (c :: c1 :: r1) = c :: c1 :: sanitize r1.
Proof. intro H. cbn [sanitize]. rewrite H. reflexivity. Qed.
Lemma sanitize_3 c c1 c2 r2 : ulen c (c1 :: c2 :: r2) = 3%nat ->
  sanitize (c :: c1 :: c2 :: r2) = c :: c1 :: c2 :: sanitize r2.
Proof. intro H. cbn [sanitize]. rewrite H. reflexivity. Qed.
Lemma sanitize_4 c c1 c2 c3 r3 : ulen c (c1 :: c2 :: c3 :: r3) = 4%nat ->
  sanitize (c :: c1 :: c2 :: c3 :: r3) = c :: c1 :: c2 :: c3 :: sanitize r3.
Proof. intro H. cbn [sanitize]. rewrite H. reflexivity. Qed.

Lemma valid_sanitize : forall s, valid_utf8 s = true -> sanitize s = s.
Proof.
  apply (str_ind_len (fun s => valid_utf8 s = true -> sanitize s = s)); [reflexivity|].
  intros c r IH Hv. cbn [valid_utf8] in Hv.
  destruct (ulen_cases c r) as [H|[H|[H|[H|H]]]]; rewrite H in Hv.
  - discriminate.
  - rewrite (sanitize_1 _ _ H), (IH r); [reflexivity|lia|exact Hv].
  - destruct (ulen_2 _ _ H) as (c1 & r1 & -> & _).
    rewrite (sanitize_2 _ _ _ H), (IH r1); [reflexivity|cbn; lia|exact Hv].
  - destruct (ulen_3 _ _ H) as (c1 & c2 & r2 & -> & _).
    rewrite (sanitize_3 _ _ _ _ H), (IH r2); [reflexivity|cbn; lia|exact Hv].
  - destruct (ulen_4 _ _ H) as (c1 & c2 & c3 & r3 & -> & _).
    rewrite (sanitize_4 _ _ _ _ _ H), (IH r3); [reflexivity|cbn; lia|exact Hv].
Qed.

(* ------------------------------------------------------------------ *)
(* reading back an encoded string                                      *)
(* ------------------------------------------------------------------ *)

Lemma dec_body_plain c r : c <> 34 -> c <> 92 -> 32 <= c ->
  dec_body (c :: r) = match dec_body r with Some (t, rest) => Some (c :: t, rest) | None => None end.
Proof.
  intros H1 H2 H3. cbn [dec_body].
  apply N.eqb_neq in H1, H2. rewrite H1, H2.
  replace (c <? 32) with false by (symmetry; apply N.ltb_ge; exact H3). reflexivity.
Qed.

Lemma below32 c : c < 32 -> In c [0;1;2;3;4;5;6;7;8;9;10;11;12;13;14;15;16;17;18;19;20;21;22;23;24;25;26;27;28;29;30;31].
Proof.
  intro H. cbn [In]. lia.
Qed.

Lemma dec_enc_body : forall s rest, dec_body (enc_body s ++ 34 :: rest) = Some (sanitize s, rest).
Proof.
  apply (str_ind_len (fun s => forall rest, dec_body (enc_body s ++ 34 :: rest) = Some (sanitize s, rest))).
  { intro rest. reflexivity. }
  intros c r IH rest.
  destruct (ulen_cases c r) as [H|[H|[H|[H|H]]]].
  - (* ill-formed byte: � *)
    rewrite (enc_body_0 _ _ H), (sanitize_0 _ _ H).
    change (esc_fffd ++ enc_body r) with (92 :: 117 :: 102 :: 102 :: 102 :: 100 :: enc_body r).
    cbn [app]. cbn [dec_body]. change (hex4 102 102 102 100) with (Some 65533).
    cbv beta iota. change (in_rng 55296 56319 65533) with false. change (in_rng 56320 57343 65533) with false.
    change (92 =? 34) with false. change (92 =? 92) with true. change (117 =? 117) with true.
    cbv beta iota. rewrite (IH r (le_n _) rest). reflexivity.
  - (* ASCII *)
    pose proof (ulen_1 _ _ H) as Hc.
    rewrite (enc_body_1 _ _ H), (sanitize_1 _ _ H). unfold esc1.
    destruct (c =? 34) eqn:E34; [apply N.eqb_eq in E34; subst c; cbn; rewrite (IH r (le_n _) rest); reflexivity|].
    destruct (c =? 92) eqn:E92; [apply N.eqb_eq in E92; subst c; cbn; rewrite (IH r (le_n _) rest); reflexivity|].
    destruct (c =? 10) eqn:E10; [apply N.eqb_eq in E10; subst c; cbn; rewrite (IH r (le_n _) rest); reflexivity|].
    destruct (c =? 13) eqn:E13; [apply N.eqb_eq in E13; subst c; cbn; rewrite (IH r (le_n _) rest); reflexivity|].
    destruct (c =? 9) eqn:E9; [apply N.eqb_eq in E9; subst c; cbn; rewrite (IH r (le_n _) rest); reflexivity|].
    destruct (c <? 32) eqn:E32.
    + apply N.ltb_lt in E32. pose proof (below32 c E32) as Hin.
      cbn [In] in Hin.
      repeat (destruct Hin as [<-|Hin]; [cbn; rewrite (IH r (le_n _) rest); reflexivity|]).
      destruct Hin.
    + apply N.ltb_ge in E32. apply N.eqb_neq in E34, E92.
      cbn [app]. rewrite (dec_body_plain c _ E34 E92 E32), (IH r (le_n _) rest). reflexivity.
  - destruct (ulen_2 _ _ H) as (c1 & r1 & -> & Hc & Hc1).
    rewrite (enc_body_2 _ _ _ H), (sanitize_2 _ _ _ H). cbn [app].
    rewrite (dec_body_plain c) by lia. rewrite (dec_body_plain c1) by lia.
    rewrite (IH r1 ltac:(cbn; lia) rest). reflexivity.
  - destruct (ulen_3 _ _ H) as (c1 & c2 & r2 & -> & Hc & Hc1 & Hc2 & _).
    rewrite (enc_body_3 _ _ _ _ H), (sanitize_3 _ _ _ _ H). unfold esc3.
    destruct ((c =? 226) && (c1 =? 128) && (c2 =? 168)) eqn:E1.
    { apply andb_true_iff in E1 as [E1 E1c]. apply andb_true_iff in E1 as [E1a E1b].
      apply N.eqb_eq in E1a, E1b, E1c. subst c c1 c2.
      cbn. rewrite (IH r2 ltac:(cbn; lia) rest). reflexivity. }
    destruct ((c =? 226) && (c1 =? 128) && (c2 =? 169)) eqn:E2.
    { apply andb_true_iff in E2 as [E2 E2c]. apply andb_true_iff in E2 as [E2a E2b].
      apply N.eqb_eq in E2a, E2b, E2c. subst c c1 c2.
      cbn. rewrite (IH r2 ltac:(cbn; lia) rest). reflexivity. }
    cbn [app].
    rewrite (dec_body_plain c) by lia. rewrite (dec_body_plain c1) by lia. rewrite (dec_body_plain c2) by lia.
    rewrite (IH r2 ltac:(cbn; lia) rest). reflexivity.
  - destruct (ulen_4 _ _ H) as (c1 & c2 & c3 & r3 & -> & Hc & Hc1 & Hc2 & Hc3 & _).
    rewrite (enc_body_4 _ _ _ _ _ H), (sanitize_4 _ _ _ _ _ H). cbn [app].
    rewrite (dec_body_plain c) by lia. rewrite (dec_body_plain c1) by lia.
    rewrite (dec_body_plain c2) by lia. rewrite (dec_body_plain c3) by lia.
    rewrite (IH r3 ltac:(cbn; lia) rest). reflexivity.
Qed.

(* ------------------------------------------------------------------ *)
(* encoded strings are RFC 8259 strings                                *)
(* ------------------------------------------------------------------ *)

Lemma hexd_hexdig n : n < 16 -> hexdig (hexd n).
Proof. intro H. unfold hexd, hexdig. destruct (n <? 10) eqn:E; [apply N.ltb_lt in E|apply N.ltb_ge in E]; lia. Qed.

Lemma jchars_esc1 c s : c < 128 -> jchars s -> jchars (esc1 c ++ s).
Proof.
  intros Hc Hs. unfold esc1.
  destruct (c =? 34) eqn:E34; [apply jc_esc; [apply esc_simple; cbn; tauto|exact Hs]|].
  destruct (c =? 92) eqn:E92; [apply jc_esc; [apply esc_simple; cbn; tauto|exact Hs]|].
  destruct (c =? 10) eqn:E10; [apply jc_esc; [apply esc_simple; cbn; tauto|exact Hs]|].
  destruct (c =? 13) eqn:E13; [apply jc_esc; [apply esc_simple; cbn; tauto|exact Hs]|].
  destruct (c =? 9) eqn:E9; [apply jc_esc; [apply esc_simple; cbn; tauto|exact Hs]|].
  destruct (c <? 32) eqn:E32.
  - apply N.ltb_lt in E32. apply jc_esc; [|exact Hs]. unfold u00.
    apply esc_u; try (unfold hexdig; lia).
    + apply hexd_hexdig. apply N.div_lt_upper_bound; lia.
    + apply hexd_hexdig. apply N.mod_lt. lia.
  - apply N.ltb_ge in E32. apply N.eqb_neq in E34, E92.
    apply (jc_char [c]); [|exact Hs]. apply uc1; [lia|exact E34|exact E92].
Qed.

Lemma jchars_enc_body : forall s, jchars (enc_body s).
Proof.
  apply (str_ind_len (fun s => jchars (enc_body s))); [apply jc_nil|].
  intros c r IH.
  destruct (ulen_cases c r) as [H|[H|[H|[H|H]]]].
  - rewrite (enc_body_0 _ _ H). apply jc_esc; [|apply IH; lia].
    unfold esc_fffd. apply esc_u; unfold hexdig; lia.
  - rewrite (enc_body_1 _ _ H). apply jchars_esc1; [exact (ulen_1 _ _ H)|apply IH; lia].
  - destruct (ulen_2 _ _ H) as (c1 & r1 & -> & Hc & Hc1).
    rewrite (enc_body_2 _ _ _ H). apply (jc_char [c; c1]); [|apply IH; cbn; lia].
    apply uc2; [exact Hc|exact Hc1].
  - destruct (ulen_3 _ _ H) as (c1 & c2 & r2 & -> & Hc & Hc1 & Hc2 & Ha & Hb).
    rewrite (enc_body_3 _ _ _ _ H). unfold esc3.
    destruct ((c =? 226) && (c1 =? 128) && (c2 =? 168)).
    { apply jc_esc; [|apply IH; cbn; lia]. unfold esc_2028. apply esc_u; unfold hexdig; lia. }
    destruct ((c =? 226) && (c1 =? 128) && (c2 =? 169)).
    { apply jc_esc; [|apply IH; cbn; lia]. unfold esc_2029. apply esc_u; unfold hexdig; lia. }
    apply (jc_char [c; c1; c2]); [|apply IH; cbn; lia].
    apply uc3; assumption.
  - destruct (ulen_4 _ _ H) as (c1 & c2 & c3 & r3 & -> & Hc & Hc1 & Hc2 & Hc3 & Ha & Hb).
    rewrite (enc_body_4 _ _ _ _ _ H). apply (jc_char [c; c1; c2; c3]); [|apply IH; cbn; lia].
    apply uc4; assumption.
Qed.

Lemma jstring_enc_string s : jstring (enc_string s).
Proof. unfold enc_string. apply js_intro. apply jchars_enc_body. Qed.

(* ------------------------------------------------------------------ *)
(* induction principles for the nested types                           *)
(* ------------------------------------------------------------------ *)

Section JInd.
  Variable P : jvalue -> Prop.
  Hypothesis Hnull : P JNull.
  Hypothesis Hbool : forall b, P (JBool b).
  Hypothesis Hint : forall z, P (JInt z).
  Hypothesis Hfloat : forall t, P (JFloat t).
  Hypothesis Hstr : forall s, P (JStr s).
  Hypothesis Harr : forall l, Forall P l -> P (JArr l).
  Hypothesis Hobj : forall m, Forall (fun kv => P (snd kv)) m -> P (JObj m).

  Fixpoint jvalue_ind' (v : jvalue) : P v :=
    match v with
    | JNull => Hnull
    | JBool b => Hbool b
    | JInt z => Hint z
    | JFloat t => Hfloat t
    | JStr s => Hstr s
    | JArr l => Harr l ((fix go (l : list jvalue) : Forall P l :=
                           match l with
                           | [] => Forall_nil _
                           | x :: xs => Forall_cons x (jvalue_ind' x) (go xs)
                           end) l)
    | JObj m => Hobj m ((fix go (m : list (str * jvalue)) : Forall (fun kv => P (snd kv)) m :=
                           match m with
                           | [] => Forall_nil _
                           | kv :: xs => Forall_cons kv (jvalue_ind' (snd kv)) (go xs)
                           end) m)
    end.
End JInd.

Section NInd.
  Variable P : node -> Prop.
  Hypothesis Hscalar : forall t v, P (NScalar t v).
  Hypothesis Hseq : forall l, Forall P l -> P (NSeq l).
  Hypothesis Hmap : forall m, Forall (fun kv => P (snd kv)) m -> P (NMap m).
  Hypothesis Halias : forall t, P t -> P (NAlias t).
  Hypothesis Hzero : P NZero.

  Fixpoint node_ind' (n : node) : P n :=
    match n with
    | NScalar t v => Hscalar t v
    | NSeq l => Hseq l ((fix go (l : list node) : Forall P l :=
                           match l with
                           | [] => Forall_nil _
                           | x :: xs => Forall_cons x (node_ind' x) (go xs)
                           end) l)
    | NMap m => Hmap m ((fix go (m : list (str * node)) : Forall (fun kv => P (snd kv)) m :=
                           match m with
                           | [] => Forall_nil _
                           | kv :: xs => Forall_cons kv (node_ind' (snd kv)) (go xs)
                           end) m)
    | NAlias t => Halias t (node_ind' t)
    | NZero => Hzero
    end.
End NInd.

(* ------------------------------------------------------------------ *)
(* the encoder's output is RFC 8259 text                               *)
(* ------------------------------------------------------------------ *)

Lemma ws_repeat k : ws (repeat 32 k).
Proof. induction k; cbn [repeat]; [apply ws_nil|apply ws_cons; [left; reflexivity|assumption]]. Qed.

Lemma ws_nl ind lvl : ws (nl ind lvl).
Proof.
  unfold nl. destruct (ind =? 0); [apply ws_nil|].
  apply ws_cons; [right; right; left; reflexivity|apply ws_repeat].
Qed.

Lemma ws_colon_tail ind : exists w, ws w /\ colon ind = 58 :: w.
Proof.
  unfold colon. destruct (ind =? 0).
  - exists []. split; [apply ws_nil|reflexivity].
  - exists [32]. split; [apply ws_cons; [left; reflexivity|apply ws_nil]|reflexivity].
Qed.

Definition arr_tail (ind : N) (lvl : nat) (xs : list jvalue) : str :=
  flat_map (fun y => 44 :: nl ind (S lvl) ++ enc ind (S lvl) y) xs.

Definition obj_tail (ind : N) (lvl : nat) (xs : list (str * jvalue)) : str :=
  flat_map (fun kv => match kv with
                      | (k', y) => 44 :: nl ind (S lvl) ++ enc_string k' ++ colon ind ++ enc ind (S lvl) y
                      end) xs.

Lemma enc_arr_cons ind lvl x xs :
  enc ind lvl (JArr (x :: xs)) =
  91 :: nl ind (S lvl) ++ enc ind (S lvl) x ++ arr_tail ind lvl xs ++ nl ind lvl ++ [93].
Proof. reflexivity. Qed.

Lemma enc_obj_cons ind lvl k x xs :
  enc ind lvl (JObj ((k, x) :: xs)) =
  123 :: nl ind (S lvl) ++ enc_string k ++ colon ind ++ enc ind (S lvl) x ++ obj_tail ind lvl xs ++ nl ind lvl ++ [125].
Proof. reflexivity. Qed.

Lemma arr_tail_cons ind lvl y ys :
  arr_tail ind lvl (y :: ys) = 44 :: nl ind (S lvl) ++ enc ind (S lvl) y ++ arr_tail ind lvl ys.
Proof. unfold arr_tail. cbn [flat_map app]. rewrite <- app_assoc. reflexivity. Qed.

Lemma obj_tail_cons ind lvl k y ys :
  obj_tail ind lvl ((k, y) :: ys) =
  44 :: nl ind (S lvl) ++ enc_string k ++ colon ind ++ enc ind (S lvl) y ++ obj_tail ind lvl ys.
Proof. unfold obj_tail. cbn [flat_map app]. rewrite <- !app_assoc. reflexivity. Qed.

Lemma elems_valid ind lvl : forall xs x,
  jval (enc ind (S lvl) x) -> Forall (fun y => jval (enc ind (S lvl) y)) xs ->
  jelements (nl ind (S lvl) ++ enc ind (S lvl) x ++ arr_tail ind lvl xs ++ nl ind lvl).
Proof.
  induction xs as [|y ys IH]; intros x Hx Hxs.
  - cbn [arr_tail flat_map app]. apply jel_one; [apply ws_nl|exact Hx|apply ws_nl].
  - rewrite arr_tail_cons. inversion Hxs as [|? ? Hy Hys]; subst.
    replace (nl ind (S lvl) ++ enc ind (S lvl) x ++ (44 :: nl ind (S lvl) ++ enc ind (S lvl) y ++ arr_tail ind lvl ys) ++ nl ind lvl)
      with (nl ind (S lvl) ++ enc ind (S lvl) x ++ [] ++ 44 :: (nl ind (S lvl) ++ enc ind (S lvl) y ++ arr_tail ind lvl ys ++ nl ind lvl)).
    + apply jel_more; [apply ws_nl|exact Hx|apply ws_nil|apply IH; assumption].
    + cbn [app]. rewrite <- !app_assoc. reflexivity.
Qed.

Lemma members_valid ind lvl : forall xs k x,
  jval (enc ind (S lvl) x) -> Forall (fun kv => jval (enc ind (S lvl) (snd kv))) xs ->
  jmembers (nl ind (S lvl) ++ enc_string k ++ colon ind ++ enc ind (S lvl) x ++ obj_tail ind lvl xs ++ nl ind lvl).
Proof.
  induction xs as [|[k' y] ys IH]; intros k x Hx Hxs; destruct (ws_colon_tail ind) as (w & Hw & ->).
  - cbn [obj_tail flat_map app].
    replace (nl ind (S lvl) ++ enc_string k ++ 58 :: w ++ enc ind (S lvl) x ++ nl ind lvl)
      with (nl ind (S lvl) ++ enc_string k ++ [] ++ 58 :: w ++ enc ind (S lvl) x ++ nl ind lvl) by reflexivity.
    apply jmb_one; [apply ws_nl|apply jstring_enc_string|apply ws_nil|exact Hw|exact Hx|apply ws_nl].
  - rewrite obj_tail_cons. inversion Hxs as [|? ? Hy Hys]; subst. cbn [snd] in Hy.
    replace (nl ind (S lvl) ++ enc_string k ++ (58 :: w) ++ enc ind (S lvl) x ++
             (44 :: nl ind (S lvl) ++ enc_string k' ++ colon ind ++ enc ind (S lvl) y ++ obj_tail ind lvl ys) ++ nl ind lvl)
      with (nl ind (S lvl) ++ enc_string k ++ [] ++ 58 :: w ++ enc ind (S lvl) x ++ [] ++
            44 :: (nl ind (S lvl) ++ enc_string k' ++ colon ind ++ enc ind (S lvl) y ++ obj_tail ind lvl ys ++ nl ind lvl)).
    + apply jmb_more; [apply ws_nl|apply jstring_enc_string|apply ws_nil|exact Hw|exact Hx|apply ws_nil|apply IH; assumption].
    + cbn [app]. rewrite <- !app_assoc. reflexivity.
Qed.

Lemma forall_arr_valid ind lvl (xs : list jvalue) :
  Forall (fun v => floats_ok jnumber v -> forall ind lvl, jval (enc ind lvl v)) xs ->
  fold_right (fun x a => floats_ok jnumber x /\ a) True xs ->
  Forall (fun y => jval (enc ind (S lvl) y)) xs.
Proof.
  induction 1 as [|y ys Hy Hys IH]; intro Hf; [constructor|].
  cbn [fold_right] in Hf. destruct Hf as [Hfy Hfys].
  constructor; [apply Hy; exact Hfy|apply IH; exact Hfys].
Qed.

Lemma forall_obj_valid ind lvl (xs : list (str * jvalue)) :
  Forall (fun kv => floats_ok jnumber (snd kv) -> forall ind lvl, jval (enc ind lvl (snd kv))) xs ->
  fold_right (fun kv a => match kv with (_, x) => floats_ok jnumber x /\ a end) True xs ->
  Forall (fun kv => jval (enc ind (S lvl) (snd kv))) xs.
Proof.
  induction 1 as [|[k y] ys Hy Hys IH]; intro Hf; [constructor|].
  cbn [fold_right] in Hf. destruct Hf as [Hfy Hfys]. cbn [snd] in Hy.
  constructor; [cbn [snd]; apply Hy; exact Hfy|apply IH; exact Hfys].
Qed.

Lemma enc_valid : forall v, floats_ok jnumber v -> forall ind lvl, jval (enc ind lvl v).
Proof.
  induction v as [| b | z | t | s | l IH | m IH] using jvalue_ind'; intros Hf ind lvl.
  - apply jv_null.
  - destruct b; [apply jv_true|apply jv_false].
  - apply jv_num. apply dec_Z_jnumber.
  - apply jv_num. exact Hf.
  - apply jv_str. apply jstring_enc_string.
  - destruct l as [|x xs].
    + apply (jv_arr_empty []). apply ws_nil.
    + rewrite enc_arr_cons.
      replace (91 :: nl ind (S lvl) ++ enc ind (S lvl) x ++ arr_tail ind lvl xs ++ nl ind lvl ++ [93])
        with (91 :: (nl ind (S lvl) ++ enc ind (S lvl) x ++ arr_tail ind lvl xs ++ nl ind lvl) ++ [93])
        by (rewrite <- !app_assoc; reflexivity).
      apply jv_arr. cbn [floats_ok fold_right] in Hf. destruct Hf as [Hfx Hfxs].
      inversion IH as [|? ? IHx IHxs]; subst.
      apply elems_valid; [apply IHx; exact Hfx|].
      apply forall_arr_valid; assumption.
  - destruct m as [|[k x] xs].
    + apply (jv_obj_empty []). apply ws_nil.
    + rewrite enc_obj_cons.
      replace (123 :: nl ind (S lvl) ++ enc_string k ++ colon ind ++ enc ind (S lvl) x ++ obj_tail ind lvl xs ++ nl ind lvl ++ [125])
        with (123 :: (nl ind (S lvl) ++ enc_string k ++ colon ind ++ enc ind (S lvl) x ++ obj_tail ind lvl xs ++ nl ind lvl) ++ [125])
        by (rewrite <- !app_assoc; reflexivity).
      apply jv_obj. cbn [floats_ok fold_right] in Hf. destruct Hf as [Hfx Hfxs].
      inversion IH as [|? ? IHx IHxs]; subst. cbn [snd] in IHx.
      apply members_valid; [apply IHx; exact Hfx|].
      apply forall_obj_valid; assumption.
Qed.

Lemma enc_top_valid v ind : floats_ok jnumber v -> json_text (enc_top ind v).
Proof.
  intro Hf. unfold enc_top.
  change (enc ind 0 v ++ [10]) with ([] ++ enc ind 0 v ++ [10]).
  apply jt_intro; [apply ws_nil|apply enc_valid; exact Hf|].
  apply ws_cons; [right; right; left; reflexivity|apply ws_nil].
Qed.

(* ------------------------------------------------------------------ *)
(* integers up to 2^53 pass through the binary64 classification        *)
(* ------------------------------------------------------------------ *)

Lemma rhe_one x : round_half_even x 1 = x.
Proof.
  unfold round_half_even. rewrite N.div_1_r, N.mod_1_r. reflexivity.
Qed.

Lemma f64_exp_int n : 0 < n -> f64_exp n 1 = (Z.of_N (N.log2 n) - 52)%Z.
Proof.
  intro Hn. unfold f64_exp. change (N.log2 1) with 0. change (Z.of_N 0) with 0%Z.
  rewrite Z.sub_0_r. unfold lt_scaled.
  replace (0 <=? Z.of_N (N.log2 n))%Z with true by (symmetry; apply Z.leb_le; lia).
  rewrite N2Z.id, pow2_spec, N.mul_1_l.
  replace (n <? 2 ^ N.log2 n) with false.
  - lia.
  - symmetry. apply N.ltb_ge. apply N.log2_spec. exact Hn.
Qed.

Lemma f64_round_int_small n : 0 < n -> n < 2 ^ 53 ->
  exists m e, f64_round n 1 = Some (m, e) /\ f64_int m e = Some n.
Proof.
  intros Hpos Hlt.
  assert (HL : N.log2 n < 53) by (apply N.log2_lt_pow2; assumption).
  pose proof (N.log2_spec n Hpos) as [Hlo Hhi].
  unfold f64_round. replace (n =? 0) with false by (symmetry; apply N.eqb_neq; lia).
  rewrite (f64_exp_int n Hpos). cbv zeta.
  set (L := N.log2 n) in *.
  destruct (N.eq_dec L 52) as [HL52|HL52].
  - (* no scaling needed *)
    rewrite HL52. change (Z.of_N 52 - 52)%Z with 0%Z.
    unfold f64_scaled. change (0 <=? 0)%Z with true. cbn [fst snd].
    change (Z.to_N 0) with 0. rewrite pow2_spec, N.pow_0_r, N.mul_1_r, rhe_one.
    replace (n =? pow2 53) with false by (symmetry; apply N.eqb_neq; rewrite pow2_spec; lia).
    cbn [snd]. change (971 <? 0)%Z with false.
    exists n, 0%Z. split; [reflexivity|].
    unfold f64_int. change (0 <=? 0)%Z with true. change (Z.to_N 0) with 0.
    rewrite pow2_spec, N.pow_0_r, N.mul_1_r. reflexivity.
  - assert (HLlt : L < 52) by lia.
    unfold f64_scaled.
    replace (0 <=? Z.of_N L - 52)%Z with false by (symmetry; apply Z.leb_gt; lia).
    cbn [fst snd]. rewrite rhe_one.
    replace (Z.to_N (- (Z.of_N L - 52))) with (52 - L) by lia.
    rewrite pow2_spec.
    assert (Hm : n * 2 ^ (52 - L) < 2 ^ 53).
    { replace 53 with (N.succ L + (52 - L)) by lia. rewrite N.pow_add_r.
      apply N.mul_lt_mono_pos_r; [apply N.neq_0_lt_0; apply N.pow_nonzero; lia|exact Hhi]. }
    replace (n * 2 ^ (52 - L) =? pow2 53) with false by (symmetry; apply N.eqb_neq; rewrite pow2_spec; lia).
    cbn [snd]. replace (971 <? Z.of_N L - 52)%Z with false by (symmetry; apply Z.ltb_ge; lia).
    exists (n * 2 ^ (52 - L)), (Z.of_N L - 52)%Z. split; [reflexivity|].
    unfold f64_int. replace (0 <=? Z.of_N L - 52)%Z with false by (symmetry; apply Z.leb_gt; lia).
    replace (Z.to_N (- (Z.of_N L - 52))) with (52 - L) by lia.
    rewrite pow2_spec.
    assert (Hnz : 2 ^ (52 - L) <> 0) by (apply N.pow_nonzero; lia).
    rewrite N.mod_mul by exact Hnz. rewrite N.div_mul by exact Hnz. reflexivity.
Qed.

Lemma f64_round_int n : 0 < n -> n <= 2 ^ 53 ->
  exists m e, f64_round n 1 = Some (m, e) /\ f64_int m e = Some n.
Proof.
  intros Hpos Hle. destruct (N.eq_dec n (2 ^ 53)) as [->|Hne].
  - exists (2 ^ 52), 1%Z. split; vm_compute; reflexivity.
  - apply f64_round_int_small; [exact Hpos|lia].
Qed.

Lemma span_digits_all l : all_digits l = true -> span_digits l = (l, []).
Proof.
  induction l as [|c r IH]; intro H; [reflexivity|].
  cbn [all_digits] in H. apply andb_true_iff in H as [Hc Hr].
  cbn [span_digits]. rewrite Hc, (IH Hr). reflexivity.
Qed.

Lemma is_digit_spec c : is_digit c = true <-> 48 <= c <= 57.
Proof. apply in_rng_spec. Qed.

Lemma split_number_dec_N n : split_number (dec_N n) = Some (false, dec_N n, [], 0%Z).
Proof.
  destruct (dec_N_nonempty n) as (d & t & He & Hd & Ht).
  pose proof (dec_N_digits n) as Hall.
  unfold split_number. rewrite He.
  replace (d =? 45) with false by (symmetry; apply N.eqb_neq; lia).
  rewrite <- He, (span_digits_all _ Hall), He.
  assert (Hlead : lead_ok (d :: t) = true).
  { unfold lead_ok. destruct (N.eq_dec n 0) as [->|Hn].
    - rewrite dec_N_zero in He. injection He as <- <-. reflexivity.
    - destruct (dec_N_head n ltac:(lia)) as (d' & t' & He' & Hd' & _).
      rewrite He in He'. injection He' as <- <-.
      replace (d =? 48) with false by (symmetry; apply N.eqb_neq; lia). reflexivity. }
  rewrite Hlead. reflexivity.
Qed.

Lemma split_number_neg_dec_N n : split_number (45 :: dec_N n) = Some (true, dec_N n, [], 0%Z).
Proof.
  pose proof (split_number_dec_N n) as H.
  destruct (dec_N_nonempty n) as (d & t & He & Hd & Ht).
  pose proof (dec_N_digits n) as Hall.
  unfold split_number in *. cbn [tl]. change (45 =? 45) with true. cbv iota.
  rewrite He in H. replace (d =? 45) with false in H by (symmetry; apply N.eqb_neq; lia).
  rewrite <- He in *. rewrite (span_digits_all _ Hall) in *.
  destruct (lead_ok (dec_N n)); [reflexivity|discriminate].
Qed.

Lemma literal_round_int n : 0 < n -> n <= 2 ^ 53 ->
  exists m e, literal_round (dec_N n) [] 0 = Some (m, e) /\ f64_int m e = Some n.
Proof.
  intros Hpos Hle. unfold literal_round. rewrite app_nil_r, dec_N_val.
  replace (n =? 0) with false by (symmetry; apply N.eqb_neq; lia).
  cbn [length]. change (0 - Z.of_nat 0)%Z with 0%Z. change (400 <? 0)%Z with false.
  replace (0 <? - (400 + Z.of_nat (length (dec_N n) + 0)))%Z with false by (symmetry; apply Z.ltb_ge; lia).
  change (0 <=? 0)%Z with true. cbv iota. change (pow10 (Z.to_N 0)) with 1. rewrite N.mul_1_r.
  apply f64_round_int; assumption.
Qed.

Lemma parse_unsigned_digits l : forall acc, all_digits l = true ->
  parse_unsigned 10 acc l = Some (digits_val acc l).
Proof.
  induction l as [|c l IH]; intros acc H; [reflexivity|].
  cbn [all_digits] in H. apply andb_true_iff in H as [Hc Hl].
  cbn [parse_unsigned digits_val]. unfold digit_of. rewrite Hc.
  apply is_digit_spec in Hc.
  replace (c - 48 <? 10) with true by (symmetry; apply N.ltb_lt; lia).
  apply IH. exact Hl.
Qed.

Lemma filter_id {A} (p : A -> bool) l : forallb p l = true -> filter p l = l.
Proof.
  induction l as [|x l IH]; intro H; [reflexivity|].
  cbn [forallb] in H. apply andb_true_iff in H as [Hx Hl].
  cbn [filter]. rewrite Hx, (IH Hl). reflexivity.
Qed.

Lemma all_digits_no_us l : all_digits l = true -> forallb (fun c => negb (c =? 95)) l = true.
Proof.
  induction l as [|c l IH]; intro H; [reflexivity|].
  cbn [all_digits] in H. apply andb_true_iff in H as [Hc Hl]. apply is_digit_spec in Hc.
  cbn [forallb]. rewrite (IH Hl), andb_true_r.
  apply negb_true_iff. apply N.eqb_neq. lia.
Qed.

Lemma go_parse_int_dec_Z z : (- Z.of_N two63 <= z < Z.of_N two63)%Z -> go_parse_int 10 (dec_Z z) = Some z.
Proof.
  intro Hz. unfold two63 in Hz. unfold dec_Z.
  destruct (dec_N_nonempty (Z.abs_N z)) as (d & t & He & Hd & Ht).
  pose proof (dec_N_digits (Z.abs_N z)) as Hall.
  pose proof (dec_N_val (Z.abs_N z)) as Hval.
  destruct (z <? 0)%Z eqn:Hneg.
  - apply Z.ltb_lt in Hneg. unfold go_parse_int. change (45 =? 45) with true. cbn [orb]. cbv iota. cbv zeta.
    rewrite (parse_unsigned_digits _ 0 Hall), Hval. rewrite He.
    replace (Z.abs_N z <=? two63) with true by (symmetry; apply N.leb_le; unfold two63; lia).
    f_equal. lia.
  - apply Z.ltb_ge in Hneg. rewrite He. unfold go_parse_int.
    replace (d =? 45) with false by (symmetry; apply N.eqb_neq; lia).
    replace (d =? 43) with false by (symmetry; apply N.eqb_neq; lia).
    cbn [orb]. cbv zeta. cbv iota.
    rewrite <- He. rewrite (parse_unsigned_digits _ 0 Hall), Hval.
    replace (Z.abs_N z <? two63) with true by (symmetry; apply N.ltb_lt; unfold two63; lia).
    f_equal. lia.
Qed.

Lemma classify_dec_Z z : (- Z.of_N two63 <= z < Z.of_N two63)%Z -> classify_number (dec_Z z) = Ok (JInt z).
Proof.
  intro Hz. unfold classify_number. rewrite (go_parse_int_dec_Z z Hz).
  unfold dec_Z. destruct (z <? 0)%Z; [rewrite split_number_neg_dec_N|rewrite split_number_dec_N]; reflexivity.
Qed.

(* ------------------------------------------------------------------ *)
(* reading back an encoded value                                       *)
(* ------------------------------------------------------------------ *)

Fixpoint need (v : jvalue) : nat :=
  match v with
  | JArr l => S (length l + fold_right (fun x a => (need x + a)%nat) 0%nat l)
  | JObj m => S (length m + fold_right (fun kv a => match kv with (_, x) => (need x + a)%nat end) 0%nat m)
  | _ => 1%nat
  end.

Definition no_num_head (rest : str) : Prop :=
  match rest with [] => True | c :: _ => is_numchar c = false end.

Lemma skip_ws_app_ws w s : forallb is_ws w = true -> skip_ws (w ++ s) = skip_ws s.
Proof.
  induction w as [|c w IH]; intro H; [reflexivity|].
  cbn [forallb] in H. apply andb_true_iff in H as [Hc Hw].
  cbn [app skip_ws]. rewrite Hc. apply IH. exact Hw.
Qed.

Lemma wsb_repeat k : forallb is_ws (repeat 32 k) = true.
Proof. induction k; [reflexivity|]. cbn [repeat forallb]. rewrite IHk. reflexivity. Qed.

Lemma wsb_nl ind lvl : forallb is_ws (nl ind lvl) = true.
Proof. unfold nl. destruct (ind =? 0); [reflexivity|]. cbn [forallb]. rewrite wsb_repeat. reflexivity. Qed.

Lemma skip_ws_head c s : is_ws c = false -> skip_ws (c :: s) = c :: s.
Proof. intro H. cbn [skip_ws]. rewrite H. reflexivity. Qed.

Lemma parse_val_skip fuel s s' : skip_ws s = skip_ws s' -> parse_val fuel s = parse_val fuel s'.
Proof. intro H. destruct fuel; [reflexivity|]. cbn [parse_val]. rewrite H. reflexivity. Qed.

Lemma pv_null f rest : parse_val (S f) (110 :: 117 :: 108 :: 108 :: rest) = Some (JNull, rest).
Proof. reflexivity. Qed.
Lemma pv_true f rest : parse_val (S f) (116 :: 114 :: 117 :: 101 :: rest) = Some (JBool true, rest).
Proof. reflexivity. Qed.
Lemma pv_false f rest : parse_val (S f) (102 :: 97 :: 108 :: 115 :: 101 :: rest) = Some (JBool false, rest).
Proof. reflexivity. Qed.
Lemma pv_str f r : parse_val (S f) (34 :: r) =
  match dec_body r with Some (t, r') => Some (JStr t, r') | None => None end.
Proof. reflexivity. Qed.
Lemma pv_arr f r : parse_val (S f) (91 :: r) =
  match skip_ws r with
  | [] => None
  | c' :: r' => if c' =? 93 then Some (JArr [], r') else elems_loop (parse_val f) f (c' :: r') []
  end.
Proof. reflexivity. Qed.
Lemma pv_obj f r : parse_val (S f) (123 :: r) =
  match skip_ws r with
  | [] => None
  | c' :: r' => if c' =? 125 then Some (JObj [], r') else members_loop (parse_val f) f (c' :: r') []
  end.
Proof. reflexivity. Qed.

Lemma pv_num f c r : 48 <= c <= 57 \/ c = 45 ->
  parse_val (S f) (c :: r) =
  (let '(tok, rest) := span_num (c :: r) in
   match classify_number tok with Ok v => Some (v, rest) | Err _ => None end).
Proof.
  intro Hc. cbn [parse_val].
  assert (Hws : is_ws c = false).
  { unfold is_ws. repeat (apply orb_false_iff; split); apply N.eqb_neq; lia. }
  rewrite (skip_ws_head _ _ Hws).
  replace (c =? 110) with false by (symmetry; apply N.eqb_neq; lia).
  replace (c =? 116) with false by (symmetry; apply N.eqb_neq; lia).
  replace (c =? 102) with false by (symmetry; apply N.eqb_neq; lia).
  replace (c =? 34) with false by (symmetry; apply N.eqb_neq; lia).
  replace (c =? 91) with false by (symmetry; apply N.eqb_neq; lia).
  replace (c =? 123) with false by (symmetry; apply N.eqb_neq; lia).
  replace (is_digit c || (c =? 45)) with true; [reflexivity|].
  symmetry. apply orb_true_iff. destruct Hc as [Hc| ->]; [left; apply is_digit_spec; exact Hc|right; reflexivity].
Qed.

Lemma span_num_app l rest : forallb is_numchar l = true -> no_num_head rest -> span_num (l ++ rest) = (l, rest).
Proof.
  induction l as [|c l IH]; intros Hl Hr.
  - cbn [app]. destruct rest as [|c r]; [reflexivity|]. cbn [no_num_head] in Hr.
    cbn [span_num]. rewrite Hr. reflexivity.
  - cbn [forallb] in Hl. apply andb_true_iff in Hl as [Hc Hl].
    cbn [app span_num]. rewrite Hc, (IH Hl Hr). reflexivity.
Qed.

Lemma all_digits_numchar l : all_digits l = true -> forallb is_numchar l = true.
Proof.
  induction l as [|c l IH]; intro H; [reflexivity|].
  cbn [all_digits] in H. apply andb_true_iff in H as [Hc Hl].
  cbn [forallb]. rewrite (IH Hl), andb_true_r. unfold is_numchar. rewrite Hc. reflexivity.
Qed.

Lemma dec_Z_shape z : exists c t, dec_Z z = c :: t /\ (48 <= c <= 57 \/ c = 45) /\ forallb is_numchar (dec_Z z) = true.
Proof.
  unfold dec_Z. destruct (dec_N_nonempty (Z.abs_N z)) as (d & t & He & Hd & Ht).
  pose proof (all_digits_numchar _ (dec_N_digits (Z.abs_N z))) as Hall.
  destruct (z <? 0)%Z.
  - exists 45, (dec_N (Z.abs_N z)). split; [reflexivity|]. split; [right; reflexivity|].
    cbn [forallb]. rewrite Hall. reflexivity.
  - exists d, t. split; [exact He|]. split; [left; exact Hd|exact Hall].
Qed.

Definition head_ok (c : N) : Prop := is_ws c = false /\ c <> 93 /\ c <> 125.

Lemma head_ok_const c : is_ws c = false -> (c =? 93) = false -> (c =? 125) = false -> head_ok c.
Proof. intros H1 H2 H3. apply N.eqb_neq in H2, H3. repeat split; assumption. Qed.

Lemma float_token_shape t : float_token_ok t = true ->
  exists c r, t = c :: r /\ (48 <= c <= 57 \/ c = 45) /\ forallb is_numchar t = true
              /\ exists w, classify_number t = Ok w.
Proof.
  unfold float_token_ok. intro H. apply andb_true_iff in H as [H Hc]. apply andb_true_iff in H as [Hall Hh].
  destruct t as [|c r]; [discriminate|]. exists c, r. split; [reflexivity|]. split.
  - apply orb_true_iff in Hh as [Hh|Hh]; [left; apply is_digit_spec; exact Hh|right; apply N.eqb_eq; exact Hh].
  - split.
    + clear -Hall. induction (c :: r) as [|x l IH]; [reflexivity|]. cbn [forallb] in *.
      apply andb_true_iff in Hall as [Hx Hl]. rewrite (IH Hl), andb_true_r. unfold is_numchar. exact Hx.
    + destruct (classify_number (c :: r)) as [w|e]; [exists w; reflexivity|discriminate].
Qed.

Lemma enc_head ind lvl v : rt_domain_f v = true -> exists c t, enc ind lvl v = c :: t /\ head_ok c.
Proof.
  destruct v as [| [|] | z | t | s | [|x xs] | [|[k x] xs]]; intro Hd;
    try (eexists; eexists; split; [reflexivity|apply head_ok_const; reflexivity]).
  - destruct (dec_Z_shape z) as (c & t & He & Hc & _). exists c, t. split; [exact He|].
    unfold head_ok, is_ws. repeat split; try lia.
    repeat (apply orb_false_iff; split); apply N.eqb_neq; lia.
  - cbn [rt_domain_f] in Hd. destruct (float_token_shape t Hd) as (c & r & -> & Hc & _).
    exists c, r. split; [reflexivity|].
    unfold head_ok, is_ws. repeat split; try lia.
    repeat (apply orb_false_iff; split); apply N.eqb_neq; lia.
Qed.

Lemma no_num_head_nl ind lvl c rest : is_numchar c = false -> no_num_head (nl ind lvl ++ c :: rest).
Proof. intro H. unfold nl. destruct (ind =? 0); cbn; [exact H|reflexivity]. Qed.

Lemma need_in l v : In v l -> (need v <= fold_right (fun x a => (need x + a)%nat) 0%nat l)%nat.
Proof.
  induction l as [|x l IH]; intros []; cbn [fold_right].
  - subst. lia.
  - specialize (IH H). lia.
Qed.

Lemma need_in_obj (m : list (str * jvalue)) kv : In kv m ->
  (need (snd kv) <= fold_right (fun kv a => match kv with (_, x) => (need x + a)%nat end) 0%nat m)%nat.
Proof.
  induction m as [|[k x] m IH]; intros []; cbn [fold_right].
  - subst. cbn [snd]. lia.
  - specialize (IH H). lia.
Qed.

Definition reads_back (f : nat) (ind : N) (lvl : nat) (v : jvalue) : Prop :=
  forall rest, no_num_head rest -> parse_val f (enc ind lvl v ++ rest) = Some (reclass v, rest).

Lemma elems_ok f ind lvl rest : forall xs x acc n w,
  forallb is_ws w = true -> (length xs < n)%nat ->
  Forall (reads_back f ind (S lvl)) (x :: xs) ->
  elems_loop (parse_val f) n
    (w ++ enc ind (S lvl) x ++ arr_tail ind lvl xs ++ nl ind lvl ++ 93 :: rest) acc
  = Some (JArr (rev acc ++ map reclass (x :: xs)), rest).
Proof.
  induction xs as [|y ys IH]; intros x acc n w Hw Hn Hall; (destruct n as [|n']; [cbn in Hn; lia|]);
    inversion Hall as [|? ? Hx Hxs]; subst; cbn [elems_loop].
  - rewrite (parse_val_skip f _ (enc ind (S lvl) x ++ arr_tail ind lvl [] ++ nl ind lvl ++ 93 :: rest))
      by (apply skip_ws_app_ws; exact Hw).
    cbn [arr_tail flat_map app].
    rewrite (Hx _ (no_num_head_nl ind lvl 93 rest eq_refl)).
    rewrite (skip_ws_app_ws _ _ (wsb_nl ind lvl)). rewrite skip_ws_head by reflexivity.
    change (93 =? 44) with false. change (93 =? 93) with true. cbv iota.
    cbn [rev]. reflexivity.
  - rewrite (parse_val_skip f _ (enc ind (S lvl) x ++ arr_tail ind lvl (y :: ys) ++ nl ind lvl ++ 93 :: rest))
      by (apply skip_ws_app_ws; exact Hw).
    rewrite arr_tail_cons. cbn [app]. rewrite <- !app_assoc.
    rewrite (Hx (44 :: _)) by reflexivity.
    rewrite skip_ws_head by reflexivity. change (44 =? 44) with true. cbv iota.
    rewrite (IH y (reclass x :: acc) n' (nl ind (S lvl)) (wsb_nl _ _) ltac:(cbn in Hn; lia) Hxs).
    cbn [rev map]. rewrite <- app_assoc. reflexivity.
Qed.

Lemma colon_shape ind : exists w, forallb is_ws w = true /\ colon ind = 58 :: w.
Proof. unfold colon. destruct (ind =? 0); [exists []|exists [32]]; split; reflexivity. Qed.

Lemma members_ok f ind lvl rest : forall xs k x acc n w,
  forallb is_ws w = true -> (length xs < n)%nat ->
  valid_utf8 k = true -> Forall (fun kv => valid_utf8 (fst kv) = true) xs ->
  Forall (reads_back f ind (S lvl)) (x :: map snd xs) ->
  members_loop (parse_val f) n
    (w ++ enc_string k ++ colon ind ++ enc ind (S lvl) x ++ obj_tail ind lvl xs ++ nl ind lvl ++ 125 :: rest) acc
  = Some (JObj (rev acc ++ map (fun kv => match kv with (k, x) => (k, reclass x) end) ((k, x) :: xs)), rest).
Proof.
  induction xs as [|[k' y] ys IH]; intros k x acc n w Hw Hn Hk Hks Hall; (destruct n as [|n']; [cbn in Hn; lia|]);
    inversion Hall as [|? ? Hx Hxs]; subst; cbn [members_loop];
    rewrite (skip_ws_app_ws _ _ Hw); unfold enc_string; cbn [app]; rewrite <- !app_assoc;
    rewrite skip_ws_head by reflexivity; change (34 =? 34) with true; cbv iota;
    cbn [app]; rewrite dec_enc_body, (valid_sanitize _ Hk);
    destruct (colon_shape ind) as (cw & Hcw & ->); cbn [app];
    rewrite skip_ws_head by reflexivity; change (58 =? 58) with true; cbv iota.
  - rewrite (parse_val_skip f _ (enc ind (S lvl) x ++ obj_tail ind lvl [] ++ nl ind lvl ++ 125 :: rest))
      by (apply skip_ws_app_ws; exact Hcw).
    cbn [obj_tail flat_map app].
    rewrite (Hx _ (no_num_head_nl ind lvl 125 rest eq_refl)).
    rewrite (skip_ws_app_ws _ _ (wsb_nl ind lvl)). rewrite skip_ws_head by reflexivity.
    change (125 =? 44) with false. change (125 =? 125) with true. cbv iota.
    cbn [rev]. reflexivity.
  - rewrite (parse_val_skip f _ (enc ind (S lvl) x ++ obj_tail ind lvl ((k', y) :: ys) ++ nl ind lvl ++ 125 :: rest))
      by (apply skip_ws_app_ws; exact Hcw).
    rewrite obj_tail_cons. cbn [app]. rewrite <- !app_assoc.
    rewrite (Hx (44 :: _)) by reflexivity.
    rewrite skip_ws_head by reflexivity. change (44 =? 44) with true. cbv iota.
    inversion Hks as [|? ? Hk' Hks']; subst. cbn [fst] in Hk'. cbn [map snd] in Hxs.
    rewrite (IH k' y ((k, reclass x) :: acc) n' (nl ind (S lvl)) (wsb_nl _ _) ltac:(cbn in Hn; lia) Hk' Hks' Hxs).
    cbn [rev map]. rewrite <- app_assoc. reflexivity.
Qed.

Lemma read_back : forall v ind lvl fuel,
  (need v <= fuel)%nat -> rt_domain_f v = true -> reads_back fuel ind lvl v.
Proof.
  induction v as [| b | z | t | s | l IH | m IH] using jvalue_ind';
    intros ind lvl fuel Hfuel Hdom rest Hrest; (destruct fuel as [|f]; [cbn in Hfuel; lia|]).
  - apply pv_null.
  - destruct b; [apply pv_true|apply pv_false].
  - cbn [enc rt_domain_f] in *. apply andb_true_iff in Hdom as [Hd1 Hd2]. apply Z.leb_le in Hd1. apply Z.ltb_lt in Hd2.
    assert (Hdom : (- Z.of_N two63 <= z < Z.of_N two63)%Z) by lia.
    destruct (dec_Z_shape z) as (c & t & He & Hc & Hall).
    rewrite He. cbn [app]. rewrite (pv_num f c _ Hc).
    change (c :: t ++ rest) with ((c :: t) ++ rest). rewrite <- He.
    rewrite (span_num_app _ _ Hall Hrest), (classify_dec_Z z Hdom). reflexivity.
  - cbn [enc rt_domain_f reclass] in *. destruct (float_token_shape t Hdom) as (c & r & Et & Hc & Hall & w & Hw).
    rewrite Et. cbn [app]. rewrite (pv_num f c _ Hc).
    change (c :: r ++ rest) with ((c :: r) ++ rest). rewrite <- Et.
    rewrite (span_num_app _ _ Hall Hrest), Hw. reflexivity.
  - cbn [enc rt_domain_f] in *. unfold enc_string. cbn [app]. rewrite pv_str, <- app_assoc.
    cbn [app]. rewrite dec_enc_body, (valid_sanitize _ Hdom). reflexivity.
  - destruct l as [|x xs]; [reflexivity|].
    rewrite enc_arr_cons. cbn [app]. rewrite pv_arr, <- !app_assoc.
    rewrite (skip_ws_app_ws _ _ (wsb_nl ind (S lvl))).
    cbn [rt_domain_f] in Hdom. pose proof Hdom as Hdom'.
    cbn [forallb] in Hdom'. apply andb_true_iff in Hdom' as [Hdx Hdxs].
    destruct (enc_head ind (S lvl) x Hdx) as (c & t & He & Hws & H93 & H125).
    rewrite He. cbn [app]. rewrite (skip_ws_head _ _ Hws).
    apply N.eqb_neq in H93. rewrite H93.
    change (c :: t ++ ?r) with ((c :: t) ++ r). rewrite <- He. cbn [app].
    cbn [need] in Hfuel.
    assert (Hall : Forall (reads_back f ind (S lvl)) (x :: xs)).
    { apply Forall_forall. intros v Hv. rewrite Forall_forall in IH.
      apply (IH v Hv).
      - pose proof (need_in (x :: xs) v Hv). cbn [length] in Hfuel. lia.
      - rewrite forallb_forall in Hdom. apply Hdom. exact Hv. }
    exact (elems_ok f ind lvl rest xs x [] f [] eq_refl ltac:(cbn [length] in Hfuel; lia) Hall).
  - destruct m as [|[k x] xs]; [reflexivity|].
    rewrite enc_obj_cons. cbn [app]. rewrite pv_obj, <- !app_assoc.
    rewrite (skip_ws_app_ws _ _ (wsb_nl ind (S lvl))).
    cbn [rt_domain_f] in Hdom. pose proof Hdom as Hdom'.
    cbn [forallb fst snd] in Hdom'. apply andb_true_iff in Hdom' as [Hdx Hdxs].
    apply andb_true_iff in Hdx as [Hk Hdx].
    unfold enc_string at 1. cbn [app]. rewrite skip_ws_head by reflexivity.
    change (34 =? 125) with false. cbv iota.
    cbn [need] in Hfuel.
    assert (Hks : Forall (fun kv => valid_utf8 (fst kv) = true) xs).
    { apply Forall_forall. intros kv Hkv. rewrite forallb_forall in Hdxs.
      specialize (Hdxs kv Hkv). apply andb_true_iff in Hdxs. tauto. }
    assert (Hall : Forall (reads_back f ind (S lvl)) (x :: map snd xs)).
    { apply Forall_forall. intros v Hv.
      assert (Hin : exists kv, In kv ((k, x) :: xs) /\ snd kv = v).
      { destruct Hv as [<-|Hv]; [exists (k, x); split; [left; reflexivity|reflexivity]|].
        apply in_map_iff in Hv as (kv & Hs & Hkv). exists kv. split; [right; exact Hkv|exact Hs]. }
      destruct Hin as (kv & Hkv & <-).
      rewrite Forall_forall in IH. apply (IH kv Hkv).
      - pose proof (need_in_obj ((k, x) :: xs) kv Hkv). cbn [length] in Hfuel. lia.
      - rewrite forallb_forall in Hdom. specialize (Hdom kv Hkv). apply andb_true_iff in Hdom. tauto. }
    exact (members_ok f ind lvl rest xs k x [] f [] eq_refl ltac:(cbn [length] in Hfuel; lia) Hk Hks Hall).
Qed.

Lemma need_le_length : forall v ind lvl, rt_domain_f v = true -> (need v <= length (enc ind lvl v))%nat.
Proof.
  induction v as [| b | z | t | s | l IH | m IH] using jvalue_ind'; intros ind lvl Hdom.
  - cbn. lia.
  - destruct b; cbn; lia.
  - cbn [need enc]. destruct (dec_Z_shape z) as (c & t & -> & _). cbn [length]. lia.
  - cbn [need enc rt_domain_f] in *. destruct (float_token_shape t Hdom) as (c & r & -> & _). cbn [length]. lia.
  - cbn [need enc]. unfold enc_string. cbn [length]. lia.
  - destruct l as [|x xs]; [cbn; lia|].
    rewrite enc_arr_cons. cbn [need rt_domain_f] in *.
    assert (H : forall ys, Forall (fun v => forall ind lvl, rt_domain_f v = true -> (need v <= length (enc ind lvl v))%nat) ys ->
                forallb rt_domain_f ys = true ->
                (length ys + fold_right (fun x a => (need x + a)%nat) 0%nat ys <= length (arr_tail ind lvl ys))%nat).
    { induction ys as [|y ys IHys]; intros Hall Hd; [cbn; lia|].
      inversion Hall as [|? ? Hy Hys]; subst. cbn [forallb] in Hd. apply andb_true_iff in Hd as [Hdy Hdys].
      rewrite arr_tail_cons. cbn [length fold_right]. rewrite !app_length.
      specialize (Hy ind (S lvl) Hdy). specialize (IHys Hys Hdys). lia. }
    inversion IH as [|? ? IHx IHxs]; subst. cbn [forallb] in Hdom. apply andb_true_iff in Hdom as [Hdx Hdxs].
    specialize (IHx ind (S lvl) Hdx). specialize (H xs IHxs Hdxs).
    cbn [length fold_right]. rewrite !app_length. cbn [length]. lia.
  - destruct m as [|[k x] xs]; [cbn; lia|].
    rewrite enc_obj_cons. cbn [need rt_domain_f] in *.
    assert (H : forall ys, Forall (fun kv => forall ind lvl, rt_domain_f (snd kv) = true -> (need (snd kv) <= length (enc ind lvl (snd kv)))%nat) ys ->
                forallb (fun kv => valid_utf8 (fst kv) && rt_domain_f (snd kv)) ys = true ->
                (length ys + fold_right (fun kv a => match kv with (_, x) => (need x + a)%nat end) 0%nat ys <= length (obj_tail ind lvl ys))%nat).
    { induction ys as [|[k' y] ys IHys]; intros Hall Hd; [cbn; lia|].
      inversion Hall as [|? ? Hy Hys]; subst. cbn [forallb fst snd] in Hd. apply andb_true_iff in Hd as [Hdy Hdys].
      apply andb_true_iff in Hdy as [_ Hdy]. cbn [snd] in Hy.
      rewrite obj_tail_cons. cbn [length fold_right]. rewrite !app_length.
      specialize (Hy ind (S lvl) Hdy). specialize (IHys Hys Hdys). lia. }
    inversion IH as [|? ? IHx IHxs]; subst. cbn [forallb fst snd] in Hdom. apply andb_true_iff in Hdom as [Hdx Hdxs].
    apply andb_true_iff in Hdx as [_ Hdx]. cbn [snd] in IHx.
    specialize (IHx ind (S lvl) Hdx). specialize (H xs IHxs Hdxs).
    cbn [length fold_right]. rewrite !app_length. cbn [length]. lia.
Qed.

Lemma decode_encode_f v ind : rt_domain_f v = true -> parse_json (enc_top ind v) = Ok (reclass v).
Proof.
  intro Hdom. unfold parse_json, enc_top.
  rewrite (read_back v ind 0%nat _); [reflexivity| |exact Hdom|reflexivity].
  pose proof (need_le_length v ind 0%nat Hdom). rewrite app_length. lia.
Qed.

Lemma rt_domain_reclass : forall v, rt_domain v = true -> rt_domain_f v = true /\ reclass v = v.
Proof.
  induction v as [| b | z | t | s | l IH | m IH] using jvalue_ind'; intro H; try (split; [exact H|reflexivity]).
  - discriminate.
  - cbn [rt_domain rt_domain_f reclass] in *.
    assert (forallb rt_domain_f l = true /\ map reclass l = l) as [H1 H2].
    { induction IH as [|x xs Hx Hxs IHxs]; [split; reflexivity|].
      cbn [forallb] in H. apply andb_true_iff in H as [Hx0 Hxs0].
      destruct (Hx Hx0) as [A B]. destruct (IHxs Hxs0) as [C D]. cbn [forallb map]. rewrite A, B, C, D. split; reflexivity. }
    rewrite H1, H2. split; reflexivity.
  - cbn [rt_domain rt_domain_f reclass] in *.
    assert (forallb (fun kv => valid_utf8 (fst kv) && rt_domain_f (snd kv)) m = true
            /\ map (fun kv : str * jvalue => let (k, x) := kv in (k, reclass x)) m = m) as [H1 H2].
    { induction IH as [|[k x] xs Hx Hxs IHxs]; [split; reflexivity|].
      cbn [forallb fst snd] in H. apply andb_true_iff in H as [Hx0 Hxs0]. apply andb_true_iff in Hx0 as [Hk Hx0].
      cbn [snd] in Hx. destruct (Hx Hx0) as [A B]. destruct (IHxs Hxs0) as [C D].
      cbn [forallb map fst snd]. rewrite Hk, A, B, C, D. split; reflexivity. }
    rewrite H1, H2. split; reflexivity.
Qed.

Lemma decode_encode v ind : rt_domain v = true -> parse_json (enc_top ind v) = Ok v.
Proof.
  intro Hdom. destruct (rt_domain_reclass v Hdom) as [Hf Hr]. rewrite (decode_encode_f v ind Hf), Hr. reflexivity.
Qed.

(* ------------------------------------------------------------------ *)
(* scalar mapping                                                      *)
(* ------------------------------------------------------------------ *)

Lemma parse_int64_dec_Z z : (- Z.of_N two63 <= z < Z.of_N two63)%Z -> parse_int64 (dec_Z z) = Some z.
Proof.
  intro Hz. unfold two63 in Hz. unfold parse_int64, dec_Z.
  destruct (dec_N_nonempty (Z.abs_N z)) as (d & t & He & Hd & Ht).
  pose proof (dec_N_digits (Z.abs_N z)) as Hall.
  pose proof (dec_N_val (Z.abs_N z)) as Hval.
  assert (Ht2 : forall x, 58 <= x -> is_prefix [48; x] (d :: t) = false).
  { intros x Hx. cbn [is_prefix]. destruct t as [|d2 t2]; [apply andb_false_r|].
    cbn [all_digits] in Ht. apply andb_true_iff in Ht as [Hd2 _]. apply is_digit_spec in Hd2.
    replace (x =? d2) with false by (symmetry; apply N.eqb_neq; lia).
    cbn. apply andb_false_r. }
  destruct (z <? 0)%Z eqn:Hneg.
  - apply Z.ltb_lt in Hneg. unfold remove_us. cbn [filter]. change (negb (45 =? 95)) with true. cbv iota.
    rewrite (filter_id _ _ (all_digits_no_us _ Hall)).
    cbn [is_prefix]. change (48 =? 45) with false. cbn [andb orb].
    unfold go_parse_int. change (45 =? 45) with true. cbn [orb]. cbv iota. cbv zeta.
    rewrite (parse_unsigned_digits _ 0 Hall), Hval. rewrite He.
    replace (Z.abs_N z <=? two63) with true by (symmetry; apply N.leb_le; unfold two63; lia).
    f_equal. lia.
  - apply Z.ltb_ge in Hneg. unfold remove_us.
    rewrite (filter_id _ _ (all_digits_no_us _ Hall)). rewrite He.
    rewrite (Ht2 120 ltac:(lia)), (Ht2 88 ltac:(lia)), (Ht2 111 ltac:(lia)). cbn [orb].
    unfold go_parse_int.
    replace (d =? 45) with false by (symmetry; apply N.eqb_neq; lia).
    replace (d =? 43) with false by (symmetry; apply N.eqb_neq; lia).
    cbn [orb]. cbv zeta. cbv iota.
    rewrite <- He. rewrite (parse_unsigned_digits _ 0 Hall), Hval.
    replace (Z.abs_N z <? two63) with true by (symmetry; apply N.ltb_lt; unfold two63; lia).
    f_equal. lia.
Qed.

Lemma mapM_ok {A B} (f : A -> res B) : forall l vs, mapM f l = Ok vs ->
  length l = length vs /\ forall i a, nth_error l i = Some a -> exists b, nth_error vs i = Some b /\ f a = Ok b.
Proof.
  induction l as [|x xs IH]; intros vs H.
  - injection H as <-. split; [reflexivity|]. intros [|i] a Ha; discriminate.
  - cbn [mapM] in H. destruct (f x) as [v|e] eqn:Hx; [|discriminate].
    fold (mapM f xs) in H. destruct (mapM f xs) as [vs0|e] eqn:Hxs; [|discriminate].
    injection H as <-. destruct (IH vs0 eq_refl) as [Hlen Hnth].
    split; [cbn [length]; lia|]. intros [|i] a Ha; cbn [nth_error] in *.
    + injection Ha as <-. exists v. split; [reflexivity|exact Hx].
    + apply Hnth. exact Ha.
Qed.

Lemma mapM_map {A B} (f : A -> res B) (g : B -> A) l :
  Forall (fun b => f (g b) = Ok b) l -> mapM f (map g l) = Ok l.
Proof.
  induction 1 as [|b l Hb Hl IH]; [reflexivity|].
  cbn [map mapM]. rewrite Hb. fold (mapM f (map g l)). rewrite IH. reflexivity.
Qed.

Lemma to_json_of_json ff : forall v, int64_domain v = true -> to_json ff (of_json v) = Ok v.
Proof.
  induction v as [| b | z | t | s | l IH | m IH] using jvalue_ind'; intro Hd.
  - reflexivity.
  - destruct b; reflexivity.
  - cbn [of_json to_json]. unfold scalar_rep.
    change (is_prefix [33; 33] t_int) with true. change (str_eqb t_int t_int) with true. cbv iota.
    cbn [int64_domain] in Hd. apply andb_true_iff in Hd as [H1 H2]. apply Z.leb_le in H1. apply Z.ltb_lt in H2.
    rewrite parse_int64_dec_Z by lia. reflexivity.
  - discriminate.
  - reflexivity.
  - cbn [of_json to_json int64_domain] in *. rewrite (mapM_map (to_json ff) of_json l); [reflexivity|].
    rewrite Forall_forall in *. intros v Hv. apply IH; [exact Hv|].
    rewrite forallb_forall in Hd. apply Hd. exact Hv.
  - cbn [of_json to_json int64_domain] in *.
    rewrite (mapM_map (fun kx : str * node => let (k, x) := kx in bind (to_json ff x) (fun v => Ok (k, v)))
                      (fun kv => (fst kv, of_json (snd kv))) m); [reflexivity|].
    rewrite Forall_forall in *. intros [k v] Hv. cbn [fst snd].
    pose proof (IH (k, v) Hv) as IHv. cbn [snd] in IHv.
    rewrite IHv; [reflexivity|].
    rewrite forallb_forall in Hd. apply (Hd (k, v)). exact Hv.
Qed.

Lemma scalar_rep_floats ff (P : str -> Prop) tag value v :
  (forall t o, ff t = Ok o -> P o) -> scalar_rep ff tag value = Ok v -> floats_ok P v.
Proof.
  intros Hff H. unfold scalar_rep in H.
  destruct (is_prefix [33; 33] tag).
  - destruct (str_eqb tag t_int).
    { destruct (parse_int64 value); [injection H as <-; exact I|discriminate]. }
    destruct (str_eqb tag t_float).
    { unfold float_token in H. destruct (go_float_numeric value) as [[|]|]; try discriminate.
      destruct (ff value) as [o|e] eqn:Ho; [|discriminate]. injection H as <-. cbn. exact (Hff _ _ Ho). }
    destruct (str_eqb tag t_bool); [injection H as <-; exact I|].
    destruct (str_eqb tag t_null); [injection H as <-; exact I|].
    injection H as <-. exact I.
  - destruct value; [injection H as <-; exact I|discriminate].
Qed.

Lemma to_json_floats ff (P : str -> Prop) : (forall t o, ff t = Ok o -> P o) ->
  forall n v, to_json ff n = Ok v -> floats_ok P v.
Proof.
  intro Hff. induction n as [t v0 | l IH | m IH | t IH | ] using node_ind'; intros v H.
  - exact (scalar_rep_floats ff P _ _ _ Hff H).
  - cbn [to_json] in H. destruct (mapM (to_json ff) l) as [vs|e] eqn:Hm; [|discriminate].
    cbn [bind] in H. injection H as <-. cbn [floats_ok].
    revert vs Hm. induction IH as [|x xs Hx Hxs IHxs]; intros vs Hm.
    + injection Hm as <-. exact I.
    + cbn [mapM] in Hm. destruct (to_json ff x) as [v1|e] eqn:H1; [|discriminate].
      fold (mapM (to_json ff) xs) in Hm. destruct (mapM (to_json ff) xs) as [vs1|e] eqn:H2; [|discriminate].
      injection Hm as <-. cbn [fold_right]. split; [apply Hx; reflexivity|apply IHxs; reflexivity].
  - cbn [to_json] in H.
    set (f := fun kx : str * node => let (k, x) := kx in bind (to_json ff x) (fun v => Ok (k, v))) in *.
    destruct (mapM f m) as [vs|e] eqn:Hm; [|discriminate].
    cbn [bind] in H. injection H as <-. cbn [floats_ok].
    revert vs Hm. induction IH as [|[k x] xs Hx Hxs IHxs]; intros vs Hm.
    + injection Hm as <-. exact I.
    + cbn [mapM] in Hm. unfold f at 1 in Hm. cbn [snd] in Hx.
      destruct (to_json ff x) as [v1|e] eqn:H1; [|discriminate]. cbn [bind] in Hm.
      fold (mapM f xs) in Hm. destruct (mapM f xs) as [vs1|e] eqn:H2; [|discriminate].
      injection Hm as <-. cbn [fold_right]. split; [apply Hx; reflexivity|apply IHxs; reflexivity].
  - cbn [to_json] in H. apply IH. exact H.
  - injection H as <-. exact I.
Qed.

Lemma yq_encode_valid ff ind uw n out :
  (forall t o, ff t = Ok o -> jnumber o) ->
  uw = false \/ is_scalar n = false ->
  yq_encode ff ind uw n = Ok out -> json_text out.
Proof.
  intros Hff Hcfg H.
  assert (Hb : bind (to_json ff n) (fun v => Ok (enc_top ind v)) = Ok out).
  { destruct n, uw; try exact H; destruct Hcfg; discriminate. }
  destruct (to_json ff n) as [v|e] eqn:Hv; [|discriminate].
  cbn [bind] in Hb. injection Hb as <-.
  apply enc_top_valid. exact (to_json_floats ff jnumber Hff n v Hv).
Qed.

Lemma nonfinite_errors ff t : In t yaml_nonfinite -> scalar_rep ff t_float t = Err EFloat.
Proof.
  intro H. cbn [yaml_nonfinite In] in H.
  repeat (destruct H as [<-|H]; [reflexivity|]). destruct H.
Qed.

Lemma string_exact s ind : parse_json (enc_top ind (JStr s)) = Ok (JStr (sanitize s)).
Proof.
  unfold parse_json, enc_top. cbn [enc]. unfold enc_string. cbn [app]. rewrite pv_str, <- app_assoc.
  cbn [app]. rewrite dec_enc_body. reflexivity.
Qed.

Lemma int_exact_yaml ff z : (- Z.of_N two63 <= z < Z.of_N two63)%Z ->
  to_json ff (NScalar t_int (dec_Z z)) = Ok (JInt z).
Proof.
  intro Hz. cbn [to_json]. unfold scalar_rep.
  change (is_prefix [33; 33] t_int) with true. change (str_eqb t_int t_int) with true. cbv iota.
  rewrite parse_int64_dec_Z by exact Hz. reflexivity.
Qed.

Lemma int_exact_json z ind : (- Z.of_N two63 <= z < Z.of_N two63)%Z -> parse_json (enc_top ind (JInt z)) = Ok (JInt z).
Proof.
  intro Hz. apply decode_encode. cbn [rt_domain]. apply andb_true_iff. split; [apply Z.leb_le|apply Z.ltb_lt]; lia.
Qed.

(* ------------------------------------------------------------------ *)
(* floats: the printer as a contract                                   *)
(* ------------------------------------------------------------------ *)

Section FloatContract.
  Variable fmt : f64 -> res str.
  (* the usual contract of shortest round-trip formatting: what is printed
     for a binary64 is a number token that ParseFloat maps back to it *)
  Hypothesis H_fmt : forall f t, fmt f = Ok t -> float_token_ok t = true /\ token_value t = Some f.

  Lemma float_scalar_value x v :
    to_json (ff_of fmt) (NScalar t_float x) = Ok v ->
    exists f t, v = JFloat t /\ go_parse_float x = Some f /\ token_value t = Some f /\ float_token_ok t = true.
  Proof.
    cbn [to_json]. unfold scalar_rep.
    change (is_prefix [33; 33] t_float) with true. change (str_eqb t_float t_int) with false.
    change (str_eqb t_float t_float) with true. cbv iota.
    unfold float_token. destruct (go_float_numeric x) as [[|]|]; try discriminate.
    unfold ff_of. destruct (go_parse_float x) as [f|] eqn:Hp; [|discriminate].
    destruct (fmt f) as [t|e] eqn:Hf; [|discriminate]. intro H. injection H as <-.
    destruct (H_fmt f t Hf) as [H1 H2]. exists f, t. repeat split; assumption.
  Qed.

  (* YAML float text -> JSON -> reader: the token that comes back denotes the
     binary64 of the YAML text, or is the int64 integer the reader made of it *)
  Lemma float_through_json x v ind :
    to_json (ff_of fmt) (NScalar t_float x) = Ok v ->
    exists f t, go_parse_float x = Some f /\ token_value t = Some f
                /\ parse_json (enc_top ind v) = Ok (reclass (JFloat t)).
  Proof.
    intro H. destruct (float_scalar_value x v H) as (f & t & -> & Hp & Hv & Hok).
    exists f, t. split; [exact Hp|]. split; [exact Hv|]. apply decode_encode_f. exact Hok.
  Qed.
End FloatContract.
