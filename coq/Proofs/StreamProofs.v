(* Proofs/StreamProofs.v -- lemmas about Model/Printer.v and Model/Stream.v
   against Spec/StreamSpec.v (property C10). *)
From Coq Require Import List NArith Bool Lia.
From YQ Require Import Base.Str Model.Printer Model.Stream Spec.StreamSpec.
Import ListNotations.
Open Scope N_scope.

(* ------------------------------------------------------------------ *)
(* printer                                                             *)
(* ------------------------------------------------------------------ *)
Section PrinterFacts.
Variable R : Type.
Variable pfail : res R -> bool.

Definition att (fi cur : N) (r : res R) : Prop := r_doc r = cur /\ r_file r = fi.

Lemma strip_sep_app (a b : list (event R)) : strip_sep (a ++ b) = strip_sep a ++ strip_sep b.
Proof. unfold strip_sep. apply filter_app. Qed.

Lemma strip_doc_sep cfg : strip_sep (@doc_sep R cfg) = [].
Proof. unfold doc_sep. destruct (print_seps cfg); reflexivity. Qed.

(* results of the document the printer state already points at: no separator, state unchanged *)
Lemma loop_same cfg fi cur : forall rs st j,
  prev_doc st = cur -> prev_file st = fi -> Forall (att fi cur) rs ->
  print_loop pfail cfg st j rs = (st, fst (chunk pfail cfg j rs), snd (chunk pfail cfg j rs)).
Proof.
  induction rs as [|r rs IH]; intros st j Hd Hf Ha; cbn [print_loop chunk fst snd].
  - reflexivity.
  - inversion Ha as [|? ? [Hrd Hrf] Ha']; subst.
    destruct (pfail r); [reflexivity|].
    unfold print_one, need_sep. rewrite Hrd, Hrf.
    rewrite !N.eqb_refl. cbn [negb orb andb].
    assert (Hst : mkPs (first_time st) (prev_doc st) (prev_file st) = st)
      by (destruct st; reflexivity).
    rewrite Hst. rewrite (IH st (j + 1) eq_refl eq_refl Ha').
    destruct (chunk pfail cfg (j + 1) rs) as [e s]. reflexivity.
Qed.

(* the separator rule for the results of one document, all reporting its position *)
Lemma print_results_att cfg fi cur st r0 rs :
  Forall (att fi cur) (r0 :: rs) ->
  (first_time st = false -> prev_doc st <> cur \/ prev_file st <> fi) ->
  pfail r0 = false ->
  print_results pfail cfg st (r0 :: rs) =
    (mkPs false cur fi,
     (if negb (first_time st) && negb (starts_with_sep (r_lead r0)) then doc_sep cfg else [])
       ++ fst (chunk pfail cfg 0 (r0 :: rs)),
     snd (chunk pfail cfg 0 (r0 :: rs))).
Proof.
  intros Ha Hdiff Hpf.
  inversion Ha as [|? ? [Hrd Hrf] Ha']; subst.
  unfold print_results. destruct (first_time st) eqn:Hft.
  - rewrite (loop_same cfg (r_file r0) (r_doc r0) (r0 :: rs) (mkPs false (r_doc r0) (r_file r0)) 0 eq_refl eq_refl Ha).
    cbn [negb andb app]. reflexivity.
  - cbn [print_loop]. rewrite Hpf.
    unfold print_one. cbn [chunk fst snd]. rewrite Hpf.
    assert (Hneed : need_sep st r0 = negb (starts_with_sep (r_lead r0))).
    { unfold need_sep. destruct (Hdiff eq_refl) as [H|H].
      - apply N.eqb_neq in H. rewrite H. reflexivity.
      - apply N.eqb_neq in H. rewrite H. rewrite orb_true_r. reflexivity. }
    rewrite Hneed. cbn [negb andb]. rewrite Hft.
    rewrite (loop_same cfg (r_file r0) (r_doc r0) rs (mkPs false (r_doc r0) (r_file r0)) (0 + 1) eq_refl eq_refl Ha').
    destruct (chunk pfail cfg (0 + 1) rs) as [e s]. cbn [fst snd].
    rewrite <- app_assoc. reflexivity.
Qed.

(* whatever the state, the printer contributes only separators *)
Lemma loop_strip cfg : forall rs st j,
  strip_sep (snd (fst (print_loop pfail cfg st j rs))) = strip_sep (fst (chunk pfail cfg j rs))
  /\ snd (print_loop pfail cfg st j rs) = snd (chunk pfail cfg j rs).
Proof.
  induction rs as [|r rs IH]; intros st j; cbn [print_loop chunk fst snd].
  - split; reflexivity.
  - destruct (pfail r); [split; reflexivity|].
    unfold print_one.
    specialize (IH (mkPs (first_time st) (r_doc r) (r_file r)) (j + 1)).
    destruct (print_loop pfail cfg _ (j + 1) rs) as [[st2 e2] s2].
    destruct (chunk pfail cfg (j + 1) rs) as [e s]. cbn [fst snd] in *.
    destruct IH as [IH1 IH2]. split; [|exact IH2].
    rewrite !strip_sep_app, IH1.
    destruct (need_sep st r); [rewrite strip_doc_sep|]; reflexivity.
Qed.

Lemma print_results_strip cfg st rs :
  strip_sep (snd (fst (print_results pfail cfg st rs))) = strip_sep (fst (chunk pfail cfg 0 rs))
  /\ snd (print_results pfail cfg st rs) = snd (chunk pfail cfg 0 rs).
Proof.
  unfold print_results. destruct rs as [|r0 rs]; [split; reflexivity|].
  apply loop_strip.
Qed.

Lemma print_results_nil cfg st : print_results pfail cfg st [] = (st, [], Done).
Proof. reflexivity. Qed.

(* first_time after a successful call *)
Lemma loop_first cfg : forall rs st j,
  first_time (fst (fst (print_loop pfail cfg st j rs))) = first_time st.
Proof.
  induction rs as [|r rs IH]; intros st j; cbn [print_loop fst snd]; [reflexivity|].
  destruct (pfail r); [reflexivity|].
  unfold print_one.
  specialize (IH (mkPs (first_time st) (r_doc r) (r_file r)) (j + 1)).
  destruct (print_loop pfail cfg _ (j + 1) rs) as [[st2 e2] s2]. cbn [fst snd] in *. exact IH.
Qed.

Lemma print_results_first cfg st rs :
  first_time (fst (fst (print_results pfail cfg st rs))) = first_time st && is_nil rs.
Proof.
  unfold print_results. destruct rs as [|r0 rs]; cbn [is_nil fst].
  - rewrite andb_true_r. reflexivity.
  - rewrite loop_first. rewrite andb_false_r. destruct (first_time st) eqn:H; [reflexivity | exact H].
Qed.

(* ---------------- the join ---------------- *)
Definition jev (x : list (event R) * bool * status) := fst (fst x).
Definition jbf (x : list (event R) * bool * status) := snd (fst x).
Definition jst (x : list (event R) * bool * status) := snd x.

Lemma join_sep_app cfg : forall l1 l2 before,
  join_sep pfail cfg before (l1 ++ l2) =
    match jst (join_sep pfail cfg before l1) with
    | Failed => join_sep pfail cfg before l1
    | Done =>
        (jev (join_sep pfail cfg before l1) ++ jev (join_sep pfail cfg (jbf (join_sep pfail cfg before l1)) l2),
         jbf (join_sep pfail cfg (jbf (join_sep pfail cfg before l1)) l2),
         jst (join_sep pfail cfg (jbf (join_sep pfail cfg before l1)) l2))
    end.
Proof.
  induction l1 as [|o l1 IH]; intros l2 before.
  - cbn [app join_sep jst jev jbf fst snd].
    destruct (join_sep pfail cfg before l2) as [[e b] s]. reflexivity.
  - cbn [app]. destruct o as [[|r0 rs]|].
    + cbn [join_sep]. apply IH.
    + cbn [join_sep]. destruct (pfail r0); [reflexivity|].
      destruct (chunk pfail cfg 0 (r0 :: rs)) as [e s]. destruct s.
      * rewrite IH.
        destruct (join_sep pfail cfg true l1) as [[e1 b1] s1]. unfold jst, jev, jbf. cbn [fst snd].
        destruct s1; [|reflexivity].
        destruct (join_sep pfail cfg b1 l2) as [[e2 b2] s2]. cbn [fst snd].
        rewrite !app_assoc. reflexivity.
      * reflexivity.
    + reflexivity.
Qed.

Lemma join_sep_cons cfg o rest before :
  join_sep pfail cfg before (o :: rest) =
    match jst (join_sep pfail cfg before [o]) with
    | Failed => join_sep pfail cfg before [o]
    | Done =>
        (jev (join_sep pfail cfg before [o]) ++ jev (join_sep pfail cfg (jbf (join_sep pfail cfg before [o])) rest),
         jbf (join_sep pfail cfg (jbf (join_sep pfail cfg before [o])) rest),
         jst (join_sep pfail cfg (jbf (join_sep pfail cfg before [o])) rest))
    end.
Proof. exact (join_sep_app cfg [o] rest before). Qed.

(* the join of one document *)
Lemma join_one_nil cfg before : join_sep pfail cfg before [Some []] = ([], before, Done).
Proof. reflexivity. Qed.

Lemma join_one_cons cfg before r0 rs :
  pfail r0 = false ->
  join_sep pfail cfg before [Some (r0 :: rs)] =
    ((if before && negb (starts_with_sep (r_lead r0)) then doc_sep cfg else []) ++ fst (chunk pfail cfg 0 (r0 :: rs)),
     true, snd (chunk pfail cfg 0 (r0 :: rs))).
Proof.
  intro Hpf. cbn [join_sep]. rewrite Hpf.
  destruct (chunk pfail cfg 0 (r0 :: rs)) as [e s]. destruct s; cbn [fst snd].
  - rewrite app_nil_r. reflexivity.
  - reflexivity.
Qed.

Lemma join_one_fail cfg before r0 rs :
  pfail r0 = true -> join_sep pfail cfg before [Some (r0 :: rs)] = ([], before, Failed).
Proof. intro Hpf. cbn [join_sep]. rewrite Hpf. reflexivity. Qed.

Lemma chunk_fail_head cfg j r0 rs : pfail r0 = true -> chunk pfail cfg j (r0 :: rs) = ([], Failed).
Proof. intro H. cbn [chunk]. rewrite H. reflexivity. Qed.

(* the join of one document, up to printer separators, is its chunk *)
Lemma join_one_strip cfg before rs :
  strip_sep (jev (join_sep pfail cfg before [Some rs])) = strip_sep (fst (chunk pfail cfg 0 rs))
  /\ jst (join_sep pfail cfg before [Some rs]) = snd (chunk pfail cfg 0 rs).
Proof.
  destruct rs as [|r0 rs]; [split; reflexivity|].
  destruct (pfail r0) eqn:Hpf.
  - rewrite (join_one_fail cfg before r0 rs Hpf), (chunk_fail_head cfg 0 r0 rs Hpf). split; reflexivity.
  - rewrite (join_one_cons cfg before r0 rs Hpf). unfold jev, jst. cbn [fst snd]. split; [|reflexivity].
    rewrite strip_sep_app.
    destruct (before && negb (starts_with_sep (r_lead r0))); [rewrite strip_doc_sep|]; reflexivity.
Qed.

Lemma join_one_bf cfg before rs :
  jst (join_sep pfail cfg before [Some rs]) = Done ->
  jbf (join_sep pfail cfg before [Some rs]) = before || negb (is_nil rs).
Proof.
  destruct rs as [|r0 rs]; cbn [is_nil negb].
  - intros _. cbn. rewrite orb_false_r. reflexivity.
  - destruct (pfail r0) eqn:Hpf.
    + rewrite (join_one_fail cfg before r0 rs Hpf). discriminate.
    + rewrite (join_one_cons cfg before r0 rs Hpf). intros _. unfold jbf. cbn [fst snd].
      rewrite orb_true_r. reflexivity.
Qed.

End PrinterFacts.

Arguments att {R}. Arguments jev {R}. Arguments jbf {R}. Arguments jst {R}.

(* ------------------------------------------------------------------ *)
(* drivers                                                             *)
(* ------------------------------------------------------------------ *)
Section DriverFacts.
Variables P R T : Type.
Variable blank : P.
Variable absorb : list litem -> P -> P.
Variable pfail : res R -> bool.
Variable parentless : res R -> bool.
Variable ev : T -> list (sdoc P) -> option (list (res R)) * T.
Variable t0 : T.

(* the results of the freshly parsed expression on one stamped document, as the
   stream evaluator hands them to the printer *)
Definition fresh (sd : sdoc P) : option (list (res R)) :=
  option_map (List.map (stamp parentless (s_file sd) (s_doc sd))) (fst (ev t0 [sd])).

(* the carried expression tree: whatever the handlers write into it is
   never visible in a later result *)
Variable TInv : T -> Prop.
Hypothesis tinv0 : TInv t0.
Hypothesis tinv_step : forall t ds, TInv t -> TInv (snd (ev t ds)).
Hypothesis tinv_res : forall t ds, TInv t -> fst (ev t ds) = fst (ev t0 ds).

Lemma decode_pre fl : decode blank absorb true fl = decode blank (fun _ b => b) true fl.
Proof. unfold decode. destruct (f_bodies fl); reflexivity. Qed.

Lemma number_docs_length fi name : forall (ds : list (doc P)) k, length (number_docs fi k name ds) = length ds.
Proof. induction ds as [|d ds IH]; intros k; cbn [number_docs length]; [reflexivity|]. rewrite IH. reflexivity. Qed.

Section Chain.
Variable cfg : pcfg.
Variable phi : list (event R) -> list (event R).
Hypothesis phi_app : forall x y, phi (x ++ y) = phi x ++ phi y.
Variable Q : pstate -> N -> N -> Prop.
Hypothesis Q_doc : forall ps fi cur, Q ps fi cur -> Q ps fi (cur + 1).
Hypothesis Q_file : forall ps fi cur, Q ps fi cur -> Q ps (fi + 1) 0.
Hypothesis Hprint : forall ps fi cur name dl db rs,
  Q ps fi cur -> fresh (mkSdoc fi cur name false dl db) = Some rs ->
  phi (snd (fst (print_results pfail cfg ps rs))) = phi (jev (join_sep pfail cfg (negb (first_time ps)) [Some rs]))
  /\ snd (print_results pfail cfg ps rs) = jst (join_sep pfail cfg (negb (first_time ps)) [Some rs])
  /\ (snd (print_results pfail cfg ps rs) = Done -> Q (fst (fst (print_results pfail cfg ps rs))) fi (cur + 1)).

Lemma phi_nil : phi [] = [].
Proof.
  pose proof (phi_app [] []) as H. cbn [app] in H.
  destruct (phi []) as [|x l]; [reflexivity|].
  apply (f_equal (@length _)) in H. rewrite app_length in H. cbn [length] in H. lia.
Qed.

Lemma eval_docs_gen name fi : forall ds cur ps t n ps' t' bs s,
  Q ps fi cur -> TInv t ->
  eval_docs pfail parentless ev cfg name fi cur ds ps t = (n, ps', t', bs, s) ->
  let j := join_sep pfail cfg (negb (first_time ps)) (List.map fresh (number_docs fi cur name ds)) in
  phi (flat bs) = phi (jev j) /\ s = jst j /\ TInv t'
  /\ (s = Done -> negb (first_time ps') = jbf j /\ Q ps' fi n /\ n = cur + N.of_nat (length ds)
                  /\ List.map b_doc bs = number_docs fi cur name ds)
  /\ (ds = [] -> ps' = ps).
Proof.
  induction ds as [|d ds IH]; intros cur ps t n ps' t' bs s HQ Ht E j.
  - cbn [eval_docs] in E. injection E as <- <- <- <- <-. subst j. cbn.
    repeat split; try reflexivity; try assumption. lia.
  - cbn [eval_docs] in E. subst j. cbn [number_docs List.map].
    set (sd := mkSdoc fi cur name false (d_lead d) (d_body d)) in *.
    pose proof (tinv_res t [sd] Ht) as Hres. pose proof (tinv_step t [sd] Ht) as Hstep.
    destruct (ev t [sd]) as [o t1] eqn:Eev. cbn [fst snd] in Hres, Hstep.
    assert (Hf : fresh sd = option_map (List.map (stamp parentless fi cur)) o)
      by (unfold fresh; rewrite <- Hres; reflexivity).
    rewrite (join_sep_cons R pfail cfg (fresh sd)). rewrite Hf.
    destruct o as [rs0|]; cbn [option_map] in *.
    + set (rs := List.map (stamp parentless fi cur) rs0) in *.
      destruct (Hprint ps fi cur name (d_lead d) (d_body d) rs HQ Hf) as (Hp1 & Hp2 & Hp3).
      pose proof (print_results_first R pfail cfg ps rs) as Hfirst.
      destruct (print_results pfail cfg ps rs) as [[ps1 es] s1] eqn:Epr. cbn [fst snd] in *.
      destruct s1.
      * (* printed; go on *)
        destruct (eval_docs pfail parentless ev cfg name fi (cur + 1) ds ps1 t1) as [[[[n2 ps2] t2] bs2] s2] eqn:Erec.
        injection E as <- <- <- <- <-.
        specialize (IH (cur + 1) ps1 t1 n2 ps2 t2 bs2 s2 (Hp3 eq_refl) Hstep Erec).
        cbn zeta in IH. destruct IH as (I1 & I2 & I3 & I4 & I5).
        rewrite <- Hp2.
        assert (Hbf : jbf (join_sep pfail cfg (negb (first_time ps)) [Some rs]) = negb (first_time ps1)).
        { rewrite (join_one_bf R pfail cfg _ rs (eq_sym Hp2)). rewrite Hfirst.
          destruct (first_time ps), (is_nil rs); reflexivity. }
        rewrite Hbf. unfold jev at 1, jst at 1, jbf at 1. cbn [fst snd].
        repeat split.
        -- unfold flat. cbn [flat_map b_events]. fold (flat bs2). rewrite !phi_app, Hp1, I1. reflexivity.
        -- exact I2.
        -- exact I3.
        -- apply I4. assumption.
        -- apply I4. assumption.
        -- destruct (I4 H) as (_ & _ & Hn & _). rewrite Hn. cbn [length]. lia.
        -- cbn [List.map b_doc]. destruct (I4 H) as (_ & _ & _ & Hm). rewrite Hm. reflexivity.
        -- discriminate.
      * (* print failure *)
        injection E as <- <- <- <- <-. rewrite <- Hp2.
        repeat split; try assumption; try discriminate.
        unfold flat. cbn [flat_map b_events]. rewrite app_nil_r. exact Hp1.
    + injection E as <- <- <- <- <-. cbn [join_sep jst jev jbf fst snd].
      repeat split; try assumption; try discriminate.
Qed.

(* relation between the driver state and the specification's bookkeeping *)
Lemma eval_files_gen : forall fs st st' bs s,
  Q (pr st) (file_index st) 0 -> TInv (tree st) ->
  eval_files blank absorb pfail parentless ev cfg st fs = (st', bs, s) ->
  let x := spec_files blank pfail fresh cfg (negb (first_time (pr st))) (file_index st) fs in
  phi (flat bs) = phi (fst (fst (fst x))) /\ s = snd (fst x)
  /\ (s = Done -> negb (first_time (pr st')) = snd (fst (fst x)) /\ total st' = total st + snd x
                  /\ (snd x = 0 -> pr st' = pr st)
                  /\ List.map b_doc bs = number_files blank (file_index st) fs).
Proof.
  induction fs as [|fl fs IH]; intros st st' bs s HQ Ht E x.
  - cbn [eval_files] in E. injection E as <- <- <-. subst x. cbn.
    repeat split; try reflexivity. lia.
  - cbn [eval_files] in E. subst x. cbn [spec_files number_files].
    unfold eval_file in E. rewrite decode_pre in E.
    set (ds := decode blank (fun _ b0 => b0) true fl) in *.
    destruct (eval_docs pfail parentless ev cfg (f_name fl) (file_index st) 0 ds (pr st) (tree st))
      as [[[[n ps1] t1] bs1] s1] eqn:Edocs.
    destruct (eval_docs_gen (f_name fl) (file_index st) ds 0 (pr st) (tree st) n ps1 t1 bs1 s1 HQ Ht Edocs)
      as (D1 & D2 & D3 & D4 & D5).
    destruct (join_sep pfail cfg (negb (first_time (pr st))) (List.map fresh (number_docs (file_index st) 0 (f_name fl) ds)))
      as [[e1 b1] sj] eqn:Ej.
    unfold jev, jst, jbf in D1, D2, D4. cbn [fst snd] in D1, D2, D4. subst sj.
    destruct s1.
    + destruct (D4 eq_refl) as (F1 & F2 & F3 & F4).
      destruct (f_bad fl).
      * injection E as <- <- <-. cbn [fst snd]. repeat split; try assumption; discriminate.
      * destruct (eval_files blank absorb pfail parentless ev cfg (mkSs (file_index st + 1) ps1 t1 (total st + n)) fs)
          as [[st2 bs2] s2] eqn:Erec.
        injection E as <- <- <-.
        specialize (IH (mkSs (file_index st + 1) ps1 t1 (total st + n)) st2 bs2 s2 (Q_file _ _ _ F2) D3 Erec). cbn zeta in IH. cbn [pr file_index tree total] in IH.
        rewrite <- F1.
        destruct (spec_files blank pfail fresh cfg (negb (first_time ps1)) (file_index st + 1) fs) as [[[e2 b2] sj2] n2] eqn:Es2.
        cbn [fst snd] in *. destruct IH as (I1 & I2 & I3).
        repeat split.
        -- unfold flat. rewrite flat_map_app. fold (flat bs1). fold (flat bs2). rewrite !phi_app, D1, I1. reflexivity.
        -- exact I2.
        -- apply I3. assumption.
        -- destruct (I3 H) as (_ & Htot & _). rewrite Htot, F3.
           pose proof (number_docs_length (file_index st) (f_name fl) ds 0) as Hlen.
           rewrite Hlen. lia.
        -- intro Hz. destruct (I3 H) as (_ & _ & Hpr & _).
           pose proof (number_docs_length (file_index st) (f_name fl) ds 0) as Hlen.
           rewrite Hlen in Hz.
           assert (Hds : ds = []) by (destruct ds; [reflexivity | cbn [length] in Hz; lia]).
           rewrite (Hpr ltac:(lia)). cbn [pr]. exact (D5 Hds).
        -- rewrite map_app, F4. destruct (I3 H) as (_ & _ & _ & Hm). rewrite Hm. reflexivity.
    + injection E as <- <- <-. cbn [fst snd]. repeat split; try assumption; discriminate.
Qed.

Hypothesis Q0 : Q ps0 0 0.

Lemma run_seq_gen fs :
  phi (fst (run_seq blank absorb pfail parentless ev t0 cfg fs)) = phi (fst (spec_run blank pfail fresh cfg fs))
  /\ snd (run_seq blank absorb pfail parentless ev t0 cfg fs) = snd (spec_run blank pfail fresh cfg fs).
Proof.
  unfold run_seq, run_seq_blocks, spec_run.
  destruct (eval_files blank absorb pfail parentless ev cfg (mkSs 0 ps0 t0 0) fs) as [[st bs] s] eqn:E.
  destruct (eval_files_gen fs (mkSs 0 ps0 t0 0) st bs s Q0 tinv0 E) as (G1 & G2 & G3).
  cbn [pr file_index first_time ps0 negb] in G1, G2, G3.
  destruct (spec_files blank pfail fresh cfg false 0 fs) as [[[e bf] sj] n] eqn:Es. cbn [fst snd] in *.
  subst sj. destruct s.
  - destruct (G3 eq_refl) as (H1 & H2 & H3 & _). cbn [total] in H2. rewrite H2. rewrite N.add_0_l.
    destruct (n =? 0) eqn:En.
    + apply N.eqb_eq in En. specialize (H3 En). cbn [pr] in H3.
      unfold eval_new.
      assert (Hf : fresh (null_sdoc blank) = option_map (List.map (stamp parentless 0 0)) (fst (ev t0 [null_sdoc blank])))
        by reflexivity.
      rewrite <- H1, H3. cbn [first_time ps0 negb]. rewrite Hf.
      destruct (fst (ev t0 [null_sdoc blank])) as [rs0|]; cbn [option_map] in *.
      * set (rs := List.map (stamp parentless 0 0) rs0) in *.
        destruct (Hprint ps0 0 0 [] [] blank rs Q0 Hf) as (Hp1 & Hp2 & _).
        cbn [first_time ps0 negb] in Hp1, Hp2.
        destruct (print_results pfail cfg ps0 rs) as [[ps1 es] s1]. cbn [fst snd] in *.
        destruct (join_sep pfail cfg false [Some rs]) as [[e2 b2] s2]. unfold jev, jst in *. cbn [fst snd] in *.
        split; [|exact Hp2].
        unfold flat. rewrite flat_map_app. cbn [flat_map b_events]. rewrite app_nil_r. fold (flat bs).
        rewrite !phi_app, G1, Hp1. reflexivity.
      * cbn [join_sep fst snd]. rewrite !app_nil_r. split; [exact G1 | reflexivity].
    + cbn [fst snd]. split; [exact G1 | reflexivity].
  - cbn [fst snd]. split; [exact G1 | reflexivity].
Qed.

End Chain.

(* ---------- instance 1: up to the printer's own separators, no hypothesis on the results ---------- *)
Lemma run_seq_content cfg fs :
  strip_sep (fst (run_seq blank absorb pfail parentless ev t0 cfg fs)) = strip_sep (fst (spec_run blank pfail fresh cfg fs))
  /\ snd (run_seq blank absorb pfail parentless ev t0 cfg fs) = snd (spec_run blank pfail fresh cfg fs).
Proof.
  apply (run_seq_gen cfg (@strip_sep R) (strip_sep_app R) (fun _ _ _ => True)); try (intros; exact I).
  intros ps fi cur name dl db rs _ _.
  destruct (print_results_strip R pfail cfg ps rs) as [H1 H2].
  destruct (join_one_strip R pfail cfg (negb (first_time ps)) rs) as [J1 J2].
  repeat split.
  - rewrite H1, J1. reflexivity.
  - rewrite H2, J2. reflexivity.
Qed.

(* ---------- instance 2: exact output, for results that report their document's position ---------- *)
(* (after the evaluator's stamping: i.e. every result that keeps a Parent has the document as its root) *)
Definition attached : Prop :=
  forall sd rs, fresh sd = Some rs -> Forall (att (s_file sd) (s_doc sd)) rs.

(* in terms of the results as the expression returns them *)
Lemma attached_of_raw :
  (forall sd rs, fst (ev t0 [sd]) = Some rs ->
     Forall (fun r => parentless r = true \/ att (s_file sd) (s_doc sd) r) rs) -> attached.
Proof.
  intros H sd rs Hf. unfold fresh in Hf.
  destruct (fst (ev t0 [sd])) as [rs0|] eqn:E; [|discriminate]. cbn [option_map] in Hf. injection Hf as <-.
  specialize (H sd rs0 E). clear E. induction H as [|r l Hr Hl IH]; cbn [List.map]; [constructor|]. constructor; [|exact IH].
  unfold stamp. destruct (parentless r) eqn:Ep.
  - split; reflexivity.
  - destruct Hr as [Hr|Hr]; [congruence|exact Hr].
Qed.

(* printer state versus the position (fi, cur) the driver is at: the last
   printed result came from an earlier position *)
Definition InvP (ps : pstate) (fi cur : N) : Prop :=
  first_time ps = true \/
  (first_time ps = false /\ (prev_file ps < fi \/ (prev_file ps = fi /\ prev_doc ps < cur))).

Lemma invp_doc ps fi cur : InvP ps fi cur -> InvP ps fi (cur + 1).
Proof.
  intros [H|(H & H2)]; [left; exact H|right]. split; [exact H|].
  destruct H2 as [H2|[H2 H3]]; [left; exact H2|right; split; [exact H2|lia]].
Qed.

Lemma invp_file ps fi cur : InvP ps fi cur -> InvP ps (fi + 1) 0.
Proof.
  intros [H|(H & H2)]; [left; exact H|right]. split; [exact H|].
  left. destruct H2 as [H2|[H2 H3]]; lia.
Qed.

Lemma invp_differs ps fi cur : InvP ps fi cur -> first_time ps = false -> prev_doc ps <> cur \/ prev_file ps <> fi.
Proof.
  intros [H|(_ & H2)] Hf; [congruence|].
  destruct (N.eq_dec (prev_file ps) fi) as [He|Hne]; [left|right; exact Hne].
  destruct H2 as [H2|[_ H3]]; lia.
Qed.

Lemma run_seq_exact cfg fs :
  attached ->
  run_seq blank absorb pfail parentless ev t0 cfg fs = spec_run blank pfail fresh cfg fs.
Proof.
  intros Hatt.
  assert (G : (fun x => x) (fst (run_seq blank absorb pfail parentless ev t0 cfg fs)) = (fun x => x) (fst (spec_run blank pfail fresh cfg fs))
              /\ snd (run_seq blank absorb pfail parentless ev t0 cfg fs) = snd (spec_run blank pfail fresh cfg fs)).
  { apply (run_seq_gen cfg (fun x => x) (fun x y => eq_refl) InvP invp_file); [|left; reflexivity].
    intros ps fi cur name dl db rs HQ Hf.
    pose proof (Hatt _ _ Hf) as Ha. cbn [s_file s_doc] in Ha.
    destruct rs as [|r0 rs].
    - rewrite print_results_nil, join_one_nil. unfold jev, jst. cbn [fst snd].
      repeat split. intros _. apply invp_doc. exact HQ.
    - destruct (pfail r0) eqn:Hpf.
      + rewrite (join_one_fail R pfail cfg _ r0 rs Hpf). unfold print_results. cbn [print_loop]. rewrite Hpf.
        unfold jev, jst. cbn [fst snd]. repeat split. discriminate.
      + rewrite (print_results_att R pfail cfg fi cur ps r0 rs Ha (invp_differs ps fi cur HQ) Hpf).
        rewrite (join_one_cons R pfail cfg _ r0 rs Hpf). unfold jev, jst. cbn [fst snd].
        repeat split. intros _. right. split; [reflexivity|]. cbn [prev_file prev_doc]. right. split; [reflexivity|lia]. }
  destruct G as [G1 G2]. cbn beta in G1.
  destruct (run_seq blank absorb pfail parentless ev t0 cfg fs), (spec_run blank pfail fresh cfg fs). cbn [fst snd] in *. congruence.
Qed.

(* ---------- true positions ---------- *)
Lemma number_docs_In fi name : forall (ds : list (doc P)) k sd,
  In sd (number_docs fi k name ds) <->
  exists i d, nth_error ds i = Some d /\ sd = mkSdoc fi (k + N.of_nat i) name false (d_lead d) (d_body d).
Proof.
  induction ds as [|d ds IH]; intros k sd; cbn [number_docs In].
  - split; [intros []|]. intros (i & d & H & _). destruct i; discriminate.
  - rewrite IH. split.
    + intros [H|(i & d' & H1 & H2)].
      * exists 0%nat, d. split; [reflexivity|]. rewrite N.add_0_r. symmetry. exact H.
      * exists (S i), d'. split; [exact H1|]. rewrite H2. f_equal. lia.
    + intros (i & d' & H1 & H2). destruct i as [|i]; cbn [nth_error] in H1.
      * left. injection H1 as <-. rewrite N.add_0_r in H2. symmetry. exact H2.
      * right. exists i, d'. split; [exact H1|]. rewrite H2. f_equal. lia.
Qed.

Lemma number_files_In : forall (fs : list (file P)) fi sd,
  In sd (number_files blank fi fs) <->
  exists i fl k d, nth_error fs i = Some fl /\ nth_error (decode blank (fun _ b => b) true fl) k = Some d
    /\ sd = mkSdoc (fi + N.of_nat i) (N.of_nat k) (f_name fl) false (d_lead d) (d_body d).
Proof.
  induction fs as [|fl fs IH]; intros fi sd; cbn [number_files].
  - split; [intros []|]. intros (i & fl & k & d & H & _). destruct i; discriminate.
  - rewrite in_app_iff, number_docs_In, IH. split.
    + intros [(k & d & H1 & H2)|(i & fl' & k & d & H1 & H2 & H3)].
      * exists 0%nat, fl, k, d. repeat split; [exact H1|]. rewrite H2. f_equal; lia.
      * exists (S i), fl', k, d. repeat split; [exact H1|exact H2|]. rewrite H3. f_equal; lia.
    + intros (i & fl' & k & d & H1 & H2 & H3). destruct i as [|i]; cbn [nth_error] in H1.
      * left. injection H1 as <-. exists k, d. split; [exact H2|]. rewrite H3. f_equal; lia.
      * right. exists i, fl', k, d. repeat split; [exact H1|exact H2|]. rewrite H3. f_equal; lia.
Qed.

Lemma spec_files_count cfg : forall fs before fi,
  snd (fst (spec_files blank pfail fresh cfg before fi fs)) = Done ->
  snd (spec_files blank pfail fresh cfg before fi fs) = N.of_nat (length (number_files blank fi fs)).
Proof.
  induction fs as [|fl fs IH]; intros before fi; cbn [spec_files number_files].
  - reflexivity.
  - destruct (join_sep pfail cfg before _) as [[e1 b1] s1]. destruct s1; [|discriminate].
    destruct (f_bad fl); [discriminate|].
    specialize (IH b1 (fi + 1)).
    destruct (spec_files blank pfail fresh cfg b1 (fi + 1) fs) as [[[e2 b2] s2] n2]. cbn [fst snd] in *.
    intro H. rewrite (IH H). rewrite app_length. lia.
Qed.

(* the documents handed to the expression, in order *)
Lemma run_seq_docs cfg fs bs :
  run_seq_blocks blank absorb pfail parentless ev t0 cfg fs = (bs, Done) ->
  (spec_docs blank fs <> [] -> List.map b_doc bs = spec_docs blank fs)
  /\ (spec_docs blank fs = [] -> List.map b_doc bs = [null_sdoc blank]).
Proof.
  unfold run_seq_blocks, spec_docs.
  destruct (eval_files blank absorb pfail parentless ev cfg (mkSs 0 ps0 t0 0) fs) as [[st bs1] s] eqn:E.
  assert (Hp : forall ps fi cur name dl db rs, True -> fresh (mkSdoc fi cur name false dl db) = Some rs ->
     strip_sep (snd (fst (print_results pfail cfg ps rs))) = strip_sep (jev (join_sep pfail cfg (negb (first_time ps)) [Some rs]))
     /\ snd (print_results pfail cfg ps rs) = jst (join_sep pfail cfg (negb (first_time ps)) [Some rs])
     /\ (snd (print_results pfail cfg ps rs) = Done -> True)).
  { intros ps fi cur name dl db rs _ _.
    destruct (print_results_strip R pfail cfg ps rs) as [H1 H2].
    destruct (join_one_strip R pfail cfg (negb (first_time ps)) rs) as [J1 J2].
    repeat split; congruence. }
  destruct (eval_files_gen cfg (@strip_sep R) (strip_sep_app R) (fun _ _ _ => True) (fun _ _ _ _ => I) Hp
              fs (mkSs 0 ps0 t0 0) st bs1 s I tinv0 E) as (_ & G2 & G3).
  cbn [file_index pr total] in G2, G3.
  pose proof (spec_files_count cfg fs (negb (first_time ps0)) 0) as Hc.
  destruct s; [|discriminate].
  destruct (G3 eq_refl) as (_ & Htot & _ & Hm). rewrite <- G2 in Hc. specialize (Hc eq_refl).
  rewrite Htot, Hc, N.add_0_l.
  destruct (number_files blank 0 fs) as [|sd0 rest] eqn:En.
  - cbn [length N.of_nat N.eqb]. unfold eval_new.
    destruct (fst (ev t0 [null_sdoc blank])) as [rs|]; [|discriminate].
    destruct (print_results pfail cfg (pr st) (List.map (stamp parentless 0 0) rs)) as [[ps1 es] s1].
    intro H. injection H as <- ->. split; [congruence|]. intros _. rewrite map_app, Hm. reflexivity.
  - assert (Hnz : (N.of_nat (length (sd0 :: rest)) =? 0) = false) by (apply N.eqb_neq; cbn [length]; lia).
    rewrite Hnz. intro H. injection H as <-. split; [intros _; exact Hm|discriminate].
Qed.

(* ---------- a block depends only on its document ---------- *)
Definition block_ok (cfg : pcfg) (B : block P R) : Prop :=
  exists rs, fresh (b_doc B) = Some rs /\ strip_sep (b_events B) = strip_sep (fst (chunk pfail cfg 0 rs)).

Lemma eval_docs_blocks cfg name fi : forall ds cur ps t n ps' t' bs s,
  TInv t -> eval_docs pfail parentless ev cfg name fi cur ds ps t = (n, ps', t', bs, s) ->
  Forall (block_ok cfg) bs /\ TInv t'.
Proof.
  induction ds as [|d ds IH]; intros cur ps t n ps' t' bs s Ht E; cbn [eval_docs] in E.
  - injection E as <- <- <- <- <-. split; [constructor|exact Ht].
  - set (sd := mkSdoc fi cur name false (d_lead d) (d_body d)) in *.
    pose proof (tinv_res t [sd] Ht) as Hres. pose proof (tinv_step t [sd] Ht) as Hstep.
    destruct (ev t [sd]) as [o t1] eqn:Eev. cbn [fst snd] in Hres, Hstep.
    assert (Hf : fresh sd = option_map (List.map (stamp parentless fi cur)) o)
      by (unfold fresh; rewrite <- Hres; reflexivity).
    destruct o as [rs0|]; cbn [option_map] in Hf.
    + set (rs := List.map (stamp parentless fi cur) rs0) in *.
      destruct (print_results_strip R pfail cfg ps rs) as [H1 _].
      destruct (print_results pfail cfg ps rs) as [[ps1 es] s1]. cbn [fst snd] in H1.
      assert (Hok : block_ok cfg (mkBlock sd es)) by (exists rs; split; [exact Hf|exact H1]).
      destruct s1.
      * destruct (eval_docs pfail parentless ev cfg name fi (cur + 1) ds ps1 t1) as [[[[n2 ps2] t2] bs2] s2] eqn:Erec.
        injection E as <- <- <- <- <-.
        destruct (IH _ _ _ _ _ _ _ _ Hstep Erec) as [I1 I2]. split; [constructor; assumption|exact I2].
      * injection E as <- <- <- <- <-. split; [constructor; [exact Hok|constructor]|exact Hstep].
    + injection E as <- <- <- <- <-. split; [constructor|exact Hstep].
Qed.

Lemma eval_files_blocks cfg : forall fs st st' bs s,
  TInv (tree st) -> eval_files blank absorb pfail parentless ev cfg st fs = (st', bs, s) ->
  Forall (block_ok cfg) bs /\ TInv (tree st').
Proof.
  induction fs as [|fl fs IH]; intros st st' bs s Ht E; cbn [eval_files] in E.
  - injection E as <- <- <-. split; [constructor|exact Ht].
  - unfold eval_file in E.
    destruct (eval_docs pfail parentless ev cfg (f_name fl) (file_index st) 0 (decode blank absorb true fl) (pr st) (tree st))
      as [[[[n ps1] t1] bs1] s1] eqn:Edocs.
    destruct (eval_docs_blocks cfg _ _ _ _ _ _ _ _ _ _ _ Ht Edocs) as [D1 D2].
    destruct s1.
    + destruct (f_bad fl).
      * injection E as <- <- <-. split; assumption.
      * destruct (eval_files blank absorb pfail parentless ev cfg (mkSs (file_index st + 1) ps1 t1 (total st + n)) fs)
          as [[st2 bs2] s2] eqn:Erec.
        injection E as <- <- <-.
        destruct (IH (mkSs (file_index st + 1) ps1 t1 (total st + n)) st2 bs2 s2 D2 Erec) as [I1 I2].
        split; [apply Forall_app; split; assumption|exact I2].
    + injection E as <- <- <-. split; assumption.
Qed.

Lemma run_seq_blocks_ok cfg fs bs s :
  run_seq_blocks blank absorb pfail parentless ev t0 cfg fs = (bs, s) -> Forall (block_ok cfg) bs.
Proof.
  unfold run_seq_blocks.
  destruct (eval_files blank absorb pfail parentless ev cfg (mkSs 0 ps0 t0 0) fs) as [[st bs1] s1] eqn:E.
  destruct (eval_files_blocks cfg fs (mkSs 0 ps0 t0 0) st bs1 s1 tinv0 E) as [H1 _].
  destruct s1.
  - destruct (total st =? 0).
    + unfold eval_new. destruct (fst (ev t0 [null_sdoc blank])) as [rs0|] eqn:Ef.
      * set (rs := List.map (stamp parentless 0 0) rs0).
        destruct (print_results_strip R pfail cfg (pr st) rs) as [P1 _].
        destruct (print_results pfail cfg (pr st) rs) as [[ps1 es] s2]. cbn [fst snd] in P1.
        intro H. injection H as <- <-. apply Forall_app. split; [exact H1|].
        constructor; [|constructor]. exists rs. split; [|exact P1].
        unfold fresh. cbn [b_doc]. rewrite Ef. reflexivity.
      * intro H. injection H as <- <-. rewrite app_nil_r. exact H1.
    + intro H. injection H as <- <-. exact H1.
  - intro H. injection H as <- <-. exact H1.
Qed.

Lemma doc_independent cfg fs1 fs2 bs1 s1 bs2 s2 B1 B2 :
  run_seq_blocks blank absorb pfail parentless ev t0 cfg fs1 = (bs1, s1) ->
  run_seq_blocks blank absorb pfail parentless ev t0 cfg fs2 = (bs2, s2) ->
  In B1 bs1 -> In B2 bs2 -> b_doc B1 = b_doc B2 ->
  strip_sep (b_events B1) = strip_sep (b_events B2).
Proof.
  intros E1 E2 I1 I2 Hd.
  pose proof (run_seq_blocks_ok cfg fs1 bs1 s1 E1) as F1.
  pose proof (run_seq_blocks_ok cfg fs2 bs2 s2 E2) as F2.
  rewrite Forall_forall in F1, F2.
  destruct (F1 _ I1) as (rs1 & A1 & A2). destruct (F2 _ I2) as (rs2 & C1 & C2).
  rewrite Hd in A1. rewrite A1 in C1. injection C1 as <-. rewrite A2, C2. reflexivity.
Qed.

End DriverFacts.

(* ------------------------------------------------------------------ *)
(* eval-all versus eval on a single-document input; no tree hypotheses *)
(* ------------------------------------------------------------------ *)
Section EvalAll.
Variables P R T : Type.
Variable blank : P.
Variable absorb : list litem -> P -> P.
Variable pfail : res R -> bool.
Variable parentless : res R -> bool.
Variable ev : T -> list (sdoc P) -> option (list (res R)) * T.
Variable t0 : T.

(* a node made during evaluation without Parent has zero document / file index *)
Definition parentless_zero : Prop :=
  forall ds rs, fst (ev t0 ds) = Some rs -> Forall (fun r => parentless r = true -> r_doc r = 0 /\ r_file r = 0) rs.

Lemma stamp_zero_id rs :
  Forall (fun r => parentless r = true -> r_doc r = 0 /\ r_file r = 0) rs -> List.map (stamp parentless 0 0) rs = rs.
Proof.
  induction 1 as [|r l Hr Hl IH]; cbn [List.map]; [reflexivity|]. rewrite IH. f_equal.
  unfold stamp. destruct (parentless r) eqn:Ep; [|reflexivity].
  destruct (Hr eq_refl) as [H1 H2]. destruct r as [d f l0 v]. cbn in *. subst. reflexivity.
Qed.

Definition set_together (sd : sdoc P) : sdoc P :=
  mkSdoc (s_file sd) (s_doc sd) (s_name sd) true (s_lead sd) (s_body sd).

Lemma evalall_single cfg fl :
  parentless_zero ->
  f_bad fl = false ->
  (length (decode blank absorb true fl) <= 1)%nat ->
  (forall sd, fst (ev t0 [set_together sd]) = fst (ev t0 [sd])) ->
  run_all blank absorb pfail ev t0 cfg [fl] = run_seq blank absorb pfail parentless ev t0 cfg [fl].
Proof.
  intros Hz Hbad Hlen Htog.
  unfold run_all, run_seq, run_seq_blocks. cbn [read_all eval_files]. rewrite Hbad.
  unfold eval_file. cbn [file_index pr tree total]. rewrite Hbad.
  destruct (decode blank absorb true fl) as [|d [|d2 ds]] eqn:Ed; [| |cbn [length] in Hlen; lia].
  - cbn [stamp_together app is_nil eval_docs]. cbn [total N.add N.eqb]. unfold eval_new.
    destruct (fst (ev t0 [null_sdoc blank])) as [rs|] eqn:En; [|reflexivity].
    rewrite (stamp_zero_id rs (Hz _ _ En)).
    cbn [pr]. destruct (print_results pfail cfg ps0 rs) as [[ps1 es] s1]. unfold flat. cbn [app flat_map b_events]. rewrite app_nil_r. reflexivity.
  - cbn [stamp_together app is_nil eval_docs].
    specialize (Htog (mkSdoc 0 0 (f_name fl) false (d_lead d) (d_body d))). unfold set_together in Htog. cbn [s_file s_doc s_name s_lead s_body] in Htog.
    rewrite Htog.
    pose proof (Hz [mkSdoc 0 0 (f_name fl) false (d_lead d) (d_body d)]) as Hz1.
    destruct (ev t0 [mkSdoc 0 0 (f_name fl) false (d_lead d) (d_body d)]) as [o t1]. cbn [fst] in *.
    destruct o as [rs|]; [|reflexivity].
    rewrite (stamp_zero_id rs (Hz1 rs eq_refl)).
    destruct (print_results pfail cfg ps0 rs) as [[ps1 es] s1].
    destruct s1.
    + cbn [total]. replace (0 + (0 + 1) =? 0) with false by reflexivity.
      unfold flat. simpl. rewrite app_nil_r. reflexivity.
    + unfold flat. simpl. rewrite app_nil_r. reflexivity.
Qed.

End EvalAll.

(* ------------------------------------------------------------------ *)
(* counting: one result per document                                    *)
(* ------------------------------------------------------------------ *)
Section Count.
Variables P R : Type.
Variable blank : P.
Variable pfail : res R -> bool.
Variable f : sdoc P -> option (list (res R)).

Lemma count_res_app (a b : list (event R)) : count_res (a ++ b) = (count_res a + count_res b)%nat.
Proof. unfold count_res. rewrite filter_app, app_length. reflexivity. Qed.

Lemma count_res_strip (a : list (event R)) : count_res (strip_sep a) = count_res a.
Proof.
  unfold count_res, strip_sep. induction a as [|e a IH]; [reflexivity|].
  cbn [filter]. destruct e; cbn [is_sep negb is_res filter length]; rewrite ?IH; reflexivity.
Qed.

Lemma count_res_lead cfg l : count_res (@lead_events R cfg l) = 0%nat.
Proof.
  unfold lead_events. destruct (print_lead cfg); [|reflexivity].
  induction l as [|it l IH]; [reflexivity|]. cbn [flat_map]. rewrite count_res_app, IH.
  destruct it; cbn [lead_event]; [destruct (print_seps cfg)|]; reflexivity.
Qed.

Lemma count_res_node cfg j (r : res R) : count_res (node_events cfg j r) = 1%nat.
Proof.
  unfold node_events. rewrite !count_res_app, count_res_lead. destruct (nul_sep cfg); reflexivity.
Qed.

Lemma count_res_doc_sep cfg : count_res (@doc_sep R cfg) = 0%nat.
Proof. unfold doc_sep. destruct (print_seps cfg); reflexivity. Qed.

Hypothesis one_each : forall sd, exists r, f sd = Some [r] /\ pfail r = false.

Lemma join_count cfg : forall sds before,
  count_res (jev (join_sep pfail cfg before (List.map f sds))) = length sds
  /\ jst (join_sep pfail cfg before (List.map f sds)) = Done.
Proof.
  induction sds as [|sd sds IH]; intros before; cbn [List.map].
  - repeat split.
  - destruct (one_each sd) as (r & Hr & Hpf). rewrite Hr. cbn [join_sep chunk]. rewrite Hpf.
    destruct (IH true) as (I1 & I2).
    destruct (join_sep pfail cfg true (List.map f sds)) as [[e2 b2] s2]. unfold jev, jst, jbf in *. cbn [fst snd] in *.
    repeat split.
    + rewrite !count_res_app, count_res_node, I1.
      destruct (before && negb (starts_with_sep (r_lead r))); [rewrite count_res_doc_sep|]; reflexivity.
    + exact I2.
Qed.

Lemma spec_files_count_res cfg : forall (fs : list (file P)) before fi,
  Forall (fun fl => f_bad fl = false) fs ->
  count_res (fst (fst (fst (spec_files blank pfail f cfg before fi fs)))) = length (number_files blank fi fs)
  /\ snd (fst (spec_files blank pfail f cfg before fi fs)) = Done.
Proof.
  induction fs as [|fl fs IH]; intros before fi Hg; cbn [spec_files number_files].
  - split; reflexivity.
  - inversion Hg as [|? ? Hb Hg']; subst.
    destruct (join_count cfg (number_docs fi 0 (f_name fl) (decode blank (fun _ b => b) true fl)) before) as (J1 & J2).
    destruct (join_sep pfail cfg before _) as [[e1 b1] s1]. unfold jev, jst in *. cbn [fst snd] in *. subst s1.
    rewrite Hb. destruct (IH b1 (fi + 1) Hg') as (I1 & I2).
    destruct (spec_files blank pfail f cfg b1 (fi + 1) fs) as [[[e2 b2] s2] n2]. cbn [fst snd] in *.
    split; [|exact I2]. rewrite count_res_app, app_length, J1, I1. reflexivity.
Qed.

Lemma spec_files_len cfg : forall (fs : list (file P)) before fi,
  snd (fst (spec_files blank pfail f cfg before fi fs)) = Done ->
  snd (spec_files blank pfail f cfg before fi fs) = N.of_nat (length (number_files blank fi fs)).
Proof.
  induction fs as [|fl fs IH]; intros before fi; cbn [spec_files number_files].
  - reflexivity.
  - destruct (join_sep pfail cfg before _) as [[e1 b1] s1]. destruct s1; [|discriminate].
    destruct (f_bad fl); [discriminate|].
    specialize (IH b1 (fi + 1)).
    destruct (spec_files blank pfail f cfg b1 (fi + 1) fs) as [[[e2 b2] s2] n2]. cbn [fst snd] in *.
    intro H. rewrite (IH H). rewrite app_length. lia.
Qed.

(* over good files the specification is the flat separator-joined concatenation *)
Lemma spec_files_flat cfg : forall (fs : list (file P)) before fi,
  Forall (fun fl => f_bad fl = false) fs ->
  let x := spec_files blank pfail f cfg before fi fs in
  let j := join_sep pfail cfg before (List.map f (number_files blank fi fs)) in
  fst (fst (fst x)) = jev j /\ snd (fst x) = jst j /\ (jst j = Done -> snd (fst (fst x)) = jbf j).
Proof.
  induction fs as [|fl fs IH]; intros before fi Hg; cbn [spec_files number_files].
  - cbn. repeat split.
  - inversion Hg as [|? ? Hb Hg']; subst. rewrite Hb. rewrite map_app, (join_sep_app R pfail cfg).
    destruct (join_sep pfail cfg before (List.map f (number_docs fi 0 (f_name fl) (decode blank (fun _ b => b) true fl))))
      as [[e1 b1] s1]. unfold jev, jst, jbf. cbn [fst snd].
    destruct s1.
    + specialize (IH b1 (fi + 1) Hg'). cbn zeta in IH. unfold jev, jst, jbf in IH.
      destruct (spec_files blank pfail f cfg b1 (fi + 1) fs) as [[[e2 b2] s2] n2]. cbn [fst snd] in *.
      destruct IH as (I1 & I2 & I3).
      repeat split; [rewrite I1; reflexivity|exact I2|exact I3].
    + cbn [fst snd]. repeat split.
Qed.

Lemma spec_run_flat cfg (fs : list (file P)) :
  Forall (fun fl => f_bad fl = false) fs -> spec_docs blank fs <> [] ->
  spec_run blank pfail f cfg fs =
    (jev (join_sep pfail cfg false (List.map f (spec_docs blank fs))),
     jst (join_sep pfail cfg false (List.map f (spec_docs blank fs)))).
Proof.
  intros Hg Hne. unfold spec_run, spec_docs in *.
  destruct (spec_files_flat cfg fs false 0 Hg) as (F1 & F2 & _).
  pose proof (spec_files_len cfg fs false 0) as Hn.
  destruct (spec_files blank pfail f cfg false 0 fs) as [[[e b] s] n]. cbn [fst snd] in *.
  rewrite <- F1, <- F2. destruct s; [|reflexivity].
  rewrite (Hn eq_refl).
  destruct (number_files blank 0 fs) as [|sd0 rest]; [congruence|].
  assert (Hnz : (N.of_nat (length (sd0 :: rest)) =? 0) = false) by (apply N.eqb_neq; cbn [length]; lia).
  rewrite Hnz. reflexivity.
Qed.

Lemma spec_run_count cfg (fs : list (file P)) :
  Forall (fun fl => f_bad fl = false) fs ->
  count_res (fst (spec_run blank pfail f cfg fs)) = Nat.max 1 (length (spec_docs blank fs))
  /\ snd (spec_run blank pfail f cfg fs) = Done.
Proof.
  intro Hg. unfold spec_run, spec_docs.
  destruct (spec_files_count_res cfg fs false 0 Hg) as (C1 & C2).
  pose proof (spec_files_len cfg fs false 0) as Hn.
  destruct (spec_files blank pfail f cfg false 0 fs) as [[[e b] s] n]. cbn [fst snd] in *. subst s.
  specialize (Hn eq_refl). subst n.
  destruct (number_files blank 0 fs) as [|sd0 rest].
  - cbn [length N.of_nat N.eqb]. destruct (join_count cfg [null_sdoc blank] b) as (J1 & J2).
    cbn [List.map] in J1, J2. destruct (join_sep pfail cfg b [f (null_sdoc blank)]) as [[e2 b2] s2].
    unfold jev, jst in *. cbn [fst snd] in *. split; [|exact J2]. rewrite count_res_app, C1, J1. reflexivity.
  - assert (Hnz : (N.of_nat (length (sd0 :: rest)) =? 0) = false) by (apply N.eqb_neq; cbn [length]; lia).
    rewrite Hnz. cbn [fst snd]. split; [|reflexivity]. rewrite C1. cbn [length]. lia.
Qed.

End Count.

Arguments fresh {P R T}. Arguments attached {P R T}. Arguments set_together {P}. Arguments parentless_zero {P R T}.

(* ------------------------------------------------------------------ *)
(* statements as used by Props/C10.v                                    *)
(* ------------------------------------------------------------------ *)
Section Final.
Variables P R T : Type.
Variable blank : P.
Variable absorb : list litem -> P -> P.
Variable pfail : res R -> bool.
Variable parentless : res R -> bool.
Variable ev : T -> list (sdoc P) -> option (list (res R)) * T.
Variable t0 : T.
Variable TInv : T -> Prop.
Hypothesis tinv0 : TInv t0.
Hypothesis tinv_step : forall t ds, TInv t -> TInv (snd (ev t ds)).
Hypothesis tinv_res : forall t ds, TInv t -> fst (ev t ds) = fst (ev t0 ds).

Lemma seq_is_concat cfg fs :
  attached parentless ev t0 ->
  Forall (fun fl => f_bad fl = false) fs -> spec_docs blank fs <> [] ->
  run_seq blank absorb pfail parentless ev t0 cfg fs =
    (jev (join_sep pfail cfg false (List.map (fresh parentless ev t0) (spec_docs blank fs))),
     jst (join_sep pfail cfg false (List.map (fresh parentless ev t0) (spec_docs blank fs)))).
Proof.
  intros Ha Hg Hne.
  rewrite (run_seq_exact P R T blank absorb pfail parentless ev t0 TInv tinv0 tinv_step tinv_res cfg fs Ha).
  apply spec_run_flat; assumption.
Qed.

Lemma identity_count cfg fs :
  (forall sd, exists r, fresh parentless ev t0 sd = Some [r] /\ pfail r = false) ->
  Forall (fun fl => f_bad fl = false) fs ->
  count_res (fst (run_seq blank absorb pfail parentless ev t0 cfg fs)) = Nat.max 1 (length (spec_docs blank fs))
  /\ snd (run_seq blank absorb pfail parentless ev t0 cfg fs) = Done.
Proof.
  intros H1 Hg.
  destruct (run_seq_content P R T blank absorb pfail parentless ev t0 TInv tinv0 tinv_step tinv_res cfg fs) as [C1 C2].
  destruct (spec_run_count P R blank pfail (fresh parentless ev t0) H1 cfg fs Hg) as [S1 S2].
  split; [|congruence].
  rewrite <- (count_res_strip R), C1, (count_res_strip R). exact S1.
Qed.

Lemma indices_true cfg fs bs :
  run_seq_blocks blank absorb pfail parentless ev t0 cfg fs = (bs, Done) -> spec_docs blank fs <> [] ->
  List.map b_doc bs = spec_docs blank fs
  /\ forall sd, In sd (spec_docs blank fs) <->
       exists i fl k d, nth_error fs i = Some fl /\ nth_error (decode blank absorb true fl) k = Some d
         /\ sd = mkSdoc (N.of_nat i) (N.of_nat k) (f_name fl) false (d_lead d) (d_body d).
Proof.
  intros E Hne.
  destruct (run_seq_docs P R T blank absorb pfail parentless ev t0 TInv tinv0 tinv_step tinv_res cfg fs bs E) as [H1 _].
  split; [exact (H1 Hne)|].
  intro sd. unfold spec_docs. rewrite number_files_In.
  split; intros (i & fl & k & d & A1 & A2 & A3); exists i, fl, k, d; (split; [exact A1|split]).
  - rewrite decode_pre. exact A2.
  - rewrite A3. reflexivity.
  - rewrite decode_pre in A2. exact A2.
  - rewrite A3. reflexivity.
Qed.

End Final.

Lemma sort_tree_write_idempotent (P R E : Type) (self : E) (sort_by : option E -> list (sdoc P) -> option (list (res R))) :
  forall t ds ds',
    fst (sort_ev self sort_by t ds) = fst (sort_ev self sort_by None ds)
    /\ sort_ev self sort_by (snd (sort_ev self sort_by t ds)) ds' = sort_ev self sort_by t ds'.
Proof. intros. split; reflexivity. Qed.
