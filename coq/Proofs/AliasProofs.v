(* Proofs/AliasProofs.v — lemmas about Model/Alias.v and Spec/YamlMergeSpec.v for property C13. *)
From Coq Require Import List NArith Bool Lia Permutation.
From YQ Require Import Base.Str Spec.YamlMergeSpec Model.Alias.
Import ListNotations.

Definition entry_clean (kv : str * node) : bool := negb (is_merge (fst kv)) && clean (snd kv).
Definition entries_clean (es : entries) : bool := forallb entry_clean es.

Lemma clean_map a es : clean (Mp a es) = negb a && entries_clean es.
Proof. reflexivity. Qed.

Lemma rbind_ok {A B : Type} (o : res A) (f : A -> res B) (b : B) :
  rbind o f = ROk b -> exists a, o = ROk a /\ f a = ROk b.
Proof. destruct o; cbn [rbind]; intros H; try discriminate. eexists; split; [reflexivity | exact H]. Qed.

(* ================================================================== *)
(* 1. explode leaves no alias, no anchor, no merge key                 *)
(* ================================================================== *)
Section CleanStep.
  Variable rec : node -> res node.
  Hypothesis Hrec : forall t t', rec t = ROk t' -> clean t' = true.

  Lemma map_res_clean l l' : map_res rec l = ROk l' -> forallb clean l' = true.
  Proof.
    revert l'. induction l as [|x r IH]; intros l' H; cbn [map_res] in H.
    - injection H as <-. reflexivity.
    - apply rbind_ok in H as (x' & Hx & H). apply rbind_ok in H as (r' & Hr & H). injection H as <-.
      cbn [forallb]. rewrite (Hrec _ _ Hx), (IH _ Hr). reflexivity.
  Qed.

  Lemma map_entries_clean es es' :
    has_merge es = false -> map_entries rec es = ROk es' -> entries_clean es' = true.
  Proof.
    revert es'. induction es as [|[k v] r IH]; intros es' Hm H; cbn [map_entries] in H.
    - injection H as <-. reflexivity.
    - apply rbind_ok in H as (v' & Hv & H). apply rbind_ok in H as (r' & Hr & H). injection H as <-.
      unfold has_merge in Hm. cbn [existsb fst] in Hm. apply orb_false_iff in Hm as [Hk Hm].
      unfold entries_clean. cbn [forallb]. unfold entry_clean at 1. cbn [fst snd].
      rewrite Hk, (Hrec _ _ Hv). cbn. apply IH; assumption.
  Qed.

  Lemma replace_first_clean k v acc :
    clean v = true -> entries_clean acc = true -> entries_clean (replace_first k v acc) = true.
  Proof.
    intros Hv. induction acc as [|[k' v'] r IH]; intros H; cbn [replace_first]; [reflexivity|].
    unfold entries_clean in *. cbn [forallb] in H. apply andb_true_iff in H as [H1 H2].
    destruct (str_eqb k k').
    - cbn [forallb]. rewrite H2, andb_true_r. unfold entry_clean in *. cbn [fst snd] in *.
      apply andb_true_iff in H1 as [H1 _]. rewrite H1, Hv. reflexivity.
    - cbn [forallb]. rewrite H1. cbn. apply IH, H2.
  Qed.

  Lemma override_entry_clean texts key v start acc acc' :
    is_merge key = false -> entries_clean acc = true ->
    override_entry rec texts key v start acc = ROk acc' -> entries_clean acc' = true.
  Proof.
    intros Hk Hacc H. unfold override_entry in H. apply rbind_ok in H as (v' & Hv & H).
    apply Hrec in Hv.
    destruct (has_key key acc).
    - injection H as <-. apply replace_first_clean; assumption.
    - destruct (later_has texts (start + 2) key); injection H as <-; [exact Hacc|].
      unfold entries_clean. rewrite forallb_app. fold (entries_clean acc). rewrite Hacc.
      cbn [forallb]. unfold entry_clean. cbn [fst snd]. rewrite Hk, Hv. reflexivity.
  Qed.

  Lemma override_all_clean texts tes : forall start acc acc',
    entries_clean tes = true -> entries_clean acc = true ->
    override_all rec texts tes start acc = ROk acc' -> entries_clean acc' = true.
  Proof.
    induction tes as [|[k v] r IH]; intros start acc acc' Ht Hacc H; cbn [override_all] in H.
    - injection H as <-. exact Hacc.
    - apply rbind_ok in H as (acc1 & H1 & H).
      unfold entries_clean in Ht. cbn [forallb] in Ht. apply andb_true_iff in Ht as [Hkv Ht].
      unfold entry_clean in Hkv. cbn [fst snd] in Hkv. apply andb_true_iff in Hkv as [Hk _].
      apply negb_true_iff in Hk.
      eapply IH; [exact Ht | | exact H]. eapply override_entry_clean; eassumption.
  Qed.

  Lemma apply_alias_clean texts item idx acc acc' :
    entries_clean acc = true -> apply_alias rec texts item idx acc = ROk acc' -> entries_clean acc' = true.
  Proof.
    intros Hacc H. destruct item as [a s|a l|a es|t]; cbn [apply_alias] in H; try (injection H as <-; exact Hacc).
    apply rbind_ok in H as (t' & Ht & H). apply Hrec in Ht.
    destruct t' as [a s|a l|a tes|t']; try discriminate.
    rewrite clean_map in Ht. apply andb_true_iff in Ht as [_ Ht].
    exact (override_all_clean texts tes idx acc acc' Ht Hacc H).
  Qed.

  Lemma apply_seq_rev_clean texts ritems : forall acc acc',
    entries_clean acc = true -> apply_seq_rev rec texts ritems acc = ROk acc' -> entries_clean acc' = true.
  Proof.
    induction ritems as [|[j item] r IH]; intros acc acc' Hacc H; cbn [apply_seq_rev] in H.
    - injection H as <-. exact Hacc.
    - apply rbind_ok in H as (acc1 & H1 & H). eapply IH; [|exact H]. eapply apply_alias_clean; eassumption.
  Qed.

  Lemma recon_clean texts es : forall i acc acc',
    entries_clean acc = true -> recon rec texts es i acc = ROk acc' -> entries_clean acc' = true.
  Proof.
    induction es as [|[k v] r IH]; intros i acc acc' Hacc H; cbn [recon] in H.
    - injection H as <-. exact Hacc.
    - apply rbind_ok in H as (acc1 & H1 & H). eapply IH; [|exact H].
      destruct (is_merge k) eqn:Hk.
      + destruct v as [a s|a l|a es'|t]; try (eapply apply_alias_clean; eassumption).
        eapply apply_seq_rev_clean; eassumption.
      + eapply override_entry_clean; eassumption.
  Qed.

  Lemma explode_step_clean t t' : explode_step rec t = ROk t' -> clean t' = true.
  Proof.
    destruct t as [a s|a l|a es|t0]; cbn [explode_step]; intros H.
    - injection H as <-. reflexivity.
    - apply rbind_ok in H as (l' & Hl & H). injection H as <-. cbn [clean negb andb].
      eapply map_res_clean, Hl.
    - destruct (has_merge es) eqn:Hm; apply rbind_ok in H as (es' & He & H); injection H as <-;
        rewrite clean_map; cbn [negb andb].
      + eapply recon_clean; [|exact He]. reflexivity.
      + eapply map_entries_clean; eassumption.
    - eapply Hrec, H.
  Qed.
End CleanStep.

Theorem explode_clean fuel : forall t t', explode fuel t = ROk t' -> clean t' = true.
Proof.
  induction fuel as [|f IH]; intros t t' H; cbn [explode] in H; [discriminate|].
  eapply explode_step_clean; [exact IH | exact H].
Qed.

(* ================================================================== *)
(* 2. a tree without aliases and merge keys only loses its anchors     *)
(* ================================================================== *)
Section PlainStep.
  Variable rec : node -> res node.
  Hypothesis Hrec : forall t t', plain t = true -> rec t = ROk t' -> t' = strip_anchors t.

  Lemma map_res_plain l l' : forallb plain l = true -> map_res rec l = ROk l' -> l' = map strip_anchors l.
  Proof.
    revert l'. induction l as [|x r IH]; intros l' Hp H; cbn [map_res] in H.
    - injection H as <-. reflexivity.
    - cbn [forallb] in Hp. apply andb_true_iff in Hp as [Hx Hr].
      apply rbind_ok in H as (x' & Ex & H). apply rbind_ok in H as (r' & Er & H). injection H as <-.
      cbn [map]. rewrite (Hrec _ _ Hx Ex), (IH _ Hr Er). reflexivity.
  Qed.

  Lemma map_entries_plain es es' :
    forallb (fun kv => negb (is_merge (fst kv)) && plain (snd kv)) es = true ->
    map_entries rec es = ROk es' -> es' = map (fun kv => (fst kv, strip_anchors (snd kv))) es.
  Proof.
    revert es'. induction es as [|[k v] r IH]; intros es' Hp H; cbn [map_entries] in H.
    - injection H as <-. reflexivity.
    - cbn [forallb fst snd] in Hp. apply andb_true_iff in Hp as [Hkv Hr]. apply andb_true_iff in Hkv as [_ Hv].
      apply rbind_ok in H as (v' & Ev & H). apply rbind_ok in H as (r' & Er & H). injection H as <-.
      cbn [map fst snd]. rewrite (Hrec _ _ Hv Ev), (IH _ Hr Er). reflexivity.
  Qed.

  Lemma plain_no_merge es :
    forallb (fun kv => negb (is_merge (fst kv)) && plain (snd kv)) es = true -> has_merge es = false.
  Proof.
    induction es as [|[k v] r IH]; intros H; [reflexivity|].
    cbn [forallb fst snd] in H. apply andb_true_iff in H as [Hkv Hr]. apply andb_true_iff in Hkv as [Hk _].
    unfold has_merge. cbn [existsb fst]. apply negb_true_iff in Hk. rewrite Hk. apply IH, Hr.
  Qed.

  Lemma explode_step_plain t t' : plain t = true -> explode_step rec t = ROk t' -> t' = strip_anchors t.
  Proof.
    destruct t as [a s|a l|a es|t0]; cbn [explode_step plain strip_anchors]; intros Hp H; try discriminate.
    - injection H as <-. reflexivity.
    - apply rbind_ok in H as (l' & Hl & H). injection H as <-. f_equal. apply map_res_plain; assumption.
    - rewrite (plain_no_merge _ Hp) in H. apply rbind_ok in H as (es' & He & H). injection H as <-.
      f_equal. apply map_entries_plain; assumption.
  Qed.
End PlainStep.

Theorem explode_plain fuel : forall t t', plain t = true -> explode fuel t = ROk t' -> t' = strip_anchors t.
Proof.
  induction fuel as [|f IH]; intros t t' Hp H; cbn [explode] in H; [discriminate|].
  eapply explode_step_plain; [exact IH | exact Hp | exact H].
Qed.

(* ================================================================== *)
(* 3. one level of merging over plain sources: the three routes        *)
(* ================================================================== *)
Lemma str_eqb_sym a b : str_eqb a b = str_eqb b a.
Proof.
  destruct (str_eqb a b) eqn:E.
  - apply str_eqb_eq in E. subst. symmetry. apply str_eqb_refl.
  - destruct (str_eqb b a) eqn:E'; [|reflexivity]. apply str_eqb_eq in E'. subst.
    rewrite str_eqb_refl in E. discriminate.
Qed.

Lemma lookup_entry_none k es : ~ In k (keys es) -> lookup_entry k es = None.
Proof.
  induction es as [|[k' v] r IH]; intros H; cbn [lookup_entry]; [reflexivity|].
  destruct (str_eqb k k') eqn:E.
  - apply str_eqb_eq in E. subst. exfalso. apply H. left. reflexivity.
  - apply IH. intro Hin. apply H. right. exact Hin.
Qed.

Lemma lookup_entry_in k es v : lookup_entry k es = Some v -> In k (keys es).
Proof.
  induction es as [|[k' v'] r IH]; cbn [lookup_entry]; [discriminate|].
  destruct (str_eqb k k') eqn:E; intros H.
  - apply str_eqb_eq in E. subst. left. reflexivity.
  - right. apply IH, H.
Qed.

Lemma entry_plain_inv k v : entry_plain (k, v) = true -> is_merge k = false /\ plain v = true.
Proof. unfold entry_plain. cbn [fst snd]. intros H. apply andb_true_iff in H as [H1 H2]. apply negb_true_iff in H1. split; assumption. Qed.

(* ---------------- route 1: traversal ---------------- *)
Section LookPlain.
  Variable rec : str -> entries -> option node -> res (option node).

  Lemma tlook_step_plain k s : forallb entry_plain s = true -> NoDup (keys s) -> forall acc,
    tlook_step rec k s acc = ROk (match lookup_entry k s with Some v => Some v | None => acc end).
  Proof.
    induction s as [|[k' v] r IH]; intros Hp Hn acc; cbn [tlook_step lookup_entry]; [reflexivity|].
    cbn [forallb] in Hp. apply andb_true_iff in Hp as [Hkv Hp]. apply entry_plain_inv in Hkv as [Hk' _].
    cbn [keys map fst] in Hn. inversion Hn as [|? ? Hnotin Hn']; subst.
    rewrite Hk'. cbn [andb]. rewrite (str_eqb_sym k' k).
    destruct (str_eqb k k') eqn:E.
    - apply str_eqb_eq in E. subst k'. rewrite (IH Hp Hn').
      rewrite (lookup_entry_none _ _ Hnotin). reflexivity.
    - apply IH; assumption.
  Qed.
End LookPlain.

Lemma tlook_plain f k s acc o :
  forallb entry_plain s = true -> NoDup (keys s) -> tlook f k s acc = ROk o ->
  o = match lookup_entry k s with Some v => Some v | None => acc end.
Proof.
  intros Hp Hn H. destruct f as [|f]; cbn [tlook] in H; [discriminate|].
  rewrite tlook_step_plain in H by assumption. injection H as <-. reflexivity.
Qed.

Fixpoint tmerge_list (rec : str -> entries -> option node -> res (option node)) (k : str) (items : list node) (acc : option node) : res (option node) :=
  match items with
  | [] => ROk acc
  | x :: r => rbind (tmerge rec k x acc) (tmerge_list rec k r)
  end.

Lemma tmerge_seq rec k a items : forall acc, tmerge rec k (Sq a items) acc = tmerge_list rec k items acc.
Proof.
  induction items as [|x r IH]; intros acc; [reflexivity|].
  cbn [tmerge tmerge_list]. destruct (tmerge rec k x acc) as [o| | |]; cbn [rbind]; try reflexivity.
  specialize (IH o). cbn [tmerge] in IH. exact IH.
Qed.

Lemma NoDup_app_l {A : Type} (l1 l2 : list A) : NoDup (l1 ++ l2) -> NoDup l1.
Proof. induction l1 as [|a l1 IH]; intros H; [constructor|]. inversion H as [|? ? Hn H']; subst. constructor; [intro Hin; apply Hn, in_or_app; left; exact Hin | apply IH, H']. Qed.

Lemma NoDup_app_r {A : Type} (l1 l2 : list A) : NoDup (l1 ++ l2) -> NoDup l2.
Proof. induction l1 as [|a l1 IH]; intros H; [exact H|]. inversion H; subst. apply IH. assumption. Qed.

Lemma NoDup_app_disj {A : Type} (l1 l2 : list A) x : NoDup (l1 ++ l2) -> In x l1 -> ~ In x l2.
Proof.
  induction l1 as [|a l1 IH]; intros H Hin; [destruct Hin|].
  inversion H as [|? ? Hn H']; subst. destruct Hin as [->|Hin].
  - intro Hx. apply Hn, in_or_app. right. exact Hx.
  - apply IH; assumption.
Qed.

Lemma lookup_first_none k srcs : ~ In k (flat_map keys srcs) -> lookup_first k srcs = None.
Proof.
  induction srcs as [|s r IH]; intros H; cbn [lookup_first]; [reflexivity|].
  cbn [flat_map] in H. rewrite lookup_entry_none by (intro Hin; apply H, in_or_app; left; exact Hin).
  apply IH. intro Hin. apply H, in_or_app. right. exact Hin.
Qed.

Lemma tmerge_list_sources f k srcs : forall acc o,
  NoDup (flat_map keys srcs) -> (forall s, In s srcs -> forallb entry_plain s = true) ->
  tmerge_list (tlook f) k (map (fun s => Al (Mp true s)) srcs) acc = ROk o ->
  o = match lookup_first k srcs with Some v => Some v | None => acc end.
Proof.
  induction srcs as [|s r IH]; intros acc o Hn Hp H; cbn [map tmerge_list lookup_first] in *.
  - injection H as <-. reflexivity.
  - cbn [flat_map] in Hn. apply rbind_ok in H as (o1 & H1 & H). cbn [tmerge] in H1.
    apply tlook_plain in H1; [| apply Hp; left; reflexivity | eapply NoDup_app_l, Hn].
    apply IH in H; [| eapply NoDup_app_r, Hn | intros s' Hs'; apply Hp; right; exact Hs'].
    subst o o1. destruct (lookup_entry k s) as [v|] eqn:El; [|reflexivity].
    rewrite lookup_first_none; [reflexivity|].
    eapply NoDup_app_disj; [exact Hn|]. eapply lookup_entry_in, El.
Qed.

Lemma tmerge_merge_value f k srcs acc o :
  NoDup (flat_map keys srcs) -> (forall s, In s srcs -> forallb entry_plain s = true) ->
  tmerge (tlook f) k (merge_value srcs) acc = ROk o ->
  o = match lookup_first k srcs with Some v => Some v | None => acc end.
Proof.
  intros Hn Hp H. unfold merge_value in H.
  destruct srcs as [|s [|s2 r]].
  - rewrite tmerge_seq in H. eapply tmerge_list_sources; eassumption.
  - cbn [tmerge] in H. cbn [lookup_first].
    apply tlook_plain in H; [| apply Hp; left; reflexivity |].
    + subst o. destruct (lookup_entry k s); reflexivity.
    + cbn [flat_map] in Hn. rewrite app_nil_r in Hn. exact Hn.
  - rewrite tmerge_seq in H. eapply tmerge_list_sources; eassumption.
Qed.

Theorem route1_flat fuel srcs expl k r :
  merge_simple srcs expl -> is_merge k = false ->
  tlook fuel k ((merge_key, merge_value srcs) :: expl) None = ROk r -> r = spec_lookup k srcs expl.
Proof.
  intros (Hn & Hp & Hne & Hpe) Hk H.
  destruct fuel as [|f]; cbn [tlook] in H; [discriminate|].
  cbn [tlook_step] in H. unfold is_merge at 1 in H. rewrite str_eqb_refl, Hk in H. cbn [andb negb] in H.
  apply rbind_ok in H as (o1 & H1 & H).
  apply tmerge_merge_value in H1; [|assumption|assumption].
  rewrite tlook_step_plain in H by assumption. injection H as <-.
  unfold spec_lookup. subst o1. destruct (lookup_entry k expl); [reflexivity|].
  destruct (lookup_first k srcs); reflexivity.
Qed.

(* ---------------- the spec on the same map ---------------- *)
Lemma all_some_map_ok {A B : Type} (f : A -> option B) (g : A -> B) (l : list A) r :
  (forall x y, In x l -> f x = Some y -> y = g x) -> all_some (map f l) = Some r -> r = map g l.
Proof.
  revert r. induction l as [|x t IH]; intros r Hf H; cbn [map all_some] in H.
  - injection H as <-. reflexivity.
  - destruct (f x) as [y|] eqn:E; [|discriminate].
    destruct (all_some (map f t)) as [t'|] eqn:Et; [|discriminate]. injection H as <-.
    cbn [map]. rewrite (Hf x y (or_introl eq_refl) E). f_equal.
    apply IH; [|reflexivity]. intros x' y' Hx'. apply Hf. right. exact Hx'.
Qed.

Definition entry_value (kv : str * node) : str * value := (fst kv, value_of (snd kv)).

Lemma filter_plain_nonmerge es : forallb entry_plain es = true -> filter (fun kv => negb (is_merge (fst kv))) es = es.
Proof.
  induction es as [|[k v] r IH]; intros H; [reflexivity|].
  cbn [forallb] in H. apply andb_true_iff in H as [Hkv H]. apply entry_plain_inv in Hkv as [Hk _].
  cbn [filter fst]. rewrite Hk. cbn [negb]. f_equal. apply IH, H.
Qed.

Lemma filter_plain_merge es : forallb entry_plain es = true -> filter (fun kv => is_merge (fst kv)) es = [].
Proof.
  induction es as [|[k v] r IH]; intros H; [reflexivity|].
  cbn [forallb] in H. apply andb_true_iff in H as [Hkv H]. apply entry_plain_inv in Hkv as [Hk _].
  cbn [filter fst]. rewrite Hk. apply IH, H.
Qed.

Section ResolvePlain.
  Variable rec : node -> option value.
  Hypothesis Hrec : forall t v, plain t = true -> rec t = Some v -> v = value_of t.

  Lemma resolve_step_plain t v : plain t = true -> resolve_step rec t = Some v -> v = value_of t.
  Proof.
    destruct t as [a s|a l|a es|t0]; cbn [resolve_step plain value_of]; intros Hp H; try discriminate.
    - injection H as <-. reflexivity.
    - destruct (all_some (map rec l)) as [l'|] eqn:E; cbn [option_map] in H; [|discriminate]. injection H as <-.
      f_equal. eapply all_some_map_ok; [|exact E].
      intros x y Hx Hy. apply Hrec; [|exact Hy]. rewrite forallb_forall in Hp. apply Hp, Hx.
    - fold entry_plain in Hp. change (forallb (fun kv => negb (is_merge (fst kv)) && plain (snd kv)) es) with (forallb entry_plain es) in Hp.
      rewrite (filter_plain_nonmerge _ Hp), (filter_plain_merge _ Hp) in H. cbn [map all_some concat] in H.
      destruct (all_some _) as [ex|] eqn:E; [|discriminate]. injection H as <-. rewrite app_nil_r. f_equal.
      eapply (all_some_map_ok _ entry_value); [|exact E].
      intros [k x] y Hx Hy. cbn [fst snd] in Hy. destruct (rec x) as [vx|] eqn:Ex; cbn [option_map] in Hy; [|discriminate].
      injection Hy as <-. unfold entry_value. cbn [fst snd]. f_equal. apply Hrec; [|exact Ex].
      rewrite forallb_forall in Hp. apply (entry_plain_inv k x). apply Hp, Hx.
  Qed.
End ResolvePlain.

Lemma resolve_plain fuel : forall t v, plain t = true -> resolve fuel t = Some v -> v = value_of t.
Proof.
  induction fuel as [|f IH]; intros t v Hp H; cbn [resolve] in H; [discriminate|].
  eapply resolve_step_plain; [exact IH | exact Hp | exact H].
Qed.

Lemma plain_map a s : forallb entry_plain s = true -> plain (Mp a s) = true.
Proof. intros H. exact H. Qed.

Lemma vlookup_app k es1 es2 :
  vlookup k (es1 ++ es2) = match vlookup k es1 with Some v => Some v | None => vlookup k es2 end.
Proof.
  induction es1 as [|[k' v] r IH]; cbn [app vlookup]; [reflexivity|].
  destruct (str_eqb k k'); [reflexivity | exact IH].
Qed.

Lemma vlookup_entry_value k es : vlookup k (map entry_value es) = option_map value_of (lookup_entry k es).
Proof.
  induction es as [|[k' v] r IH]; cbn [map vlookup lookup_entry entry_value fst snd]; [reflexivity|].
  destruct (str_eqb k k'); [reflexivity | exact IH].
Qed.

Lemma vlookup_sources k srcs :
  vlookup k (concat (map (map entry_value) srcs)) = option_map value_of (lookup_first k srcs).
Proof.
  induction srcs as [|s r IH]; cbn [map concat lookup_first]; [reflexivity|].
  rewrite vlookup_app, vlookup_entry_value, IH. destruct (lookup_entry k s); reflexivity.
Qed.

Lemma source_entries_plain f s es :
  forallb entry_plain s = true -> source_entries (resolve f) (Al (Mp true s)) = Some es -> es = map entry_value s.
Proof.
  intros Hp H. cbn [source_entries] in H. destruct (resolve f (Mp true s)) as [v|] eqn:E; [|discriminate].
  apply resolve_plain in E; [|apply plain_map, Hp]. subst v. cbn [value_of] in H. injection H as <-. reflexivity.
Qed.

Lemma merge_sources_value f srcs es :
  (forall s, In s srcs -> forallb entry_plain s = true) ->
  merge_sources (resolve f) (merge_value srcs) = Some es -> es = concat (map (map entry_value) srcs).
Proof.
  intros Hp H.
  assert (Hlist : forall l r, (forall s, In s l -> forallb entry_plain s = true) ->
            all_some (map (source_entries (resolve f)) (map (fun s => Al (Mp true s)) l)) = Some r -> r = map (map entry_value) l).
  { intros l r Hl Hr. rewrite map_map in Hr. eapply all_some_map_ok; [|exact Hr].
    intros x y Hx Hy. eapply source_entries_plain; [apply Hl, Hx | exact Hy]. }
  unfold merge_value in H. destruct srcs as [|s [|s2 r]].
  - cbn in H. injection H as <-. reflexivity.
  - cbn [merge_sources] in H. apply source_entries_plain in H; [|apply Hp; left; reflexivity]. subst es.
    cbn [map concat]. rewrite app_nil_r. reflexivity.
  - cbn [merge_sources] in H. destruct (all_some _) as [r'|] eqn:E; cbn [option_map] in H; [|discriminate].
    injection H as <-. apply Hlist in E; [|exact Hp]. subst r'. reflexivity.
Qed.

Theorem spec_flat fuel a srcs expl k vs :
  merge_simple srcs expl -> is_merge k = false ->
  resolve fuel (Mp a ((merge_key, merge_value srcs) :: expl)) = Some (VM vs) ->
  vlookup k vs = option_map value_of (spec_lookup k srcs expl).
Proof.
  intros (Hn & Hp & Hne & Hpe) Hk H.
  destruct fuel as [|f]; cbn [resolve] in H; [discriminate|].
  assert (Hmk : is_merge merge_key = true) by reflexivity.
  cbn [resolve_step filter fst] in H. rewrite !Hmk in H. cbn [negb] in H.
  rewrite (filter_plain_nonmerge _ Hpe), (filter_plain_merge _ Hpe) in H. cbn [map all_some snd] in H.
  destruct (all_some (map _ expl)) as [ex|] eqn:Eex; [|discriminate].
  destruct (merge_sources (resolve f) (merge_value srcs)) as [ms|] eqn:Ems; [|discriminate].
  injection H as <-. cbn [concat]. rewrite app_nil_r.
  apply merge_sources_value in Ems; [|exact Hp]. subst ms.
  assert (ex = map entry_value expl) as ->.
  { eapply (all_some_map_ok _ entry_value); [|exact Eex].
    intros [k' x] y Hx Hy. cbn [fst snd] in Hy. destruct (resolve f x) as [vx|] eqn:Ex; cbn [option_map] in Hy; [|discriminate].
    injection Hy as <-. unfold entry_value. cbn [fst snd]. f_equal. eapply resolve_plain; [|exact Ex].
    rewrite forallb_forall in Hpe. apply (entry_plain_inv k' x). apply Hpe, Hx. }
  rewrite vlookup_app, vlookup_entry_value, vlookup_sources. unfold spec_lookup.
  destruct (lookup_entry k expl); reflexivity.
Qed.

(* ---------------- routes 2 and 3: the exploded map ---------------- *)
Local Open Scope nat_scope.
Section NodeInd.
  Variable P : node -> Prop.
  Hypothesis Hsc : forall a s, P (Sc a s).
  Hypothesis Hsq : forall a l, Forall P l -> P (Sq a l).
  Hypothesis Hmp : forall a es, Forall (fun kv => P (snd kv)) es -> P (Mp a es).
  Hypothesis Hal : forall t, P t -> P (Al t).

  Fixpoint node_ind' (t : node) : P t :=
    match t with
    | Sc a s => Hsc a s
    | Sq a l =>
        Hsq a l ((fix go (l : list node) : Forall P l :=
                    match l with
                    | [] => Forall_nil P
                    | x :: r => Forall_cons x (node_ind' x) (go r)
                    end) l)
    | Mp a es =>
        Hmp a es ((fix go (es : entries) : Forall (fun kv => P (snd kv)) es :=
                     match es with
                     | [] => Forall_nil _
                     | (k, v) :: r => Forall_cons (k, v) (node_ind' v) (go r)
                     end) es)
    | Al t' => Hal t' (node_ind' t')
    end.
End NodeInd.

Lemma strip_idem t : strip_anchors (strip_anchors t) = strip_anchors t.
Proof.
  induction t as [a s|a l IH|a es IH|t IH] using node_ind'; cbn [strip_anchors]; try reflexivity.
  - f_equal. rewrite map_map. apply map_ext_in. intros x Hx. rewrite Forall_forall in IH. apply IH, Hx.
  - f_equal. rewrite map_map. apply map_ext_in. intros [k v] Hx. cbn [fst snd]. f_equal.
    rewrite Forall_forall in IH. apply (IH (k, v)), Hx.
  - f_equal. exact IH.
Qed.

Lemma strip_plain t : plain t = true -> plain (strip_anchors t) = true.
Proof.
  induction t as [a s|a l IH|a es IH|t IH] using node_ind'; cbn [strip_anchors plain]; intros H; try assumption; try reflexivity.
  - rewrite forallb_forall in *. intros x Hx. apply in_map_iff in Hx as (y & <- & Hy).
    rewrite Forall_forall in IH. apply IH; [exact Hy | apply H, Hy].
  - rewrite forallb_forall in *. intros x Hx. apply in_map_iff in Hx as ([k v] & <- & Hy). cbn [fst snd].
    specialize (H _ Hy). cbn [fst snd] in H. apply andb_true_iff in H as [H1 H2]. rewrite H1. cbn.
    rewrite Forall_forall in IH. apply (IH (k, v)); assumption.
Qed.

Definition smap (s : entries) : entries := map (fun kv => (fst kv, strip_anchors (snd kv))) s.

Lemma keys_smap s : keys (smap s) = keys s.
Proof. unfold keys, smap. rewrite map_map. apply map_ext. reflexivity. Qed.

Lemma lookup_smap k s : lookup_entry k (smap s) = option_map strip_anchors (lookup_entry k s).
Proof.
  induction s as [|[k' v] r IH]; cbn [smap map lookup_entry fst snd]; [reflexivity|].
  destruct (str_eqb k k'); [reflexivity | exact IH].
Qed.

Lemma plain_smap s : forallb entry_plain s = true -> forallb entry_plain (smap s) = true.
Proof.
  intros H. rewrite forallb_forall in *. intros x Hx. apply in_map_iff in Hx as ([k v] & <- & Hy).
  specialize (H _ Hy). apply entry_plain_inv in H as [H1 H2]. unfold entry_plain. cbn [fst snd].
  rewrite H1, (strip_plain _ H2). reflexivity.
Qed.

(* list plumbing *)
Lemma every2_flat_texts es : every2 (flat_texts es) = map (fun kv => Some (fst kv)) es.
Proof. induction es as [|[k v] r IH]; [reflexivity|]. cbn [flat_texts flat_map app every2 map fst]. f_equal. exact IH. Qed.

Lemma skipn_flat_texts n : forall es, skipn (2 * n) (flat_texts es) = flat_texts (skipn n es).
Proof.
  induction n as [|n IH]; intros es; [reflexivity|].
  replace (2 * S n) with (S (S (2 * n))) by lia.
  destruct es as [|[k v] r]; [reflexivity|]. cbn [flat_texts flat_map app skipn]. apply IH.
Qed.

Lemma later_has_even es n key :
  later_has (flat_texts es) (2 * n) key = existsb (fun kv => str_eqb (fst kv) key) (skipn n es).
Proof.
  unfold later_has. rewrite skipn_flat_texts, every2_flat_texts.
  induction (skipn n es) as [|[k v] r IH]; [reflexivity|]. cbn [map existsb fst]. rewrite IH. reflexivity.
Qed.

Lemma in_every2 {A : Type} (x : A) : forall l, In x (every2 l) -> In x l.
Proof.
  fix IH 1. intros [|a [|b r]]; cbn [every2]; intros H; [destruct H | exact H |].
  destruct H as [->|H]; [left; reflexivity | right; right; apply IH, H].
Qed.

Lemma in_skipn {A : Type} (x : A) n : forall l, In x (skipn n l) -> In x l.
Proof. induction n as [|n IH]; intros [|a r] H; cbn [skipn] in H; try exact H. right. apply IH, H. Qed.

Lemma in_flat_texts k es : In (Some k) (flat_texts es) -> In k (keys es).
Proof.
  induction es as [|[k' v] r IH]; cbn [flat_texts flat_map app keys map fst snd]; [intros []|].
  intros [H|[H|H]].
  - injection H as ->. left. reflexivity.
  - discriminate.
  - right. exact (IH H).
Qed.

Lemma later_has_sound es n k : later_has (flat_texts es) n k = true -> In k (keys es).
Proof.
  unfold later_has. intros H. apply existsb_exists in H as (o & Hin & Ho).
  destruct o as [s|]; [|discriminate]. apply str_eqb_eq in Ho. subst s.
  apply in_flat_texts. eapply in_skipn, in_every2, Hin.
Qed.

(* lookups in the accumulator *)
Lemma has_key_lookup k acc : has_key k acc = false <-> lookup_entry k acc = None.
Proof.
  induction acc as [|[k' v] r IH]; cbn [has_key lookup_entry]; [split; reflexivity|].
  destruct (str_eqb k k'); cbn [orb]; [split; discriminate | exact IH].
Qed.

Lemma lookup_entry_app k a b :
  lookup_entry k (a ++ b) = match lookup_entry k a with Some v => Some v | None => lookup_entry k b end.
Proof.
  induction a as [|[k' v] r IH]; cbn [app lookup_entry]; [reflexivity|].
  destruct (str_eqb k k'); [reflexivity | exact IH].
Qed.

Lemma str_eqb_trans_false k k0 k' : str_eqb k0 k' = true -> str_eqb k k' = str_eqb k k0.
Proof. intros H. apply str_eqb_eq in H. subst. reflexivity. Qed.

Lemma lookup_replace_first k k0 v acc :
  has_key k0 acc = true ->
  lookup_entry k (replace_first k0 v acc) = if str_eqb k k0 then Some v else lookup_entry k acc.
Proof.
  induction acc as [|[k' v'] r IH]; cbn [has_key replace_first lookup_entry]; [discriminate|].
  destruct (str_eqb k0 k') eqn:E0; cbn [orb]; intros H.
  - cbn [lookup_entry]. rewrite (str_eqb_trans_false k k0 k' E0). destruct (str_eqb k k0); reflexivity.
  - cbn [lookup_entry]. destruct (str_eqb k k') eqn:E.
    + destruct (str_eqb k k0) eqn:E1; [|reflexivity].
      apply str_eqb_eq in E, E1. subst. rewrite str_eqb_refl in E0. discriminate.
    + apply IH, H.
Qed.

Lemma lookup_app_single k k0 v acc :
  has_key k0 acc = false ->
  lookup_entry k (acc ++ [(k0, v)]) = if str_eqb k k0 then Some v else lookup_entry k acc.
Proof.
  intros H. rewrite lookup_entry_app. cbn [lookup_entry].
  destruct (str_eqb k k0) eqn:E.
  - apply str_eqb_eq in E. subst. apply has_key_lookup in H. rewrite H. reflexivity.
  - destruct (lookup_entry k acc); reflexivity.
Qed.

Section ExplodeFlat.
  Variable rec : node -> res node.
  Hypothesis Hrec : forall t t', plain t = true -> rec t = ROk t' -> t' = strip_anchors t.

  (* what one overrideEntry does to the lookup of any key *)
  Lemma override_entry_lookup texts k0 v0 start acc acc' :
    plain v0 = true -> override_entry rec texts k0 v0 start acc = ROk acc' ->
    forall k,
      lookup_entry k acc' =
        if str_eqb k k0 then
          (if has_key k0 acc then Some (strip_anchors v0)
           else if later_has texts (start + 2) k0 then None else Some (strip_anchors v0))
        else lookup_entry k acc.
  Proof.
    intros Hp H k. unfold override_entry in H. apply rbind_ok in H as (v' & Hv & H).
    apply Hrec in Hv; [|exact Hp]. subst v'.
    destruct (has_key k0 acc) eqn:Eh.
    - injection H as <-. apply lookup_replace_first, Eh.
    - destruct (later_has texts (start + 2) k0) eqn:El; injection H as <-.
      + destruct (str_eqb k k0) eqn:E; [|reflexivity]. apply str_eqb_eq in E. subst. apply has_key_lookup, Eh.
      + apply lookup_app_single, Eh.
  Qed.

  (* the explicit entries, from position i on *)
  Lemma recon_explicit es r : forall pre i acc acc',
    es = pre ++ r -> length pre = i -> forallb entry_plain r = true -> NoDup (keys r) ->
    recon rec (flat_texts es) r i acc = ROk acc' ->
    forall k, lookup_entry k acc' =
              match lookup_entry k r with Some v => Some (strip_anchors v) | None => lookup_entry k acc end.
  Proof.
    induction r as [|[k0 v0] r' IH]; intros pre i acc acc' Hes Hlen Hp Hn H k; cbn [recon] in H.
    - injection H as <-. reflexivity.
    - cbn [forallb] in Hp. apply andb_true_iff in Hp as [Hkv Hp]. apply entry_plain_inv in Hkv as [Hk0 Hv0].
      cbn [keys map fst] in Hn. inversion Hn as [|? ? Hnotin Hn']; subst k0 l.
      rewrite Hk0 in H. apply rbind_ok in H as (acc1 & H1 & H).
      pose proof (override_entry_lookup _ _ _ _ _ _ Hv0 H1) as Hl.
      assert (Hnl : later_has (flat_texts es) (2 * i + 2) x = false).
      { replace (2 * i + 2) with (2 * S i) by lia. rewrite later_has_even.
        assert (Hsk : skipn (S i) es = r').
        { rewrite Hes, skipn_app. rewrite <- Hlen.
          replace (S (length pre) - length pre) with 1 by lia.
          rewrite skipn_all2 by lia. reflexivity. }
        rewrite Hsk. destruct (existsb (fun kv => str_eqb (fst kv) x) r') eqn:Ex; [|reflexivity].
        exfalso. apply existsb_exists in Ex as ([k1 v1] & Hin & Hk1). cbn [fst] in Hk1. apply str_eqb_eq in Hk1. subst k1.
        apply Hnotin. apply in_map_iff. exists (x, v1). split; [reflexivity | exact Hin]. }
      specialize (IH (pre ++ [(x, v0)]) (S i) acc1 acc').
      rewrite (IH ltac:(rewrite <- app_assoc; exact Hes) ltac:(rewrite app_length; cbn; lia) Hp Hn' H k).
      cbn [lookup_entry]. rewrite (Hl k), Hnl.
      destruct (str_eqb k x) eqn:E.
      + apply str_eqb_eq in E. subst k. rewrite (lookup_entry_none _ _ Hnotin).
        destruct (has_key x acc); reflexivity.
      + reflexivity.
  Qed.
End ExplodeFlat.

Lemma lookup_entry_some_of_in k es : In k (keys es) -> exists v, lookup_entry k es = Some v.
Proof.
  induction es as [|[k' v] r IH]; cbn [keys map fst lookup_entry]; [intros []|].
  intros [H|H].
  - subst. rewrite str_eqb_refl. eexists; reflexivity.
  - destruct (str_eqb k k'); [eexists; reflexivity | apply IH, H].
Qed.

Lemma lookup_first_app k a b :
  lookup_first k (a ++ b) = match lookup_first k a with Some v => Some v | None => lookup_first k b end.
Proof.
  induction a as [|s r IH]; cbn [app lookup_first]; [reflexivity|].
  destruct (lookup_entry k s); [reflexivity | exact IH].
Qed.

Lemma lookup_first_in k srcs v : lookup_first k srcs = Some v -> In k (flat_map keys srcs).
Proof.
  induction srcs as [|s r IH]; cbn [lookup_first flat_map]; [discriminate|].
  destruct (lookup_entry k s) as [x|] eqn:E; intros H; apply in_or_app.
  - left. eapply lookup_entry_in, E.
  - right. apply IH, H.
Qed.

Lemma lookup_first_rev k srcs : NoDup (flat_map keys srcs) -> lookup_first k (rev srcs) = lookup_first k srcs.
Proof.
  induction srcs as [|s r IH]; intros Hn; [reflexivity|].
  cbn [rev flat_map] in *. rewrite lookup_first_app, (IH (NoDup_app_r _ _ Hn)). cbn [lookup_first].
  destruct (lookup_first k r) as [x|] eqn:Er; destruct (lookup_entry k s) as [y|] eqn:Es; try reflexivity.
  exfalso. eapply NoDup_app_disj; [exact Hn | eapply lookup_entry_in, Es | eapply lookup_first_in, Er].
Qed.

Lemma indexed_map {A B : Type} (f : A -> B) (l : list A) : forall i,
  indexed i (map f l) = map (fun js => (fst js, f (snd js))) (indexed i l).
Proof. induction l as [|a r IH]; intros i; [reflexivity|]. cbn [map indexed fst snd]. f_equal. apply IH. Qed.

Lemma indexed_snd {A : Type} (l : list A) : forall i, map snd (indexed i l) = l.
Proof. induction l as [|a r IH]; intros i; [reflexivity|]. cbn [indexed map snd]. f_equal. apply IH. Qed.

Section ExplodeFlat2.
  Variable rec : node -> res node.
  Hypothesis Hrec : forall t t', plain t = true -> rec t = ROk t' -> t' = strip_anchors t.
  Variable texts : list (option str).
  Variable k : str.

  Lemma override_all_k tes : forall start acc acc',
    forallb entry_plain tes = true -> NoDup (keys tes) ->
    (In k (keys tes) -> lookup_entry k acc = None /\ forall n, later_has texts n k = false) ->
    override_all rec texts tes start acc = ROk acc' ->
    lookup_entry k acc' = match lookup_entry k tes with Some v => Some (strip_anchors v) | None => lookup_entry k acc end.
  Proof.
    induction tes as [|[k0 v0] r IH]; intros start acc acc' Hp Hn Hk H; cbn [override_all] in H.
    - injection H as <-. reflexivity.
    - cbn [forallb] in Hp. apply andb_true_iff in Hp as [Hkv Hp]. apply entry_plain_inv in Hkv as [_ Hv0].
      cbn [keys map fst] in Hn, Hk. inversion Hn as [|? ? Hnotin Hn']; subst.
      apply rbind_ok in H as (acc1 & H1 & H).
      pose proof (override_entry_lookup rec Hrec _ _ _ _ _ _ Hv0 H1 k) as Hl.
      cbn [lookup_entry]. destruct (str_eqb k k0) eqn:E.
      + apply str_eqb_eq in E. subst k0. destruct (Hk (or_introl eq_refl)) as [Hnone Hlater].
        apply has_key_lookup in Hnone. rewrite Hnone, Hlater in Hl.
        rewrite (IH _ _ _ Hp Hn' ltac:(intro Hin; exfalso; exact (Hnotin Hin)) H).
        rewrite (lookup_entry_none _ _ Hnotin). exact Hl.
      + rewrite <- Hl. eapply IH; [exact Hp | exact Hn' | | exact H].
        intros Hin. rewrite Hl. apply Hk. right. exact Hin.
  Qed.

  Lemma apply_alias_k s j acc acc' :
    forallb entry_plain s = true -> NoDup (keys s) ->
    (In k (keys s) -> lookup_entry k acc = None /\ forall n, later_has texts n k = false) ->
    apply_alias rec texts (Al (Mp true s)) j acc = ROk acc' ->
    lookup_entry k acc' = match lookup_entry k s with Some v => Some (strip_anchors v) | None => lookup_entry k acc end.
  Proof.
    intros Hp Hn Hk H. cbn [apply_alias] in H. apply rbind_ok in H as (t' & Ht & H).
    apply Hrec in Ht; [|apply plain_map, Hp]. subst t'. cbn [strip_anchors] in H. fold (smap s) in H.
    apply override_all_k in H; [| apply plain_smap, Hp | rewrite keys_smap; exact Hn | rewrite keys_smap; exact Hk].
    rewrite H, lookup_smap. destruct (lookup_entry k s) as [v|]; cbn [option_map]; [|reflexivity].
    rewrite strip_idem. reflexivity.
  Qed.

  Lemma apply_seq_rev_k (L : list (nat * entries)) : forall acc acc',
    NoDup (flat_map keys (map snd L)) -> (forall s, In s (map snd L) -> forallb entry_plain s = true) ->
    (In k (flat_map keys (map snd L)) -> lookup_entry k acc = None /\ forall n, later_has texts n k = false) ->
    apply_seq_rev rec texts (map (fun js => (fst js, Al (Mp true (snd js)))) L) acc = ROk acc' ->
    lookup_entry k acc' = match lookup_first k (map snd L) with Some v => Some (strip_anchors v) | None => lookup_entry k acc end.
  Proof.
    induction L as [|[j s] r IH]; intros acc acc' Hn Hp Hk H; cbn [map apply_seq_rev fst snd lookup_first] in *.
    - injection H as <-. reflexivity.
    - cbn [flat_map] in Hn, Hk. apply rbind_ok in H as (acc1 & H1 & H).
      apply apply_alias_k in H1;
        [| apply Hp; left; reflexivity | eapply NoDup_app_l, Hn | intros Hin; apply Hk, in_or_app; left; exact Hin].
      apply IH in H; [| eapply NoDup_app_r, Hn | intros s' Hs'; apply Hp; right; exact Hs' |].
      + rewrite H, H1. destruct (lookup_entry k s) as [v|] eqn:Es; [|reflexivity].
        rewrite lookup_first_none; [reflexivity|].
        eapply NoDup_app_disj; [exact Hn | eapply lookup_entry_in, Es].
      + intros Hin. destruct (Hk (in_or_app _ _ _ (or_intror Hin))) as [Hnone Hl]. split; [|exact Hl].
        rewrite H1. rewrite lookup_entry_none; [exact Hnone|].
        intro Hks. eapply NoDup_app_disj; [exact Hn | exact Hks | exact Hin].
  Qed.
End ExplodeFlat2.

Lemma is_merge_false_neq k : is_merge k = false -> k <> merge_key.
Proof. intros H E. subst. discriminate. Qed.

Lemma merged_key_never_skipped srcs expl k :
  is_merge k = false -> lookup_entry k expl = None ->
  forall n, later_has (flat_texts ((merge_key, merge_value srcs) :: expl)) n k = false.
Proof.
  intros Hk Hnone n.
  destruct (later_has _ n k) eqn:E; [|reflexivity]. exfalso.
  apply later_has_sound in E. cbn [keys map fst] in E.
  destruct E as [E|E]; [symmetry in E; exact (is_merge_false_neq _ Hk E)|].
  apply lookup_entry_some_of_in in E as (v & Ev). congruence.
Qed.

Theorem route23_flat fuel a srcs expl k d' :
  merge_simple srcs expl -> is_merge k = false ->
  explode fuel (Mp a ((merge_key, merge_value srcs) :: expl)) = ROk d' ->
  exists es', d' = Mp false es' /\ lookup_entry k es' = option_map strip_anchors (spec_lookup k srcs expl).
Proof.
  intros HMS Hk H. pose proof HMS as (Hn & Hp & Hne & Hpe).
  destruct fuel as [|f]; cbn [explode] in H; [discriminate|].
  set (es := (merge_key, merge_value srcs) :: expl) in *.
  assert (Hrec : forall t t', plain t = true -> explode f t = ROk t' -> t' = strip_anchors t) by (intros; eapply explode_plain; eassumption).
  cbn [explode_step] in H. assert (Hm : has_merge es = true) by reflexivity. rewrite Hm in H.
  apply rbind_ok in H as (es' & He & H). injection H as <-. exists es'. split; [reflexivity|].
  unfold es in He at 2. cbn [recon] in He. assert (Hmk : is_merge merge_key = true) by reflexivity. rewrite Hmk in He.
  apply rbind_ok in He as (acc1 & H1 & He).
  pose proof (recon_explicit (explode f) Hrec es expl [(merge_key, merge_value srcs)] 1 acc1 es' eq_refl eq_refl Hpe Hne He k) as Hfin.
  rewrite Hfin. unfold spec_lookup. destruct (lookup_entry k expl) as [v|] eqn:Eex; [reflexivity|].
  (* k is not explicit: what the merge phase left *)
  assert (Hsrc : lookup_entry k acc1 = match lookup_first k srcs with Some v => Some (strip_anchors v) | None => None end).
  { assert (Hcond : In k (flat_map keys srcs) -> lookup_entry k (@nil (str * node)) = None /\ forall n, later_has (flat_texts es) n k = false).
    { intros Hin. split; [reflexivity|]. apply merged_key_never_skipped; assumption. }
    assert (Hseq : forall items,
              items = map (fun s => Al (Mp true s)) srcs ->
              apply_seq_rev (explode f) (flat_texts es) (rev (indexed 0 items)) [] = ROk acc1 ->
              lookup_entry k acc1 = match lookup_first k srcs with Some v => Some (strip_anchors v) | None => None end).
    { intros items -> Hs. rewrite indexed_map, <- map_rev in Hs.
      apply (apply_seq_rev_k (explode f) Hrec (flat_texts es) k) in Hs.
      - rewrite Hs, map_rev, indexed_snd, lookup_first_rev by exact Hn. reflexivity.
      - rewrite map_rev, indexed_snd. eapply Permutation_NoDup; [|exact Hn].
        apply Permutation_flat_map, Permutation_rev.
      - rewrite map_rev, indexed_snd. intros s Hs'. apply Hp. apply in_rev. exact Hs'.
      - rewrite map_rev, indexed_snd. intros Hin. apply Hcond.
        apply in_flat_map in Hin as (s & Hs1 & Hs2). apply in_flat_map. exists s. split; [apply in_rev; exact Hs1 | exact Hs2]. }
    unfold merge_value in H1. destruct srcs as [|s [|s2 r]].
    - apply (Hseq []); [reflexivity | exact H1].
    - cbn [lookup_first]. apply (apply_alias_k (explode f) Hrec (flat_texts es) k) in H1.
      + rewrite H1. destruct (lookup_entry k s); reflexivity.
      + apply Hp. left. reflexivity.
      + cbn [flat_map] in Hn. rewrite app_nil_r in Hn. exact Hn.
      + intros Hin. apply Hcond. cbn [flat_map]. rewrite app_nil_r. exact Hin.
    - eapply Hseq; [reflexivity | exact H1]. }
  rewrite Hsrc. destruct (lookup_first k srcs); reflexivity.
Qed.

(* the three routes together *)
Theorem three_routes_flat (fuel : nat) (a : bool) (srcs : list entries) (expl : entries) (k : str) :
  merge_simple srcs expl -> is_merge k = false ->
  let es := (merge_key, merge_value srcs) :: expl in
  let want := spec_lookup k srcs expl in
  (forall r, tlook fuel k es None = ROk r -> r = want)
  /\ (forall d', explode fuel (Mp a es) = ROk d' ->
        exists es', d' = Mp false es' /\ lookup_entry k es' = option_map strip_anchors want)
  /\ (forall vs, resolve fuel (Mp a es) = Some (VM vs) -> vlookup k vs = option_map value_of want).
Proof.
  intros HMS Hk. cbv zeta. split; [|split].
  - intros r H. eapply route1_flat; eassumption.
  - intros d' H. eapply route23_flat; eassumption.
  - intros vs H. eapply spec_flat; eassumption.
Qed.
