(* Proofs/AliasProofs.v — lemmas about Model/Alias.v and Spec/YamlMergeSpec.v for property C13. *)
From Coq Require Import List NArith Bool Lia.
From YQ Require Import Base.Str Spec.YamlMergeSpec Model.Alias.
Import ListNotations.

Definition entry_clean (kv : str * node) : bool := negb (is_merge (fst kv)) && clean (snd kv).
Definition entries_clean (es : entries) : bool := forallb entry_clean es.

Lemma clean_map a es : clean (Mp a es) = negb a && entries_clean es.
Proof. reflexivity. Qed.

Lemma rbind_ok {A B : Type} (o : res A) (f : A -> res B) (b : B) :
  rbind o f = ROk b -> exists a, o = ROk a /\ f a = ROk b.
Proof. destruct o; cbn [rbind]; intros H; try discriminate. eexists; split; [reflexivity | exact H]. Qed.

(* ================================================================== *)
(* 1. explode leaves no alias, no anchor, no merge key                 *)
(* ================================================================== *)
Section CleanStep.
  Variable rec : node -> res node.
  Hypothesis Hrec : forall t t', rec t = ROk t' -> clean t' = true.

  Lemma map_res_clean l l' : map_res rec l = ROk l' -> forallb clean l' = true.
  Proof.
    revert l'. induction l as [|x r IH]; intros l' H; cbn [map_res] in H.
    - injection H as <-. reflexivity.
    - apply rbind_ok in H as (x' & Hx & H). apply rbind_ok in H as (r' & Hr & H). injection H as <-.
      cbn [forallb]. rewrite (Hrec _ _ Hx), (IH _ Hr). reflexivity.
  Qed.

  Lemma map_entries_clean es es' :
    has_merge es = false -> map_entries rec es = ROk es' -> entries_clean es' = true.
  Proof.
    revert es'. induction es as [|[k v] r IH]; intros es' Hm H; cbn [map_entries] in H.
    - injection H as <-. reflexivity.
    - apply rbind_ok in H as (v' & Hv & H). apply rbind_ok in H as (r' & Hr & H). injection H as <-.
      unfold has_merge in Hm. cbn [existsb fst] in Hm. apply orb_false_iff in Hm as [Hk Hm].
      unfold entries_clean. cbn [forallb]. unfold entry_clean at 1. cbn [fst snd].
      rewrite Hk, (Hrec _ _ Hv). cbn. apply IH; assumption.
  Qed.

  Lemma replace_first_clean k v acc :
    clean v = true -> entries_clean acc = true -> entries_clean (replace_first k v acc) = true.
  Proof.
    intros Hv. induction acc as [|[k' v'] r IH]; intros H; cbn [replace_first]; [reflexivity|].
    unfold entries_clean in *. cbn [forallb] in H. apply andb_true_iff in H as [H1 H2].
    destruct (str_eqb k k').
    - cbn [forallb]. rewrite H2, andb_true_r. unfold entry_clean in *. cbn [fst snd] in *.
      apply andb_true_iff in H1 as [H1 _]. rewrite H1, Hv. reflexivity.
    - cbn [forallb]. rewrite H1. cbn. apply IH, H2.
  Qed.

  Lemma override_entry_clean texts key v start acc acc' :
    is_merge key = false -> entries_clean acc = true ->
    override_entry rec texts key v start acc = ROk acc' -> entries_clean acc' = true.
  Proof.
    intros Hk Hacc H. unfold override_entry in H. apply rbind_ok in H as (v' & Hv & H).
    apply Hrec in Hv.
    destruct (has_key key acc).
    - injection H as <-. apply replace_first_clean; assumption.
    - destruct (later_has texts (start + 2) key); injection H as <-; [exact Hacc|].
      unfold entries_clean. rewrite forallb_app. fold (entries_clean acc). rewrite Hacc.
      cbn [forallb]. unfold entry_clean. cbn [fst snd]. rewrite Hk, Hv. reflexivity.
  Qed.

  Lemma override_all_clean texts tes : forall start acc acc',
    entries_clean tes = true -> entries_clean acc = true ->
    override_all rec texts tes start acc = ROk acc' -> entries_clean acc' = true.
  Proof.
    induction tes as [|[k v] r IH]; intros start acc acc' Ht Hacc H; cbn [override_all] in H.
    - injection H as <-. exact Hacc.
    - apply rbind_ok in H as (acc1 & H1 & H).
      unfold entries_clean in Ht. cbn [forallb] in Ht. apply andb_true_iff in Ht as [Hkv Ht].
      unfold entry_clean in Hkv. cbn [fst snd] in Hkv. apply andb_true_iff in Hkv as [Hk _].
      apply negb_true_iff in Hk.
      eapply IH; [exact Ht | | exact H]. eapply override_entry_clean; eassumption.
  Qed.

  Lemma apply_alias_clean texts item idx acc acc' :
    entries_clean acc = true -> apply_alias rec texts item idx acc = ROk acc' -> entries_clean acc' = true.
  Proof.
    intros Hacc H. destruct item as [a s|a l|a es|t]; cbn [apply_alias] in H; try (injection H as <-; exact Hacc).
    apply rbind_ok in H as (t' & Ht & H). apply Hrec in Ht.
    destruct t' as [a s|a l|a tes|t']; try discriminate.
    rewrite clean_map in Ht. apply andb_true_iff in Ht as [_ Ht].
    eapply override_all_clean; eassumption.
  Qed.

  Lemma apply_seq_rev_clean texts ritems : forall acc acc',
    entries_clean acc = true -> apply_seq_rev rec texts ritems acc = ROk acc' -> entries_clean acc' = true.
  Proof.
    induction ritems as [|[j item] r IH]; intros acc acc' Hacc H; cbn [apply_seq_rev] in H.
    - injection H as <-. exact Hacc.
    - apply rbind_ok in H as (acc1 & H1 & H). eapply IH; [|exact H]. eapply apply_alias_clean; eassumption.
  Qed.

  Lemma recon_clean texts es : forall i acc acc',
    entries_clean acc = true -> recon rec texts es i acc = ROk acc' -> entries_clean acc' = true.
  Proof.
    induction es as [|[k v] r IH]; intros i acc acc' Hacc H; cbn [recon] in H.
    - injection H as <-. exact Hacc.
    - apply rbind_ok in H as (acc1 & H1 & H). eapply IH; [|exact H].
      destruct (is_merge k) eqn:Hk.
      + destruct v as [a s|a l|a es'|t]; try (eapply apply_alias_clean; eassumption).
        eapply apply_seq_rev_clean; eassumption.
      + eapply override_entry_clean; eassumption.
  Qed.

  Lemma explode_step_clean t t' : explode_step rec t = ROk t' -> clean t' = true.
  Proof.
    destruct t as [a s|a l|a es|t0]; cbn [explode_step]; intros H.
    - injection H as <-. reflexivity.
    - apply rbind_ok in H as (l' & Hl & H). injection H as <-. cbn [clean negb andb].
      eapply map_res_clean, Hl.
    - destruct (has_merge es) eqn:Hm; apply rbind_ok in H as (es' & He & H); injection H as <-;
        rewrite clean_map; cbn [negb andb].
      + eapply recon_clean; [|exact He]. reflexivity.
      + eapply map_entries_clean; eassumption.
    - eapply Hrec, H.
  Qed.
End CleanStep.

Theorem explode_clean fuel : forall t t', explode fuel t = ROk t' -> clean t' = true.
Proof.
  induction fuel as [|f IH]; intros t t' H; cbn [explode] in H; [discriminate|].
  eapply explode_step_clean; [exact IH | exact H].
Qed.

(* ================================================================== *)
(* 2. a tree without aliases and merge keys only loses its anchors     *)
(* ================================================================== *)
Section PlainStep.
  Variable rec : node -> res node.
  Hypothesis Hrec : forall t t', plain t = true -> rec t = ROk t' -> t' = strip_anchors t.

  Lemma map_res_plain l l' : forallb plain l = true -> map_res rec l = ROk l' -> l' = map strip_anchors l.
  Proof.
    revert l'. induction l as [|x r IH]; intros l' Hp H; cbn [map_res] in H.
    - injection H as <-. reflexivity.
    - cbn [forallb] in Hp. apply andb_true_iff in Hp as [Hx Hr].
      apply rbind_ok in H as (x' & Ex & H). apply rbind_ok in H as (r' & Er & H). injection H as <-.
      cbn [map]. rewrite (Hrec _ _ Hx Ex), (IH _ Hr Er). reflexivity.
  Qed.

  Lemma map_entries_plain es es' :
    forallb (fun kv => negb (is_merge (fst kv)) && plain (snd kv)) es = true ->
    map_entries rec es = ROk es' -> es' = map (fun kv => (fst kv, strip_anchors (snd kv))) es.
  Proof.
    revert es'. induction es as [|[k v] r IH]; intros es' Hp H; cbn [map_entries] in H.
    - injection H as <-. reflexivity.
    - cbn [forallb fst snd] in Hp. apply andb_true_iff in Hp as [Hkv Hr]. apply andb_true_iff in Hkv as [_ Hv].
      apply rbind_ok in H as (v' & Ev & H). apply rbind_ok in H as (r' & Er & H). injection H as <-.
      cbn [map fst snd]. rewrite (Hrec _ _ Hv Ev), (IH _ Hr Er). reflexivity.
  Qed.

  Lemma plain_no_merge es :
    forallb (fun kv => negb (is_merge (fst kv)) && plain (snd kv)) es = true -> has_merge es = false.
  Proof.
    induction es as [|[k v] r IH]; intros H; [reflexivity|].
    cbn [forallb fst snd] in H. apply andb_true_iff in H as [Hkv Hr]. apply andb_true_iff in Hkv as [Hk _].
    unfold has_merge. cbn [existsb fst]. apply negb_true_iff in Hk. rewrite Hk. apply IH, Hr.
  Qed.

  Lemma explode_step_plain t t' : plain t = true -> explode_step rec t = ROk t' -> t' = strip_anchors t.
  Proof.
    destruct t as [a s|a l|a es|t0]; cbn [explode_step plain strip_anchors]; intros Hp H; try discriminate.
    - injection H as <-. reflexivity.
    - apply rbind_ok in H as (l' & Hl & H). injection H as <-. f_equal. apply map_res_plain; assumption.
    - rewrite (plain_no_merge _ Hp) in H. apply rbind_ok in H as (es' & He & H). injection H as <-.
      f_equal. apply map_entries_plain; assumption.
  Qed.
End PlainStep.

Theorem explode_plain fuel : forall t t', plain t = true -> explode fuel t = ROk t' -> t' = strip_anchors t.
Proof.
  induction fuel as [|f IH]; intros t t' Hp H; cbn [explode] in H; [discriminate|].
  eapply explode_step_plain; [exact IH | exact Hp | exact H].
Qed.
