(* Proofs/AliasProofs.v — lemmas about Model/Alias.v and Spec/YamlMergeSpec.v for property C13. *)
From Coq Require Import List NArith Bool Lia.
From YQ Require Import Base.Str Spec.YamlMergeSpec Model.Alias.
Import ListNotations.

Lemma explode_scalar f a s : explode (S f) (Sc a s) = ROk (Sc false s).
Proof. reflexivity. Qed.
