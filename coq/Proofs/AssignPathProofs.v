(* Proofs/AssignPathProofs.v — C02: on the evaluator model, assigning a scalar
   at ANY simple path (keys and non-negative index literals, mixed, of any
   length, existing or to be created) is the lens [put] of Spec/Lens.v.
   Generalises Proofs/AssignProofs.v (key paths).  Evaluating an index literal
   allocates scratch roots, so stores are compared up to roots appended at the
   end ([st ++ g]); the document is root 0 and is never moved. *)
From Coq Require Import Arith ZArith Lia List.
From YQ Require Import Base.Str Model.Node Model.Store Model.Eval Spec.Lens Proofs.LensProofs Proofs.AssignProofs Proofs.EvalRO.
Import ListNotations.

(* evaluator-side path steps: a key, or an index literal (its text and the number it denotes) *)
Inductive estep := EK (k : str) | EI (t : str) (i : nat).

Definition erase (s : estep) : pstep := match s with EK k => SKey k | EI _ i => SIdx i end.

Definition step_expr (s : estep) : expr :=
  match s with EK k => EKey k | EI t _ => EIndex ESelf (Some (ELit TInt t)) end.

(* `s1 | s2 | ... | sn`, nested to the right (what the parser builds for .a[1].b) *)
Fixpoint pe (p : list estep) : expr :=
  match p with
  | [] => ESelf
  | [s] => step_expr s
  | s :: r => EPipe (step_expr s) (pe r)
  end.

Definition step_ok (s : estep) : Prop :=
  match s with
  | EK k => is_wild k = false
  | EI t i => Z_of_index t = Ok (Z.of_nat i) /\ (Z.of_nat i <= 100000)%Z
  end.

(* ---------- one step, purely ---------- *)
(* the container after a writable traversal of one step (the child keeps its old value), the child's position, the child *)
Definition step1 (s : estep) (n : node) : option (node * nat * node) :=
  match s with
  | EK k =>
      let on_map es :=
        match find_idx es k with
        | Some i => match nth_error es i with Some (_, c) => Some (Map es, i, c) | None => None end
        | None => Some (Map (es ++ [(k, null_node)]), length es, null_node)
        end in
      match n with Map es => on_map es | Scalar TNull _ => on_map [] | _ => None end
  | EI _ i =>
      let on_seq items :=
        let items' := pad_to items (S i - length items) in
        match nth_error items' i with Some (_, c) => Some (Seq items', i, c) | None => None end in
      match n with Seq items => on_seq items | Scalar TNull _ => on_seq [] | _ => None end
  end.

(* the same step in a read-only context: it must exist *)
Definition res1 (s : estep) (n : node) : option (nat * node) :=
  match s, n with
  | EK k, Map es =>
      match find_idx es k with
      | Some i => match nth_error es i with Some (_, c) => Some (i, c) | None => None end
      | None => None
      end
  | EI _ i, Seq items => match nth_error items i with Some (_, c) => Some (i, c) | None => None end
  | _, _ => None
  end.

Fixpoint vivp (p : list estep) (n : node) : option (node * list nat) :=
  match p with
  | [] => Some (n, [])
  | s :: r =>
      match step1 s n with
      | Some (m, i, c) =>
          match vivp r c with
          | Some (c', pos) => Some (upd_at m [i] (fun _ => c'), i :: pos)
          | None => None
          end
      | None => None
      end
  end.

Fixpoint resolvep (p : list estep) (n : node) : option (list nat) :=
  match p with
  | [] => Some []
  | s :: r => match res1 s n with Some (i, c) => option_map (cons i) (resolvep r c) | None => None end
  end.

Lemma upd_nth_app_last {A} (l : list A) x f : upd_nth (l ++ [x]) (length l) f = l ++ [f x].
Proof. induction l as [|y l IH]; cbn; [reflexivity|]. f_equal. exact IH. Qed.

Lemma upd_nth_same_ext {A} (l : list A) i f g x :
  nth_error l i = Some x -> f x = g x -> upd_nth l i f = upd_nth l i g.
Proof.
  revert i. induction l as [|y l IH]; intros [|i] H Hfg; cbn in *; try discriminate.
  - injection H as ->. rewrite Hfg. reflexivity.
  - f_equal. apply IH; assumption.
Qed.

(* the lens put, one step at a time *)
Lemma put_step s p v n :
  put (erase s :: p) v n =
  match step1 s n with
  | Some (m, i, c) => option_map (fun c' => upd_at m [i] (fun _ => c')) (put p v c)
  | None => None
  end.
Proof.
  destruct s as [k|t i]; cbn [erase put step1].
  - assert (H : forall es,
      match find_idx es k with
      | Some i => match nth_error es i with
                  | Some (k', c) => option_map (fun c' => Map (upd_nth es i (fun _ => (k', c')))) (put p v c)
                  | None => None
                  end
      | None => option_map (fun c' => Map (es ++ [(k, c')])) (put p v null_node)
      end =
      match match find_idx es k with
            | Some i => match nth_error es i with Some (_, c) => Some (Map es, i, c) | None => None end
            | None => Some (Map (es ++ [(k, null_node)]), length es, null_node)
            end
      with Some (m, i, c) => option_map (fun c' => upd_at m [i] (fun _ => c')) (put p v c) | None => None end).
    { intros es. destruct (find_idx es k) as [i|].
      - destruct (nth_error es i) as [[k' c]|] eqn:En; [|reflexivity].
        destruct (put p v c) as [c'|]; [|reflexivity]. cbn [option_map upd_at]. f_equal. f_equal.
        apply upd_nth_same_ext with (x := (k', c)); [assumption | reflexivity].
      - destruct (put p v null_node) as [c'|]; [|reflexivity]. cbn [option_map upd_at]. f_equal. f_equal.
        rewrite upd_nth_app_last. reflexivity. }
    destruct n as [[] tv|items|es]; try reflexivity; apply H.
  - assert (H : forall items,
      match nth_error (pad_to items (S i - length items)) i with
      | Some (k, c) => option_map (fun c' => Seq (upd_nth (pad_to items (S i - length items)) i (fun _ => (k, c')))) (put p v c)
      | None => None
      end =
      match match nth_error (pad_to items (S i - length items)) i with
            | Some (_, c) => Some (Seq (pad_to items (S i - length items)), i, c)
            | None => None
            end
      with Some (m, i0, c) => option_map (fun c' => upd_at m [i0] (fun _ => c')) (put p v c) | None => None end).
    { intros items. destruct (nth_error (pad_to items (S i - length items)) i) as [[k c]|] eqn:En; [|reflexivity].
      destruct (put p v c) as [c'|]; [|reflexivity]. cbn [option_map upd_at]. f_equal. f_equal.
      apply upd_nth_same_ext with (x := (k, c)); [assumption | reflexivity]. }
    destruct n as [[] tv|items|es]; try reflexivity; apply H.
Qed.

Lemma put_is_vivp p v : forall n,
  put (List.map erase p) v n =
  match vivp p n with Some (n1, pos) => Some (upd_at n1 pos (fun _ => v)) | None => None end.
Proof.
  induction p as [|s r IH]; intros n; [reflexivity|].
  cbn [List.map vivp]. rewrite put_step. destruct (step1 s n) as [[[m i] c]|]; [|reflexivity].
  rewrite IH. destruct (vivp r c) as [[c' pos]|]; [|reflexivity]. cbn [option_map]. f_equal.
  (* upd_at (upd_at m [i] (fun _ => c')) (i :: pos) (fun _ => v) = upd_at m [i] (fun _ => upd_at c' pos (fun _ => v)) *)
  change (i :: pos) with ([i] ++ pos). rewrite upd_at_app. rewrite upd_at_twice. reflexivity.
Qed.

(* ---------- stores up to scratch roots appended at the end ---------- *)
Lemma deref_app_l st g c n : deref st c = Some n -> deref (st ++ g) c = Some n.
Proof.
  unfold deref. destruct (nth_error st (fst c)) as [rt|] eqn:E; [|discriminate].
  rewrite nth_error_app1 by (apply nth_error_Some; congruence). rewrite E. auto.
Qed.

Lemma deref_lt st c n : deref st c = Some n -> (fst c < length st)%nat.
Proof. unfold deref. destruct (nth_error st (fst c)) eqn:E; [|discriminate]. intros _. apply nth_error_Some. congruence. Qed.

Lemma upd_nth_app_l {A} (l g : list A) i f : (i < length l)%nat -> upd_nth (l ++ g) i f = upd_nth l i f ++ g.
Proof.
  revert i. induction l as [|x l IH]; intros i Hi; cbn in Hi; [lia|].
  destruct i as [|i]; cbn; [reflexivity|]. f_equal. apply IH. lia.
Qed.

Lemma update_app_l st g c f : (fst c < length st)%nat -> update (st ++ g) c f = update st c f ++ g.
Proof. intros H. unfold update. apply upd_nth_app_l. exact H. Qed.

(* evaluating a literal / a collect of a literal only appends *)
Lemma eval_lit f t v ro vs c st : f <> O ->
  eval f (ELit t v) ro vs [c] st = Ok ([(length st, [])], st ++ [fresh_root (Scalar t v)]).
Proof. destruct f; [contradiction|]. intros _. reflexivity. Qed.

Lemma nth_error_app_len {A} (l : list A) x r : nth_error (l ++ x :: r) (length l) = Some x.
Proof. induction l; cbn; auto. Qed.

(* the index list `[t]` of `.[t]`: one integer scalar with text t; only scratch roots are appended *)
Lemma eval_index_list f t vs c st : (2 <= f)%nat ->
  exists g items, eval f (ECollect (Some (ELit TInt t))) true vs [c] st = Ok ([(S (length st), [])], st ++ g)
     /\ deref (st ++ g) (S (length st), []) = Some (Seq items) /\ List.map snd items = [Scalar TInt t].
Proof.
  intros Hf. destruct f as [|f]; [lia|]. cbn [eval each]. rewrite eval_lit by lia. cbn [bind fst snd].
  cbn [collect_items]. unfold deref_r.
  assert (Hd : deref (st ++ [fresh_root (Scalar TInt t)]) (length st, []) = Some (Scalar TInt t)).
  { unfold deref. cbn [fst snd]. rewrite nth_error_app_len. reflexivity. }
  rewrite Hd. cbn [of_option bind]. unfold one, alloc_repl, alloc. cbn [fst snd app bind].
  set (r1 := fresh_root (Scalar TInt t)).
  set (items := add_child [] (key_of (st ++ [r1]) (length st, [])) (Scalar TInt t)).
  set (r2 := replacement_root (st ++ [r1]) c (Seq items)).
  assert (Hlen : length (st ++ [r1]) = S (length st)) by (rewrite app_length; cbn; lia).
  exists [r1; r2], items. split; [|split].
  - rewrite Hlen, <- app_assoc. reflexivity.
  - unfold deref. cbn [fst snd]. rewrite <- Hlen.
    change (st ++ [r1; r2]) with (st ++ [r1] ++ [r2]). rewrite app_assoc, nth_error_app_len. reflexivity.
  - reflexivity.
Qed.

(* ---------- one index step on the traversal functions, exactly ---------- *)
Lemma index_step_rw p st n items t i :
  deref st p = Some n ->
  (n = Seq items \/ (exists tv, n = Scalar TNull tv) /\ items = []) ->
  Z_of_index t = Ok (Z.of_nat i) -> (Z.of_nat i <= 100000)%Z ->
  trav_indices false [Scalar TInt t] p st
  = Ok ([(fst p, snd p ++ [i])], update st p (fun _ => Seq (pad_to items (S i - length items)))).
Proof.
  intros Hd Hn Hz Hi. unfold trav_indices, deref_r. rewrite Hd. cbn [of_option bind].
  assert (Hcore : forall st0, deref st0 p = Some (Seq items) ->
            each (fun ix st1 =>
                     let* n1 := deref_r st1 p in
                     match n1, ix with
                     | Seq items1, Scalar _ v => let* z := Z_of_index v in trav_index false p items1 z st1
                     | _, _ => Unsup
                     end) [Scalar TInt t] st0
            = Ok ([(fst p, snd p ++ [i])], update st0 p (fun _ => Seq (pad_to items (S i - length items))))).
  { intros st0 Hd0. cbn [each]. unfold deref_r. rewrite Hd0. cbn [of_option bind]. rewrite Hz. cbn [bind].
    unfold trav_index. destruct (Z.of_nat (length items) <=? Z.of_nat i)%Z eqn:Ele.
    - apply Z.leb_le in Ele.
      assert (Hgt : (Z.of_nat i >? 100000)%Z = false) by (rewrite Z.gtb_ltb; apply Z.ltb_ge; lia).
      rewrite Hgt. cbn [bind fst snd app]. rewrite Nat2Z.id.
      replace (Z.to_nat (Z.of_nat i + 1 - Z.of_nat (length items))) with (S i - length items)%nat by lia.
      rewrite pad_nulls_is_pad_to. reflexivity.
    - apply Z.leb_gt in Ele.
      assert (Hneg : (Z.of_nat i <? 0)%Z = false) by (apply Z.ltb_ge; lia).
      rewrite Hneg, Hneg. cbn [bind fst snd app]. rewrite Nat2Z.id.
      replace (S i - length items)%nat with O by lia. cbn [pad_to].
      rewrite (update_id _ _ _ Hd0). reflexivity. }
  destruct Hn as [->|[[tv ->] ->]].
  - exact (Hcore st Hd).
  - rewrite Hcore by (rewrite (deref_update_same _ _ _ _ Hd); reflexivity).
    rewrite update_twice. reflexivity.
Qed.

Lemma index_step_ro p st items t i kc :
  deref st p = Some (Seq items) -> nth_error items i = Some kc ->
  Z_of_index t = Ok (Z.of_nat i) ->
  trav_indices true [Scalar TInt t] p st = Ok ([(fst p, snd p ++ [i])], st).
Proof.
  intros Hd Hn Hz. unfold trav_indices, deref_r. rewrite Hd. cbn [of_option bind each]. rewrite Hz. cbn [bind].
  unfold trav_index.
  assert (Hlt : (i < length items)%nat) by (apply nth_error_Some; congruence).
  assert (Ele : (Z.of_nat (length items) <=? Z.of_nat i)%Z = false) by (apply Z.leb_gt; lia).
  assert (Hneg : (Z.of_nat i <? 0)%Z = false) by (apply Z.ltb_ge; lia).
  rewrite Ele, Hneg, Hneg. cbn [bind fst snd app]. rewrite Nat2Z.id. reflexivity.
Qed.

(* ---------- one step on the evaluator ---------- *)
Lemma eval_self f ro vs ctx st : f <> O -> eval f ESelf ro vs ctx st = Ok (ctx, st).
Proof. destruct f; [contradiction | reflexivity]. Qed.

Lemma eval_index_step f t ro vs c st : (3 <= f)%nat ->
  exists g, eval f (EIndex ESelf (Some (ELit TInt t))) ro vs [c] st
            = each (trav_indices ro [Scalar TInt t]) [c] (st ++ g).
Proof.
  intros Hf. destruct f as [|f]; [lia|]. cbn [eval]. rewrite andb_false_r.
  rewrite eval_self by lia. cbn [bind fst snd].
  destruct (eval_index_list f t vs c st ltac:(lia)) as (g & items & He & Hd & Hm).
  exists g. rewrite He. cbn [bind fst snd]. unfold deref_r. rewrite Hd. cbn [of_option bind]. rewrite Hm.
  reflexivity.
Qed.

Lemma step_rw s fuel vs r q st n m i c :
  step_ok s -> (3 <= fuel)%nat -> deref st (r, q) = Some n -> step1 s n = Some (m, i, c) ->
  exists g, eval fuel (step_expr s) false vs [(r, q)] st
            = Ok ([(r, q ++ [i])], update st (r, q) (fun _ => m) ++ g).
Proof.
  intros Hok Hf Hd Hs. destruct s as [k|t j]; cbn [step_ok step_expr step1] in *.
  - exists []. rewrite app_nil_r. rewrite eval_key by lia. cbn [each].
    assert (H : forall es st0, deref st0 (r, q) = Some (Map es) ->
              match find_idx es k with
              | Some i0 => match nth_error es i0 with Some (_, c0) => Some (Map es, i0, c0) | None => None end
              | None => Some (Map (es ++ [(k, null_node)]), length es, null_node)
              end = Some (m, i, c) ->
              trav_map false k (r, q) es st0 = Ok ([(r, q ++ [i])], update st0 (r, q) (fun _ => m))).
    { intros es st0 Hd0 He. destruct (find_idx es k) as [i0|] eqn:Ef.
      - destruct (nth_error es i0) as [[k' c0]|]; [|discriminate]. injection He as <- <- <-.
        rewrite (trav_map_found false k (r, q) es st0 i0 Hok Ef). rewrite (update_id _ _ _ Hd0). reflexivity.
      - injection He as <- <- <-. rewrite (trav_map_new k (r, q) es st0 Hok Ef). reflexivity. }
    unfold trav_key, deref_r. rewrite Hd. cbn [of_option bind].
    destruct n as [[] tv|items|es]; try discriminate.
    + (* null: re-typed to an empty map first *)
      rewrite (H [] (update st (r, q) (fun _ => Map []))).
      * cbn [bind fst snd app]. rewrite update_twice. reflexivity.
      * rewrite (deref_update_same _ _ _ _ Hd). reflexivity.
      * exact Hs.
    + rewrite (H es st Hd Hs). reflexivity.
  - destruct Hok as [Hz Hi].
    destruct (eval_index_step fuel t false vs (r, q) st Hf) as [g Hg]. exists g. etransitivity; [exact Hg|]. cbn [each].
    assert (Hdg : deref (st ++ g) (r, q) = Some n) by (apply deref_app_l; exact Hd).
    assert (Hlt : (r < length st)%nat) by (exact (deref_lt _ _ _ Hd)).
    assert (H : forall items, (n = Seq items \/ (exists tv, n = Scalar TNull tv) /\ items = []) ->
              match nth_error (pad_to items (S j - length items)) j with
              | Some (_, c0) => Some (Seq (pad_to items (S j - length items)), j, c0)
              | None => None
              end = Some (m, i, c) ->
              (let* o1 := trav_indices false [Scalar TInt t] (r, q) (st ++ g) in
               let* o2 := Ok ([], snd o1) in Ok (fst o1 ++ fst o2, snd o2))
              = Ok ([(r, q ++ [i])], update st (r, q) (fun _ => m) ++ g)).
    { intros items Hn He. destruct (nth_error (pad_to items (S j - length items)) j) as [[k0 c0]|]; [|discriminate].
      injection He as <- <- <-.
      rewrite (index_step_rw (r, q) (st ++ g) n items t j Hdg Hn Hz Hi). cbn [bind fst snd app].
      rewrite update_app_l by exact Hlt. reflexivity. }
    destruct n as [[] tv|items|es]; try discriminate.
    + apply (H []); [right; split; [eexists; reflexivity | reflexivity] | exact Hs].
    + apply (H items); [left; reflexivity | exact Hs].
Qed.

Lemma step_ro s fuel vs r q st n i c :
  step_ok s -> (3 <= fuel)%nat -> deref st (r, q) = Some n -> res1 s n = Some (i, c) ->
  exists g, eval fuel (step_expr s) true vs [(r, q)] st = Ok ([(r, q ++ [i])], st ++ g).
Proof.
  intros Hok Hf Hd Hs. destruct s as [k|t j]; cbn [step_ok step_expr res1] in *.
  - exists []. rewrite app_nil_r. rewrite eval_key by lia. cbn [each].
    destruct n as [tg tv|items|es]; try discriminate.
    destruct (find_idx es k) as [i0|] eqn:Ef; [|discriminate].
    destruct (nth_error es i0) as [[k' c0]|]; [|discriminate]. injection Hs as <- <-.
    unfold trav_key, deref_r. rewrite Hd. cbn [of_option bind].
    rewrite (trav_map_found true k (r, q) es st i0 Hok Ef). reflexivity.
  - destruct Hok as [Hz Hi].
    destruct (eval_index_step fuel t true vs (r, q) st Hf) as [g Hg]. exists g. etransitivity; [exact Hg|]. cbn [each].
    destruct n as [tg tv|items|es]; try discriminate.
    destruct (nth_error items j) as [[k0 c0]|] eqn:En; [|discriminate]. injection Hs as <- <-.
    rewrite (index_step_ro (r, q) (st ++ g) items t j (k0, c0) (deref_app_l _ _ _ _ Hd) En Hz). reflexivity.
Qed.

(* ---------- facts about the pure steps ---------- *)
Ltac inj3 H :=
  match type of H with
  | Some (?a, ?b, ?c) = Some (?m, ?i, ?x) =>
      assert (m = a) by congruence; assert (i = b) by congruence; assert (x = c) by congruence; subst m i x; clear H
  end.
Lemma step1_child s n m i c : step1 s n = Some (m, i, c) -> get_at m [i] = Some c.
Proof.
  destruct s as [k|t j]; cbn [step1]; intros H.
  - assert (Hes : forall es,
      match find_idx es k with
      | Some i0 => match nth_error es i0 with Some (_, c0) => Some (Map es, i0, c0) | None => None end
      | None => Some (Map (es ++ [(k, null_node)]), length es, null_node)
      end = Some (m, i, c) -> get_at m [i] = Some c).
    { intros es He. destruct (find_idx es k) as [i0|].
      - destruct (nth_error es i0) as [[k' c0]|] eqn:En; [|discriminate]. injection He as <- <- <-.
        cbn [get_at children]. rewrite nth_error_map, En. reflexivity.
      - injection He as <- <- <-. cbn [get_at children]. rewrite map_app, nth_error_app2; rewrite map_length; [|lia].
        rewrite Nat.sub_diag. reflexivity. }
    destruct n as [[] tv|items|es]; try discriminate; eapply Hes; eassumption.
  - assert (Hit : forall items,
      match nth_error (pad_to items (S j - length items)) j with
      | Some (_, c0) => Some (Seq (pad_to items (S j - length items)), j, c0)
      | None => None
      end = Some (m, i, c) -> get_at m [i] = Some c).
    { intros items He. destruct (nth_error (pad_to items (S j - length items)) j) as [[k0 c0]|] eqn:En; [|discriminate].
      inj3 He. cbn [get_at children]. rewrite nth_error_map, En. reflexivity. }
    destruct n as [[] tv|items|es]; try discriminate; eapply Hit; eassumption.
Qed.

Lemma step1_res1 s n m i c c' : step1 s n = Some (m, i, c) -> res1 s (upd_at m [i] (fun _ => c')) = Some (i, c').
Proof.
  destruct s as [k|t j]; cbn [step1]; intros H.
  - assert (Hes : forall es,
      match find_idx es k with
      | Some i0 => match nth_error es i0 with Some (_, c0) => Some (Map es, i0, c0) | None => None end
      | None => Some (Map (es ++ [(k, null_node)]), length es, null_node)
      end = Some (m, i, c) -> res1 (EK k) (upd_at m [i] (fun _ => c')) = Some (i, c')).
    { intros es He. destruct (find_idx es k) as [i0|] eqn:Ef.
      - destruct (nth_error es i0) as [[k' c0]|] eqn:En; [|discriminate]. injection He as <- <- <-.
        cbn [upd_at res1 fst snd].
        assert (Hk : List.map fst (upd_nth es i0 (fun kc => (fst kc, c'))) = List.map fst es).
        { clear. revert i0. induction es as [|x es IH]; intros [|i0]; cbn; try reflexivity. f_equal. apply IH. }
        rewrite (find_idx_keys _ es k Hk), Ef. rewrite nth_upd_nth_same, En. reflexivity.
      - injection He as <- <- <-. cbn [upd_at res1 fst snd]. rewrite upd_nth_app_last. cbn [fst].
        rewrite (find_idx_app_new _ _ _ Ef), nth_app_last. reflexivity. }
    destruct n as [[] tv|items|es]; try discriminate; eapply Hes; eassumption.
  - assert (Hit : forall items,
      match nth_error (pad_to items (S j - length items)) j with
      | Some (_, c0) => Some (Seq (pad_to items (S j - length items)), j, c0)
      | None => None
      end = Some (m, i, c) -> res1 (EI t j) (upd_at m [i] (fun _ => c')) = Some (i, c')).
    { intros items He. destruct (nth_error (pad_to items (S j - length items)) j) as [[k0 c0]|] eqn:En; [|discriminate].
      inj3 He. cbn [upd_at res1 fst snd]. rewrite nth_upd_nth_same, En. reflexivity. }
    destruct n as [[] tv|items|es]; try discriminate; eapply Hit; eassumption.
Qed.

Lemma res1_child s n i c : res1 s n = Some (i, c) -> get_at n [i] = Some c.
Proof.
  destruct s as [k|t j]; destruct n as [tg tv|items|es]; cbn [res1]; try discriminate; intros H.
  - destruct (find_idx es k) as [i0|]; [|discriminate].
    destruct (nth_error es i0) as [[k' c0]|] eqn:En; [|discriminate]. injection H as <- <-.
    cbn [get_at children]. rewrite nth_error_map, En. reflexivity.
  - destruct (nth_error items j) as [[k0 c0]|] eqn:En; [|discriminate]. injection H as <- <-.
    cbn [get_at children]. rewrite nth_error_map, En. reflexivity.
Qed.

Lemma vivp_resolves p : forall n n1 pos, vivp p n = Some (n1, pos) -> resolvep p n1 = Some pos.
Proof.
  induction p as [|s r IH]; intros n n1 pos H; cbn [vivp resolvep] in *.
  - injection H as <- <-. reflexivity.
  - destruct (step1 s n) as [[[m i] c]|] eqn:Es; [|discriminate].
    destruct (vivp r c) as [[c' pos']|] eqn:Ev; [|discriminate].
    assert (Hn1 : n1 = upd_at m [i] (fun _ => c')) by congruence. assert (Hpos : pos = i :: pos') by congruence.
    subst n1 pos. clear H.
    rewrite (step1_res1 _ _ _ _ _ c' Es). rewrite (IH _ _ _ Ev). reflexivity.
Qed.

(* ---------- whole paths ---------- *)
Lemma pe_cons s s2 r : pe (s :: s2 :: r) = EPipe (step_expr s) (pe (s2 :: r)).
Proof. reflexivity. Qed.

Lemma deref_step st r q m i c : deref st (r, q) = Some m -> get_at m [i] = Some c -> deref st (r, q ++ [i]) = Some c.
Proof. intros Hd Hg. rewrite deref_child, Hd. exact Hg. Qed.

(* eval of the path in a writable context = vivp, up to appended scratch roots *)
Lemma eval_pe_rw p : forall fuel vs r q st n n1 pos,
  p <> [] -> Forall step_ok p -> (length p + 2 <= fuel)%nat ->
  deref st (r, q) = Some n -> vivp p n = Some (n1, pos) ->
  exists g, eval fuel (pe p) false vs [(r, q)] st = Ok ([(r, q ++ pos)], update st (r, q) (fun _ => n1) ++ g).
Proof.
  induction p as [|s p IH]; intros fuel vs r q st n n1 pos Hne Hok Hfuel Hd Hv; [contradiction|].
  inversion Hok as [|? ? Hs Hr]; subst.
  cbn [vivp] in Hv. destruct (step1 s n) as [[[m i] c]|] eqn:Es; [|discriminate].
  destruct (vivp p c) as [[c' pos']|] eqn:Ev; [|discriminate].
  assert (Hn1 : n1 = upd_at m [i] (fun _ => c')) by congruence. assert (Hpos : pos = i :: pos') by congruence.
  subst n1 pos. clear Hv.
  pose proof (step1_child _ _ _ _ _ Es) as Hc.
  destruct p as [|s2 p2].
  - (* last step *)
    cbn [vivp] in Ev. assert (c' = c) by congruence. assert (pos' = []) by congruence. subst c' pos'.
    cbn [pe]. destruct (step_rw s fuel vs r q st n m i c Hs ltac:(cbn in Hfuel; lia) Hd Es) as [g Hg].
    exists g. rewrite Hg. f_equal. f_equal. f_equal. apply update_ext. intros _.
    symmetry. apply upd_at_id. exact Hc.
  - rewrite pe_cons. destruct fuel as [|f]; [cbn in Hfuel; lia|]. cbn [eval].
    destruct (step_rw s f vs r q st n m i c Hs ltac:(cbn in Hfuel; lia) Hd Es) as [g1 Hg1].
    rewrite Hg1. cbn [bind fst snd].
    set (st1 := update st (r, q) (fun _ => m) ++ g1).
    assert (Hlt : (r < length st)%nat) by (exact (deref_lt _ _ _ Hd)).
    assert (Hd1 : deref st1 (r, q ++ [i]) = Some c).
    { unfold st1. apply deref_app_l. eapply deref_step; [|exact Hc]. rewrite (deref_update_same _ _ _ _ Hd). reflexivity. }
    destruct (IH f vs r (q ++ [i]) st1 c c' pos' ltac:(discriminate) Hr ltac:(cbn in Hfuel |- *; lia) Hd1 Ev) as [g2 Hg2].
    exists (g1 ++ g2). rewrite Hg2. f_equal. f_equal.
    + rewrite <- app_assoc. reflexivity.
    + unfold st1. rewrite update_app_l by (cbn [fst]; rewrite length_update; exact Hlt).
      rewrite update_app, update_twice. rewrite <- app_assoc. reflexivity.
Qed.

(* read-only traversal of an existing path only appends scratch roots *)
Lemma eval_pe_ro p : forall fuel vs r q st n pos,
  p <> [] -> Forall step_ok p -> (length p + 2 <= fuel)%nat ->
  deref st (r, q) = Some n -> resolvep p n = Some pos ->
  exists g, eval fuel (pe p) true vs [(r, q)] st = Ok ([(r, q ++ pos)], st ++ g).
Proof.
  induction p as [|s p IH]; intros fuel vs r q st n pos Hne Hok Hfuel Hd Hv; [contradiction|].
  inversion Hok as [|? ? Hs Hr]; subst.
  cbn [resolvep] in Hv. destruct (res1 s n) as [[i c]|] eqn:Es; [|discriminate].
  destruct (resolvep p c) as [pos'|] eqn:Ev; [|discriminate]. cbn [option_map] in Hv.
  assert (Hpos : pos = i :: pos') by congruence. subst pos. clear Hv.
  pose proof (res1_child _ _ _ _ Es) as Hc.
  destruct p as [|s2 p2].
  - cbn [resolvep] in Ev. assert (pos' = []) by congruence. subst pos'.
    cbn [pe]. exact (step_ro s fuel vs r q st n i c Hs ltac:(cbn in Hfuel; lia) Hd Es).
  - rewrite pe_cons. destruct fuel as [|f]; [cbn in Hfuel; lia|]. cbn [eval].
    destruct (step_ro s f vs r q st n i c Hs ltac:(cbn in Hfuel; lia) Hd Es) as [g1 Hg1].
    rewrite Hg1. cbn [bind fst snd].
    assert (Hd1 : deref (st ++ g1) (r, q ++ [i]) = Some c).
    { apply deref_app_l. eapply deref_step; eassumption. }
    destruct (IH f vs r (q ++ [i]) (st ++ g1) c pos' ltac:(discriminate) Hr ltac:(cbn in Hfuel |- *; lia) Hd1 Ev) as [g2 Hg2].
    exists (g1 ++ g2). rewrite Hg2. f_equal. f_equal.
    + rewrite <- app_assoc. reflexivity.
    + rewrite <- app_assoc. reflexivity.
Qed.

(* ---------- assignment of a scalar at any simple path is the lens put ---------- *)
Theorem assign_path_is_put p t v doc fuel :
  p <> [] -> Forall step_ok p -> (length p + 4 <= fuel)%nat ->
  forall n', put (List.map erase p) (Scalar t v) doc = Some n' ->
  exists st', eval fuel (EAssign (pe p) (ELit t v)) false [] [(O, [])] (init_store doc) = Ok ([(O, [])], st')
              /\ deref st' (O, []) = Some n'.
Proof.
  intros Hne Hok Hfuel n' Hput.
  rewrite put_is_vivp in Hput. destruct (vivp p doc) as [[n1 pos]|] eqn:Ev; [|discriminate].
  assert (Hn' : n' = upd_at n1 pos (fun _ => Scalar t v)) by congruence. subst n'. clear Hput.
  destruct fuel as [|f]; [lia|]. cbn [eval].
  assert (Hd0 : deref (init_store doc) (O, []) = Some doc) by reflexivity.
  destruct (eval_pe_rw p f [] O [] (init_store doc) doc n1 pos Hne Hok ltac:(lia) Hd0 Ev) as [g1 Hg1].
  rewrite Hg1. cbn [bind fst snd app].
  change (update (init_store doc) (O, []) (fun _ => n1)) with [mkRoot None None n1].
  set (st1 := [mkRoot None None n1] ++ g1).
  assert (Hd1 : deref st1 (O, []) = Some n1) by reflexivity.
  unfold cross. cbn [each]. unfold cross1.
  destruct (eval_pe_ro p f [] O [] st1 n1 pos Hne Hok ltac:(lia) Hd1 (vivp_resolves _ _ _ _ Ev)) as [g2 Hg2].
  match goal with
  | |- context [eval f (pe p) true ?a ?b ?c] =>
      replace (eval f (pe p) true a b c) with (@Ok out ([(O, [] ++ pos)], st1 ++ g2)) by (symmetry; exact Hg2)
  end.
  cbn [bind fst snd app each].
  unfold results_for_rhs, no_short. cbn [bind].
  rewrite eval_lit by lia. cbn [bind fst snd each].
  set (st2 := st1 ++ g2).
  unfold assign_calc, lift2, update_from.
  assert (Hne0 : ptr_eqb (O, pos) (length st2, []) = false).
  { unfold ptr_eqb. cbn [fst snd]. unfold st2, st1. cbn [app length]. reflexivity. }
  rewrite Hne0. unfold deref_r.
  assert (Hdl : deref (st2 ++ [fresh_root (Scalar t v)]) (length st2, []) = Some (Scalar t v)).
  { unfold deref. cbn [fst snd]. rewrite nth_error_app_len. reflexivity. }
  rewrite Hdl. cbn [of_option bind fst snd app].
  eexists. split; [reflexivity|].
  unfold st2, st1. cbn [app update upd_nth fst snd deref nth_error r_body r_parent r_key get_at]. reflexivity.
Qed.

(* ---------- relative update at any simple path ---------- *)
(* `p |= r`: the path is created, r runs with the match as its context (in a store that holds the document with the
   path created, plus scratch roots g), and the match receives r's FIRST result; no result leaves it alone. *)
Theorem update_path_results p r doc f n1 pos :
  p <> [] -> Forall step_ok p -> (length p + 2 <= f)%nat ->
  vivp p doc = Some (n1, pos) ->
  exists g,
    (forall q qs st2 v,
       eval f r false [] [(O, pos)] ([mkRoot None None n1] ++ g) = Ok (q :: qs, st2) ->
       ptr_eqb (O, pos) q = false -> deref st2 q = Some v ->
       eval (S f) (EUpdate (pe p) r) false [] [(O, [])] (init_store doc)
       = Ok ([(O, [])], update st2 (O, pos) (fun _ => v)))
    /\
    (forall st2,
       eval f r false [] [(O, pos)] ([mkRoot None None n1] ++ g) = Ok ([], st2) ->
       eval (S f) (EUpdate (pe p) r) false [] [(O, [])] (init_store doc) = Ok ([(O, [])], st2)).
Proof.
  intros Hne Hok Hfuel Hv.
  assert (Hd0 : deref (init_store doc) (O, []) = Some doc) by reflexivity.
  destruct (eval_pe_rw p f [] O [] (init_store doc) doc n1 pos Hne Hok Hfuel Hd0 Hv) as [g Hg].
  change (update (init_store doc) (O, []) (fun _ => n1)) with [mkRoot None None n1] in Hg.
  exists g. split.
  - intros q qs st2 v Hr Hneq Hd. cbn [eval]. rewrite Hg. cbn [bind fst snd app rev Eval.iter].
    match goal with |- context [eval f r false ?a ?b ?c] => replace (eval f r false a b c) with (@Ok out (q :: qs, st2)) by (symmetry; exact Hr) end.
    cbn [bind fst snd]. unfold update_from. rewrite Hneq. unfold deref_r. rewrite Hd. reflexivity.
  - intros st2 Hr. cbn [eval]. rewrite Hg. cbn [bind fst snd app rev Eval.iter].
    match goal with |- context [eval f r false ?a ?b ?c] => replace (eval f r false a b c) with (@Ok out ([], st2)) by (symmetry; exact Hr) end.
    reflexivity.
Qed.

(* key-only paths are the special case of AssignProofs.v *)
Lemma pe_keys ks : pe (List.map EK ks) = pk ks.
Proof.
  induction ks as [|k ks IH]; [reflexivity|]. destruct ks as [|k2 ks]; [reflexivity|].
  change (List.map EK (k :: k2 :: ks)) with (EK k :: EK k2 :: List.map EK ks). rewrite pe_cons.
  change (EK k2 :: List.map EK ks) with (List.map EK (k2 :: ks)). rewrite IH. reflexivity.
Qed.

(* non-vacuity: `.a[2].b = 7` on {"a": [1]} pads, creates and assigns *)
Example assign_path_example :
  let p := [EK [97]; EI [50] 2; EK [98]] in
  Forall step_ok p /\
  put (List.map erase p) (Scalar TInt [55]) (Map [([97], Seq [(RIdx 0, Scalar TInt [49])])])
  = Some (Map [([97], Seq [(RIdx 0, Scalar TInt [49]); (RIdx 1, null_node);
                          (RIdx 2, Map [([98], Scalar TInt [55])])])]) /\
  run (EAssign (pe p) (ELit TInt [55])) (Map [([97], Seq [(RIdx 0, Scalar TInt [49])])])
  = tag_ok ++ ser_node (Map [([97], Seq [(RIdx 0, Scalar TInt [49]); (RIdx 1, null_node);
                                        (RIdx 2, Map [([98], Scalar TInt [55])])])]) ++ [10].
Proof.
  split; [|split].
  - repeat constructor; vm_compute; try reflexivity; discriminate.
  - vm_compute. reflexivity.
  - vm_compute. reflexivity.
Qed.

(* ---------- any assignment-free right-hand side with one result ---------- *)

(* `p = r` for every assignment-free expression r that has one result: the path is created, r is evaluated read-only
   on the document with the path created (it only appends, C08), and the target receives the value r denotes; by
   [put_is_vivp] the document afterwards is [put p v] of the original one, v the value of r's result. *)
Theorem assign_path_value p r doc f n1 pos :
  p <> [] -> Forall step_ok p -> (length p + 3 <= f)%nat -> afree r = true ->
  vivp p doc = Some (n1, pos) ->
  exists g, forall q st3 v,
    eval f r true [] [(O, [])] ([mkRoot None None n1] ++ g) = Ok ([q], st3) ->
    ptr_eqb (O, pos) q = false -> deref st3 q = Some v ->
    exists st', eval (S f) (EAssign (pe p) r) false [] [(O, [])] (init_store doc) = Ok ([(O, [])], st')
                /\ deref st' (O, []) = Some (upd_at n1 pos (fun _ => v)).
Proof.
  intros Hne Hok Hfuel Haf Ev.
  assert (Hd0 : deref (init_store doc) (O, []) = Some doc) by reflexivity.
  destruct (eval_pe_rw p f [] O [] (init_store doc) doc n1 pos Hne Hok ltac:(lia) Hd0 Ev) as [g1 Hg1].
  change (update (init_store doc) (O, []) (fun _ => n1)) with [mkRoot None None n1] in Hg1.
  set (st1 := [mkRoot None None n1] ++ g1) in *.
  assert (Hd1 : deref st1 (O, []) = Some n1) by reflexivity.
  destruct (eval_pe_ro p f [] O [] st1 n1 pos Hne Hok ltac:(lia) Hd1 (vivp_resolves _ _ _ _ Ev)) as [g2 Hg2].
  exists (g1 ++ g2). intros q st3 v Hr Hneq Hdq.
  cbn [eval]. rewrite Hg1. cbn [bind fst snd app].
  unfold cross. cbn [each]. unfold cross1.
  match goal with
  | |- context [eval f (pe p) true ?a ?b ?c] =>
      replace (eval f (pe p) true a b c) with (@Ok out ([(O, [] ++ pos)], st1 ++ g2)) by (symmetry; exact Hg2)
  end.
  cbn [bind fst snd app each].
  unfold results_for_rhs, no_short. cbn [bind].
  assert (Hst : st1 ++ g2 = [mkRoot None None n1] ++ (g1 ++ g2)) by (unfold st1; rewrite <- app_assoc; reflexivity).
  match goal with
  | |- context [eval f r true ?a ?b ?c] =>
      replace (eval f r true a b c) with (@Ok out ([q], st3)) by (symmetry; rewrite <- Hr; f_equal; exact Hst)
  end.
  cbn [bind fst snd each].
  unfold assign_calc, lift2, update_from. rewrite Hneq. unfold deref_r. rewrite Hdq. cbn [of_option bind fst snd app].
  eexists. split; [reflexivity|].
  destruct (ro_store_monotone f r [] [(O, [])] _ _ Haf Hr) as [x Hx]. cbn [snd] in Hx. rewrite Hx.
  cbn [app update upd_nth fst snd deref nth_error r_body r_parent r_key get_at]. reflexivity.
Qed.

Corollary assign_path_value_is_put p r doc f n1 pos :
  p <> [] -> Forall step_ok p -> (length p + 3 <= f)%nat -> afree r = true ->
  vivp p doc = Some (n1, pos) ->
  exists g, forall q st3 v,
    eval f r true [] [(O, [])] ([mkRoot None None n1] ++ g) = Ok ([q], st3) ->
    ptr_eqb (O, pos) q = false -> deref st3 q = Some v ->
    exists st', eval (S f) (EAssign (pe p) r) false [] [(O, [])] (init_store doc) = Ok ([(O, [])], st')
                /\ Some (deref st' (O, [])) = Some (put (List.map erase p) v doc).
Proof.
  intros Hne Hok Hfuel Haf Ev.
  destruct (assign_path_value p r doc f n1 pos Hne Hok Hfuel Haf Ev) as [g H]. exists g.
  intros q st3 v Hr Hneq Hdq. destruct (H q st3 v Hr Hneq Hdq) as (st' & He & Hd). exists st'. split; [exact He|].
  rewrite put_is_vivp, Ev, Hd. reflexivity.
Qed.

(* non-vacuity: `.a[1] = .c` copies the container at .c; the premises of [assign_path_value] hold for it *)
Example assign_value_example :
  let doc := Map [([99], Seq [(RIdx 0, Scalar TInt [53])])] in
  let p := [EK [97]; EI [49] 1] in
  afree (EKey [99]) = true /\
  put (List.map erase p) (Seq [(RIdx 0, Scalar TInt [53])]) doc
  = Some (Map [([99], Seq [(RIdx 0, Scalar TInt [53])]);
               ([97], Seq [(RIdx 0, null_node); (RIdx 1, Seq [(RIdx 0, Scalar TInt [53])])])]) /\
  run (EAssign (pe p) (EKey [99])) doc
  = tag_ok ++ ser_node (Map [([99], Seq [(RIdx 0, Scalar TInt [53])]);
               ([97], Seq [(RIdx 0, null_node); (RIdx 1, Seq [(RIdx 0, Scalar TInt [53])])])]) ++ [10].
Proof. split; [reflexivity|split]; vm_compute; reflexivity. Qed.

(* ---------- a multi-match left-hand side: the splat ---------- *)
(* `.[] = scalar`: every child of the document root receives the value, one after the other, in document order *)
Definition set_all (n : node) (idxs : list nat) (v : node) : node :=
  fold_left (fun m i => upd_at m [i] (fun _ => v)) idxs n.

Lemma eval_splat f ro vs c st n : (2 <= f)%nat ->
  deref st c = Some n -> (match n with Scalar _ _ => False | _ => True end) ->
  exists g, eval f (EIndex ESelf None) ro vs [c] st = Ok (child_ptrs c n, st ++ g).
Proof.
  intros Hf Hd Hn. destruct f as [|f]; [lia|]. cbn [eval]. rewrite andb_false_r.
  rewrite eval_self by lia. cbn [bind fst snd].
  destruct f as [|f]; [lia|]. cbn [eval each bind fst snd collect_items]. unfold one, alloc_repl, alloc. cbn [bind fst snd app].
  set (r1 := replacement_root st c (Seq [])).
  unfold deref_r.
  assert (Hd1 : deref (st ++ [r1]) (length st, []) = Some (Seq [])).
  { unfold deref. cbn [fst snd]. rewrite nth_error_app_len. reflexivity. }
  rewrite Hd1. cbn [of_option bind List.map each].
  unfold trav_indices, deref_r. rewrite (deref_app_l _ _ _ _ Hd). cbn [of_option bind].
  exists [r1]. destruct n as [tg tv|items|es]; [contradiction| |]; cbn [bind fst snd app]; rewrite app_nil_r; reflexivity.
Qed.

Lemma assign_each_children t v vs c : forall idxs m g f,
  f <> O ->
  exists g',
    each (fun l st1 => results_for_rhs (eval f) false no_short assign_calc (ELit t v) true vs [c] (Some l) st1)
         (List.map (fun i => (O, [i])) idxs) ([mkRoot None None m] ++ g)
    = Ok (List.map (fun i => (O, [i])) idxs, [mkRoot None None (set_all m idxs (Scalar t v))] ++ g').
Proof.
  induction idxs as [|i idxs IH]; intros m g f Hf.
  - exists g. reflexivity.
  - cbn [List.map each]. unfold results_for_rhs at 1, no_short at 1. cbn [bind].
    rewrite eval_lit by exact Hf. cbn [bind fst snd each].
    unfold assign_calc at 1, lift2, update_from.
    assert (Hne : ptr_eqb (O, [i]) (length ([mkRoot None None m] ++ g), []) = false) by reflexivity.
    rewrite Hne. unfold deref_r.
    assert (Hdl : deref (([mkRoot None None m] ++ g) ++ [fresh_root (Scalar t v)]) (length ([mkRoot None None m] ++ g), [])
                  = Some (Scalar t v)).
    { unfold deref. cbn [fst snd]. rewrite nth_error_app_len. reflexivity. }
    rewrite Hdl. cbn [of_option bind fst snd app].
    assert (Hst : update (mkRoot None None m :: g ++ [fresh_root (Scalar t v)]) (O, [i]) (fun _ => Scalar t v)
                  = [mkRoot None None (upd_at m [i] (fun _ => Scalar t v))] ++ (g ++ [fresh_root (Scalar t v)])) by reflexivity.
    cbn [app] in Hst |- *. rewrite Hst.
    destruct (IH (upd_at m [i] (fun _ => Scalar t v)) (g ++ [fresh_root (Scalar t v)]) f Hf) as [g' Hg'].
    cbn [app] in Hg'. rewrite Hg'. cbn [bind fst snd app].
    exists g'. reflexivity.
Qed.

Theorem assign_splat t v doc f :
  (3 <= f)%nat -> (match doc with Scalar _ _ => False | _ => True end) ->
  exists st', eval (S f) (EAssign (EIndex ESelf None) (ELit t v)) false [] [(O, [])] (init_store doc) = Ok ([(O, [])], st')
              /\ deref st' (O, []) = Some (set_all doc (seq 0 (length (children doc))) (Scalar t v)).
Proof.
  intros Hf Hn. cbn [eval].
  assert (Hd0 : deref (init_store doc) (O, []) = Some doc) by reflexivity.
  destruct (eval_splat f false [] (O, []) (init_store doc) doc ltac:(lia) Hd0 Hn) as [g1 Hg1].
  match goal with
  | |- context [eval f (EIndex ESelf None) false ?a ?b ?c] =>
      replace (eval f (EIndex ESelf None) false a b c) with (@Ok out (child_ptrs (O, []) doc, init_store doc ++ g1))
        by (symmetry; exact Hg1)
  end.
  cbn [bind fst snd].
  unfold cross. cbn [each]. unfold cross1.
  assert (Hd1 : deref (init_store doc ++ g1) (O, []) = Some doc) by reflexivity.
  destruct (eval_splat f true [] (O, []) (init_store doc ++ g1) doc ltac:(lia) Hd1 Hn) as [g2 Hg2].
  match goal with
  | |- context [eval f (EIndex ESelf None) true ?a ?b ?c] =>
      replace (eval f (EIndex ESelf None) true a b c) with (@Ok out (child_ptrs (O, []) doc, (init_store doc ++ g1) ++ g2))
        by (symmetry; exact Hg2)
  end.
  cbn [bind fst snd].
  assert (Hptrs : child_ptrs (O, []) doc = List.map (fun i => (O, [i])) (seq 0 (length (children doc)))) by reflexivity.
  rewrite Hptrs.
  assert (Hst : (init_store doc ++ g1) ++ g2 = [mkRoot None None doc] ++ (g1 ++ g2)) by (rewrite <- app_assoc; reflexivity).
  rewrite Hst.
  destruct (assign_each_children t v [] (O, []) (seq 0 (length (children doc))) doc (g1 ++ g2) f ltac:(lia)) as [g' Hg'].
  destruct (seq 0 (length (children doc))) as [|i0 rest] eqn:Eseq.
  - cbn [List.map each bind fst snd app]. eexists. split; reflexivity.
  - rewrite <- Eseq in *.
    assert (Hnonempty : exists p ps, List.map (fun i => (O, [i])) (seq 0 (length (children doc))) = p :: ps).
    { rewrite Eseq. cbn. eexists. eexists. reflexivity. }
    destruct Hnonempty as (p0 & ps0 & Hp0). rewrite Hp0. cbn [bind fst snd]. rewrite <- Hp0.
    match goal with
    | |- context [each ?F ?L ?S] => replace (each F L S) with
        (@Ok out (List.map (fun i => (O, [i])) (seq 0 (length (children doc))),
                  [mkRoot None None (set_all doc (seq 0 (length (children doc))) (Scalar t v))] ++ g')) by (symmetry; exact Hg')
    end.
    cbn [bind fst snd app]. eexists. split; reflexivity.
Qed.

(* [set_all] over all child positions replaces every child and keeps every key *)
Definition set_children (n v : node) : node :=
  match n with
  | Seq items => Seq (List.map (fun kc => (fst kc, v)) items)
  | Map es => Map (List.map (fun kc => (fst kc, v)) es)
  | Scalar _ _ => n
  end.

Lemma fold_upd_shift {A} (f : A -> A) : forall k a x l,
  fold_left (fun l0 i => upd_nth l0 i f) (seq (S a) k) (x :: l) = x :: fold_left (fun l0 i => upd_nth l0 i f) (seq a k) l.
Proof.
  induction k as [|k IH]; intros a x l; cbn [seq fold_left]; [reflexivity|].
  cbn [upd_nth]. apply IH.
Qed.

Lemma fold_upd_all {A} (f : A -> A) : forall l, fold_left (fun l0 i => upd_nth l0 i f) (seq 0 (length l)) l = List.map f l.
Proof.
  induction l as [|x l IH]; [reflexivity|].
  cbn [length seq fold_left upd_nth List.map]. rewrite fold_upd_shift. f_equal. exact IH.
Qed.

Lemma set_all_children n v : set_all n (seq 0 (length (children n))) v = set_children n v.
Proof.
  unfold set_all. destruct n as [t tv|items|es]; cbn [children set_children].
  - reflexivity.
  - rewrite map_length.
    assert (H : forall idxs l, fold_left (fun m i => upd_at m [i] (fun _ => v)) idxs (Seq l)
                               = Seq (fold_left (fun l0 i => upd_nth l0 i (fun kc => (fst kc, v))) idxs l)).
    { induction idxs as [|i idxs IH]; intros l; cbn [fold_left]; [reflexivity|]. cbn [upd_at]. apply IH. }
    rewrite H, fold_upd_all. reflexivity.
  - rewrite map_length.
    assert (H : forall idxs l, fold_left (fun m i => upd_at m [i] (fun _ => v)) idxs (Map l)
                               = Map (fold_left (fun l0 i => upd_nth l0 i (fun kc => (fst kc, v))) idxs l)).
    { induction idxs as [|i idxs IH]; intros l; cbn [fold_left]; [reflexivity|]. cbn [upd_at]. apply IH. }
    rewrite H, fold_upd_all. reflexivity.
Qed.

Theorem assign_splat_sets_children t v doc f :
  (3 <= f)%nat -> (match doc with Scalar _ _ => False | _ => True end) ->
  exists st', eval (S f) (EAssign (EIndex ESelf None) (ELit t v)) false [] [(O, [])] (init_store doc) = Ok ([(O, [])], st')
              /\ deref st' (O, []) = Some (set_children doc (Scalar t v)).
Proof.
  intros Hf Hn. destruct (assign_splat t v doc f Hf Hn) as (st' & He & Hd). exists st'. split; [exact He|].
  rewrite Hd, set_all_children. reflexivity.
Qed.

(* ---------- compound assignment at any simple path ---------- *)
(* `p o= r` is `p = (old o r)`: the path is created, the match is cloned ($c), `$c o r` is evaluated read-only in the
   caller's context (r assignment-free: it only appends), and the match receives the (single) result. *)
Definition var_l : str := [36; 108].
Definition var_c : str := [36; 99].

Theorem compound_path_value p o r doc f n1 pos :
  p <> [] -> Forall step_ok p -> (length p + 3 <= f)%nat -> afree r = true ->
  vivp p doc = Some (n1, pos) ->
  forall old, get_at n1 pos = Some old ->
  exists g cp, forall q st3 w,
    eval f (EBin o (EVar var_c) r) true [(var_l, [(O, pos)]); (var_c, [cp])] [(O, [])] ([mkRoot None None n1] ++ g) = Ok ([q], st3) ->
    ptr_eqb (O, pos) q = false -> deref st3 q = Some w ->
    deref ([mkRoot None None n1] ++ g) cp = Some old /\
    exists st', eval (S f) (ECompound o (pe p) r) false [] [(O, [])] (init_store doc) = Ok ([(O, [])], st')
                /\ deref st' (O, []) = Some (upd_at n1 pos (fun _ => w)).
Proof.
  intros Hne Hok Hfuel Haf Ev old Hold.
  assert (Hd0 : deref (init_store doc) (O, []) = Some doc) by reflexivity.
  destruct (eval_pe_rw p f [] O [] (init_store doc) doc n1 pos Hne Hok ltac:(lia) Hd0 Ev) as [g1 Hg1].
  change (update (init_store doc) (O, []) (fun _ => n1)) with [mkRoot None None n1] in Hg1.
  set (st1 := [mkRoot None None n1] ++ g1) in *.
  assert (Hdpos : deref st1 (O, pos) = Some old).
  { unfold st1, deref. cbn [fst snd app nth_error r_body]. exact Hold. }
  set (rt := replacement_root st1 (O, pos) old).
  exists (g1 ++ [rt]), (length st1, []).
  intros q st3 w Hr Hneq Hdq.
  assert (Hext : exists x, st3 = ([mkRoot None None n1] ++ (g1 ++ [rt])) ++ x).
  { assert (Ha : afree (EBin o (EVar var_c) r) = true) by (cbn [afree]; rewrite Haf; reflexivity).
    destruct (ro_store_monotone f _ _ _ _ _ Ha Hr) as [x Hx]. exists x. exact Hx. }
  split.
  { unfold deref. cbn [fst snd]. rewrite app_assoc. fold st1. rewrite nth_error_app_len. reflexivity. }
  cbn [eval]. rewrite Hg1. cbn [bind fst snd app Eval.iter].
  unfold deref_r. rewrite Hdpos. cbn [of_option bind]. unfold alloc_repl, alloc. fold rt.
  unfold cross. cbn [each]. unfold cross1.
  match goal with
  | |- context [eval f (EVar ?x) true ?a ?b ?c] =>
      replace (eval f (EVar x) true a b c) with (@Ok out ([(O, pos)], c)) by (destruct f; [lia | reflexivity])
  end.
  cbn [bind fst snd app each].
  unfold results_for_rhs, no_short. cbn [bind].
  assert (Hst : st1 ++ [rt] = [mkRoot None None n1] ++ (g1 ++ [rt])) by (unfold st1; rewrite <- app_assoc; reflexivity).
  match goal with
  | |- context [eval f (EBin o (EVar ?x) r) true ?a ?b ?c] =>
      replace (eval f (EBin o (EVar x) r) true a b c) with (@Ok out ([q], st3))
        by (symmetry; rewrite <- Hr; f_equal; exact Hst)
  end.
  cbn [bind fst snd each].
  unfold assign_calc, lift2, update_from. rewrite Hneq. unfold deref_r. rewrite Hdq. cbn [of_option bind fst snd app].
  eexists. split; [reflexivity|].
  destruct Hext as [x Hx]. rewrite Hx.
  cbn [app update upd_nth fst snd deref nth_error r_body r_parent r_key get_at]. reflexivity.
Qed.

Example compound_example :
  run (ECompound OAdd (pe [EK [97]; EI [49] 1]) (ELit TInt [53])) (Map [([97], Seq [(RIdx 0, Scalar TInt [49]); (RIdx 1, Scalar TInt [50])])])
  = tag_ok ++ ser_node (Map [([97], Seq [(RIdx 0, Scalar TInt [49]); (RIdx 1, Scalar TInt [55])])]) ++ [10].
Proof. vm_compute. reflexivity. Qed.
