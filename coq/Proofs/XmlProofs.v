(* Proofs/XmlProofs.v — lemmas for C14 (XML, token level): the two
   characteristic properties of the grouping done by xmlNode.AddChild; the
   decoder's fold over the tokens of any ordered element forest yields the
   document that forest denotes (Spec/XmlSpec.v); what the encoder writes for
   a canonical document is such a token stream, hence the round trip. *)
From Coq Require Import Lia.
From YQ Require Import Base.Str Model.Xml Spec.XmlSpec.

(* ================= the grouping ================= *)
Section Grouping.
  Context {A : Type}.

  Fixpoint find_key (k : str) (l : list (str * list A)) : option (list A) :=
    match l with
    | [] => None
    | (k', vs) :: r => if str_eqb k' k then Some vs else find_key k r
    end.

  Definition has_key (k : str) (l : list (str * list A)) : bool :=
    existsb (str_eqb k) (List.map fst l).

  Lemma str_eqb_sym a b : str_eqb a b = str_eqb b a.
  Proof.
    destruct (str_eqb a b) eqn:E1, (str_eqb b a) eqn:E2; try reflexivity.
    - apply str_eqb_eq in E1. subst. rewrite str_eqb_refl in E2. discriminate.
    - apply str_eqb_eq in E2. subst. rewrite str_eqb_refl in E1. discriminate.
  Qed.

  Lemma add_child_keys k (c : A) l :
    List.map fst (add_child k c l) = if has_key k l then List.map fst l else List.map fst l ++ [k].
  Proof.
    unfold has_key. induction l as [|[k' vs] l IH]; [reflexivity|].
    cbn [add_child List.map fst existsb]. rewrite (str_eqb_sym k k').
    destruct (str_eqb k' k) eqn:E; cbn [orb List.map fst]; [reflexivity|].
    rewrite IH. destruct (existsb (str_eqb k) (List.map fst l)); reflexivity.
  Qed.

  Lemma add_child_find k (c : A) l k2 :
    find_key k2 (add_child k c l) =
    if str_eqb k k2 then Some (match find_key k l with Some vs => vs ++ [c] | None => [c] end)
    else find_key k2 l.
  Proof.
    induction l as [|[k' vs] l IH].
    - cbn [add_child find_key]. destruct (str_eqb k k2); reflexivity.
    - cbn [add_child find_key]. destruct (str_eqb k' k) eqn:E.
      + apply str_eqb_eq in E. subst k'. cbn [find_key]. destruct (str_eqb k k2); reflexivity.
      + cbn [find_key]. destruct (str_eqb k' k2) eqn:E2.
        * destruct (str_eqb k k2) eqn:E3; [|reflexivity].
          apply str_eqb_eq in E2, E3. subst. rewrite str_eqb_refl in E. discriminate.
        * exact IH.
  Qed.

  (* values: every key holds exactly the values given for it, in order *)
  Lemma add_all_find (kvs : list (str * A)) acc k :
    find_key k (add_all kvs acc) =
    match find_key k acc, values_of k kvs with
    | Some vs, new => Some (vs ++ new)
    | None, [] => None
    | None, new => Some new
    end.
  Proof.
    revert acc. induction kvs as [|[k1 v1] kvs IH]; intro acc.
    - cbn. destruct (find_key k acc); [rewrite app_nil_r|]; reflexivity.
    - unfold add_all. cbn [fold_left fst snd]. fold (add_all kvs (add_child k1 v1 acc)). rewrite IH.
      rewrite add_child_find. unfold values_of. cbn [filter fst].
      destruct (str_eqb k1 k) eqn:E.
      + apply str_eqb_eq in E. subst k1. cbn [List.map snd].
        destruct (find_key k acc) as [vs|]; [rewrite <- app_assoc|]; reflexivity.
      + destruct (find_key k acc); reflexivity.
  Qed.

  (* keys: the keys of the accumulator, then the new keys in order of first occurrence *)
  Lemma add_all_keys (kvs : list (str * A)) acc :
    List.map fst (add_all kvs acc) = List.map fst acc ++ first_keys (List.map fst acc) (List.map fst kvs).
  Proof.
    revert acc. induction kvs as [|[k1 v1] kvs IH]; intro acc.
    - cbn. rewrite app_nil_r. reflexivity.
    - unfold add_all. cbn [fold_left fst snd]. fold (add_all kvs (add_child k1 v1 acc)). rewrite IH.
      rewrite add_child_keys. cbn [List.map fst first_keys]. unfold has_key.
      destruct (existsb (str_eqb k1) (List.map fst acc)) eqn:E; [reflexivity|].
      rewrite <- app_assoc. cbn [app]. f_equal. f_equal.
      (* the order of the seen set does not matter *)
      clear. generalize (List.map fst kvs). intro ks. revert acc.
      assert (G : forall (s1 s2 : list str), (forall x, existsb (str_eqb x) s1 = existsb (str_eqb x) s2) -> first_keys s1 ks = first_keys s2 ks).
      { induction ks as [|k ks IHk]; intros s1 s2 H; [reflexivity|]. cbn [first_keys]. rewrite (H k).
        destruct (existsb (str_eqb k) s2); [exact (IHk _ _ H)|]. f_equal. apply IHk. intro x. cbn [existsb]. rewrite (H x). reflexivity. }
      intro acc. apply G. intro x. rewrite existsb_app. cbn [existsb]. rewrite orb_false_r. apply orb_comm.
  Qed.
End Grouping.

(* grouping commutes with a map over the payload *)
Lemma add_child_map {A B : Type} (f : A -> B) k c l :
  add_child k (f c) (List.map (fun e => (fst e, List.map f (snd e))) l) =
  List.map (fun e => (fst e, List.map f (snd e))) (add_child k c l).
Proof.
  induction l as [|[k' vs] l IH]; [reflexivity|].
  cbn [List.map add_child fst snd]. destruct (str_eqb k' k).
  - cbn [List.map fst snd]. rewrite map_app. reflexivity.
  - cbn [List.map fst snd]. rewrite IH. reflexivity.
Qed.

Lemma add_all_map {A B : Type} (f : A -> B) (kvs : list (str * A)) acc :
  add_all (List.map (fun kv => (fst kv, f (snd kv))) kvs) (List.map (fun e => (fst e, List.map f (snd e))) acc) =
  List.map (fun e => (fst e, List.map f (snd e))) (add_all kvs acc).
Proof.
  revert acc. induction kvs as [|[k v] kvs IH]; intro acc; [reflexivity|].
  unfold add_all. cbn [List.map fold_left fst snd].
  fold (add_all (List.map (fun kv => (fst kv, f (snd kv))) kvs)). fold (add_all kvs).
  rewrite add_child_map. apply IH.
Qed.

Lemma add_all_app {A : Type} (a b : list (str * A)) acc : add_all (a ++ b) acc = add_all b (add_all a acc).
Proof. unfold add_all. apply fold_left_app. Qed.

Lemma add_all_nil_iff {A : Type} (kvs : list (str * A)) acc : add_all kvs acc = [] -> kvs = [] /\ acc = [].
Proof.
  revert acc. induction kvs as [|[k v] kvs IH]; intros acc H; [split; [reflexivity|exact H]|].
  unfold add_all in H. cbn [fold_left fst snd] in H. apply IH in H as [_ H].
  destruct acc as [|[k' vs] acc]; cbn [add_child] in H; [discriminate|]. destruct (str_eqb k' k); discriminate.
Qed.

Lemma otree_ind' (Q : otree -> Prop) :
  (forall nm attrs texts kids, Forall Q kids -> Q (ONode nm attrs texts kids)) -> forall t, Q t.
Proof.
  intro H. fix IH 1. intros [nm attrs texts kids]. apply H.
  induction kids as [|k kids IHk]; constructor; [apply IH|exact IHk].
Qed.

(* ================= the decoder on ordered element trees ================= *)
Section Decode.
  Variable trim : str -> str.
  Variable P : xprefs.

  Notation d_run := (d_run trim P).
  Notation d_step := (d_step trim P).

  (* the xmlNode built for a tree *)
  Fixpoint xnode_of (t : otree) : xnode :=
    match t with
    | ONode nm attrs texts kids =>
        XNode (add_all (List.map (fun a => (attr_key P (fst a), leaf (snd a))) attrs ++
                        List.map (fun k => (elem_label P (oname k), xnode_of k)) kids) [])
              (texts_data trim texts)
    end.

  Definition add_node (k : str) (c : xnode) (st : dstate) : dstate :=
    mkD true (fst (d_cur st), node_add k c (snd (d_cur st))) (d_stack st).

  Lemma d_run_app a b st : d_run (a ++ b) st = match d_run a st with DOk st' => d_run b st' | e => e end.
  Proof.
    revert st. induction a as [|t a IH]; intro st; [reflexivity|].
    cbn [app Xml.d_run]. destruct (d_step st t); [apply IH|reflexivity].
  Qed.

  (* character data chunks inside an element (started is set) *)
  Lemma run_texts texts lbl ch d stack :
    d_run (List.map TChar texts) (mkD true (lbl, XNode ch d) stack) =
    DOk (mkD true (lbl, XNode ch (d ++ texts_data trim texts)) stack).
  Proof.
    revert d. induction texts as [|s texts IH]; intro d.
    - cbn. unfold texts_data. cbn. rewrite app_nil_r. reflexivity.
    - cbn [List.map Xml.d_run Xml.d_step]. unfold texts_data. cbn [List.map filter].
      destruct (trim s) as [|c r] eqn:E.
      + cbn [nonempty d_started d_cur d_stack]. exact (IH d).
      + cbn [nonempty d_started]. unfold with_node. cbn [d_cur d_stack fst snd node_data].
        rewrite IH. unfold texts_data. rewrite <- app_assoc. reflexivity.
  Qed.

  Definition kid_entries (kids : list otree) : list (str * xnode) :=
    List.map (fun k => (elem_label P (oname k), xnode_of k)) kids.

  (* running the tokens of a tree attaches its node to the current element *)
  Lemma run_tree t : forall st rest,
    d_run (toks_of t ++ rest) st = d_run rest (add_node (elem_label P (oname t)) (xnode_of t) st).
  Proof.
    induction t as [nm attrs texts kids IHkids] using otree_ind'.
    intros st rest.
    (* kids, given the induction hypothesis for each *)
    assert (Hkids : forall ks, Forall (fun t => forall st rest, d_run (toks_of t ++ rest) st =
                          d_run rest (add_node (elem_label P (oname t)) (xnode_of t) st)) ks ->
              forall lbl ch d stack rest',
                d_run (flat_map toks_of ks ++ rest') (mkD true (lbl, XNode ch d) stack) =
                d_run rest' (mkD true (lbl, XNode (add_all (kid_entries ks) ch) d) stack)).
    { clear. induction 1 as [|k ks Hk _ IH]; intros lbl ch d stack rest'; [reflexivity|].
      cbn [flat_map]. rewrite <- app_assoc, Hk. unfold add_node. cbn [d_cur d_stack fst snd node_add].
      rewrite IH. reflexivity. }
    cbn [toks_of oname]. cbn [app Xml.d_run Xml.d_step].
    rewrite <- !app_assoc. rewrite d_run_app. unfold start_node.
    rewrite run_texts. cbn [app].
    rewrite (Hkids kids IHkids). cbn [app Xml.d_run Xml.d_step d_stack d_cur fst snd].
    unfold add_node. destruct (d_cur st) as [plabel pnode]. cbn [fst snd].
    cbn [xnode_of]. rewrite add_all_app. reflexivity.
  Qed.

  Lemma run_forest f : forall st,
    d_run (forest_toks f) st =
    DOk (match f with [] => st | _ => mkD true (fst (d_cur st), XNode (add_all (kid_entries f) (xchildren (snd (d_cur st)))) (xdata (snd (d_cur st)))) (d_stack st) end).
  Proof.
    induction f as [|t f IH]; intro st; [reflexivity|].
    unfold forest_toks. cbn [flat_map]. rewrite run_tree. fold (forest_toks f). rewrite IH.
    unfold add_node. destruct (d_cur st) as [lbl [ch d]]. cbn [fst snd d_cur d_stack node_add xchildren xdata].
    destruct f; reflexivity.
  Qed.

  (* ---------- convert of the node built for a tree is the value the tree denotes ---------- *)
  Lemma convert_leaf s : convert P (leaf s) = XStr s.
  Proof. reflexivity. Qed.

  Lemma convert_node ch d : ch <> [] ->
    convert P (XNode ch d) =
    XMap ((match d with [] => [] | _ => [(content_name P, from_data d)] end) ++
          List.map (fun e => (fst e, group_val (List.map (convert P) (snd e)))) ch).
  Proof. destruct ch; [congruence|reflexivity]. Qed.

  Lemma convert_tree t : convert P (xnode_of t) = val_of trim P t.
  Proof.
    induction t as [nm attrs texts kids IHkids] using otree_ind'.
    cbn [xnode_of val_of].
    set (xe := List.map (fun a => (attr_key P (fst a), leaf (snd a))) attrs ++ List.map (fun k => (elem_label P (oname k), xnode_of k)) kids).
    set (ve := List.map (fun a => (attr_key P (fst a), XStr (snd a))) attrs ++ List.map (fun k => (elem_label P (oname k), val_of trim P k)) kids).
    assert (Hve : ve = List.map (fun kv => (fst kv, convert P (snd kv))) xe).
    { subst xe ve. rewrite map_app, !map_map. f_equal.
      clear -IHkids. induction IHkids as [|k ks Hk _ IH]; [reflexivity|]. cbn [List.map fst snd]. rewrite Hk, IH. reflexivity. }
    clearbody ve. subst ve. clearbody xe. destruct xe as [|x0 xe'].
    - reflexivity.
    - assert (Hne : add_all (x0 :: xe') [] <> []).
      { intro H. apply add_all_nil_iff in H as [H _]. discriminate. }
      rewrite (convert_node _ _ Hne).
      pose proof (add_all_map (convert P) (x0 :: xe') []) as M.
      assert (Hmm : forall X : list (str * list xnode),
                List.map (fun e => (fst e, group_val (List.map (convert P) (snd e)))) X =
                List.map (fun e => (fst e, group_val (snd e))) (List.map (fun e => (fst e, List.map (convert P) (snd e))) X)).
      { intro X. rewrite map_map. reflexivity. }
      rewrite Hmm, <- M. destruct (texts_data trim texts); reflexivity.
  Qed.

  (* end tags at the very end of the stream are redundant: the end of the
     input closes what is still open (repaired in /repo) *)
  Lemma run_ends names : forall st, exists st', d_run (List.map TEnd names) st = DOk st' /\ d_root st' = d_root st.
  Proof.
    induction names as [|nm names IH]; intro st; [exists st; split; reflexivity|].
    cbn [List.map Xml.d_run Xml.d_step]. destruct (d_stack st) as [|[pl pn] rest] eqn:Es.
    - destruct (IH st) as (st' & H1 & H2). exists st'. split; assumption.
    - destruct (IH (mkD true (pl, node_add (fst (d_cur st)) (snd (d_cur st)) pn) rest)) as (st' & H1 & H2).
      exists st'. split; [exact H1|]. rewrite H2. unfold d_root. rewrite Es. reflexivity.
  Qed.

  Theorem xml_trailing_ends_redundant toks names :
    decode_toks trim P (toks ++ List.map TEnd names) = decode_toks trim P toks.
  Proof.
    unfold decode_toks. rewrite d_run_app. destruct (d_run toks (d_init)) as [st|]; [|reflexivity].
    destruct (run_ends names st) as (st' & H1 & H2). rewrite H1, H2. reflexivity.
  Qed.

  (* decoding the tokens of any ordered forest gives the document it denotes *)
  Theorem xml_decode_denotes f : decode_toks trim P (forest_toks f) = XOk (forest_val trim P f).
  Proof.
    unfold decode_toks. rewrite run_forest. unfold d_init, d_root. cbn [d_stack d_cur close_all fst snd xchildren xdata].
    destruct f as [|t f]; [reflexivity|].
    unfold forest_val.
    assert (Hne : add_all (kid_entries (t :: f)) [] <> []).
    { intro H. apply add_all_nil_iff in H as [H _]. discriminate. }
    cbn [d_stack d_cur close_all fst snd]. rewrite (convert_node _ _ Hne). cbn [app]. f_equal. f_equal.
    assert (Hm : List.map (fun k => (elem_label P (oname k), val_of trim P k)) (t :: f) =
                 List.map (fun kv => (fst kv, convert P (snd kv))) (kid_entries (t :: f))).
    { unfold kid_entries. rewrite map_map. apply map_ext. intro k. cbn [fst snd]. rewrite convert_tree. reflexivity. }
    rewrite Hm.
    pose proof (add_all_map (convert P) (kid_entries (t :: f)) []) as M.
    change (@nil (str * list xval)) with (List.map (fun e : str * list xnode => (fst e, List.map (convert P) (snd e))) []).
    rewrite M, map_map. reflexivity.
  Qed.
End Decode.

(* ================= adjacent groups are their own grouping ================= *)
Section Adjacent.
  Context {A : Type}.

  Definition flat_groups (gs : list (str * list A)) : list (str * A) :=
    flat_map (fun g => List.map (fun v => (fst g, v)) (snd g)) gs.

  Lemma add_child_fresh k (c : A) l : ~ In k (List.map fst l) -> add_child k c l = l ++ [(k, [c])].
  Proof.
    induction l as [|[k' vs] l IH]; intro H; [reflexivity|].
    cbn [add_child]. destruct (str_eqb k' k) eqn:E.
    - apply str_eqb_eq in E. exfalso. apply H. left. exact E.
    - cbn [app]. rewrite IH; [reflexivity|]. intro Hin. apply H. right. exact Hin.
  Qed.

  Lemma add_child_last k (c : A) l vs : ~ In k (List.map fst l) ->
    add_child k c (l ++ [(k, vs)]) = l ++ [(k, vs ++ [c])].
  Proof.
    induction l as [|[k' ws] l IH]; intro H.
    - cbn. rewrite str_eqb_refl. reflexivity.
    - cbn [app add_child]. destruct (str_eqb k' k) eqn:E.
      + apply str_eqb_eq in E. exfalso. apply H. left. exact E.
      + rewrite IH; [reflexivity|]. intro Hin. apply H. right. exact Hin.
  Qed.

  Lemma add_group k (vs : list A) l ws : ~ In k (List.map fst l) ->
    add_all (List.map (fun v => (k, v)) vs) (l ++ [(k, ws)]) = l ++ [(k, ws ++ vs)].
  Proof.
    revert ws. induction vs as [|v vs IH]; intros ws H.
    - cbn. rewrite app_nil_r. reflexivity.
    - unfold add_all. cbn [List.map fold_left fst snd]. rewrite (add_child_last k v l ws H).
      fold (add_all (List.map (fun v0 => (k, v0)) vs) (l ++ [(k, ws ++ [v])])). rewrite (IH _ H), <- app_assoc. reflexivity.
  Qed.

  Lemma add_groups (gs : list (str * list A)) acc :
    NoDup (List.map fst acc ++ List.map fst gs) -> Forall (fun g => snd g <> []) gs ->
    add_all (flat_groups gs) acc = acc ++ gs.
  Proof.
    revert acc. induction gs as [|[k vs] gs IH]; intros acc Hnd Hne.
    - cbn. rewrite app_nil_r. reflexivity.
    - inversion Hne as [|? ? Hvs Hne']; subst. cbn [snd] in Hvs.
      unfold flat_groups. cbn [flat_map fst snd]. rewrite add_all_app. fold (flat_groups gs).
      destruct vs as [|v vs]; [congruence|].
      assert (Hk : ~ In k (List.map fst acc)).
      { cbn [List.map fst] in Hnd. apply NoDup_remove_2 in Hnd. intro Hin. apply Hnd. apply in_or_app. left. exact Hin. }
      unfold add_all at 2. cbn [List.map fold_left fst snd]. rewrite (add_child_fresh k v acc Hk).
      fold (add_all (List.map (fun v0 => (k, v0)) vs) (acc ++ [(k, [v])])). rewrite (add_group k vs acc [v] Hk).
      cbn [app]. rewrite IH; [rewrite <- app_assoc; reflexivity| |exact Hne'].
      rewrite map_app. cbn [List.map fst]. rewrite <- app_assoc. exact Hnd.
  Qed.
End Adjacent.

(* ================= the encoder on canonical trees, and the round trip ================= *)
Lemma has_prefix_app p s : has_prefix p (p ++ s) = true.
Proof. induction p as [|c p IH]; [reflexivity|]. cbn [app has_prefix]. rewrite N.eqb_refl. exact IH. Qed.

Lemma drop_prefix_app p s : drop_prefix p (p ++ s) = s.
Proof. induction p as [|c p IH]; [destruct s; reflexivity|]. cbn [app drop_prefix]. exact IH. Qed.

Lemma ctree_ind' (Q : ctree -> Prop) :
  (forall attrs text kids, Forall (fun g => Forall Q (snd g)) kids -> Q (CNode attrs text kids)) -> forall t, Q t.
Proof.
  intro H. fix IH 1. intros [attrs text kids]. apply H.
  induction kids as [|[k ts] kids IHk]; constructor; [|exact IHk].
  cbn [snd]. induction ts as [|t ts IHt]; constructor; [apply IH|exact IHt].
Qed.

Section RoundTrip.
  Variable trim : str -> str.
  Variable P : xprefs.

  Hypothesis trim_nil : trim [] = [].
  Hypothesis trim_newline : trim [10] = [].
  (* the preferences keep the key classes apart *)
  Hypothesis content_class : classify P (content_name P) = KContent.
  Hypothesis attr_class : forall nm, classify P (attr_prefix P ++ nm) = KAttr.

  (* the domain: text is what the decoder would keep; attribute names and
     child labels are pairwise different; labels are element keys; every
     group of children is non-empty *)
  Inductive cok : ctree -> Prop :=
  | cok_node attrs text kids :
      match text with Some s => trim s = s /\ s <> [] | None => True end ->
      NoDup (List.map fst attrs) -> NoDup (List.map fst kids) ->
      Forall (fun g => classify P (fst g) = KElem /\ snd g <> [] /\ Forall cok (snd g)) kids ->
      cok (CNode attrs text kids).

  Fixpoint to_otree (k : str) (t : ctree) : otree :=
    match t with
    | CNode attrs text kids =>
        ONode ([], k) (List.map (fun a => (([], fst a), snd a)) attrs)
              (match text with
               | Some s => [s]
               | None => match attrs, kids with [], [] => [[]] | _, _ => [] end
               end)
              (flat_map (fun g : str * list ctree => let (k', ts) := g in List.map (fun t' => to_otree k' t') ts) kids)
    end.

  Definition group_otrees (g : str * list ctree) : list otree := List.map (to_otree (fst g)) (snd g).

  Lemma cval_not_seq t l : cval P t <> XSeq l.
  Proof. destruct t as [[|a attrs] [s|] [|g kids]]; cbn; discriminate. Qed.

  (* --- what the encoder writes --- *)
  Lemma ocm_app {A B : Type} (f : A -> option (list B)) a b :
    opt_concat_map f (a ++ b) = opt_app (opt_concat_map f a) (opt_concat_map f b).
  Proof.
    induction a as [|x a IH]; [cbn; destruct (opt_concat_map f b); reflexivity|].
    cbn [app opt_concat_map]. fold (opt_concat_map f (a ++ b)). fold (opt_concat_map f a). rewrite IH.
    destruct (f x), (opt_concat_map f a), (opt_concat_map f b); cbn [opt_app]; try reflexivity. rewrite app_assoc. reflexivity.
  Qed.

  Lemma enc_attrs_app a b : enc_attrs P (a ++ b) = opt_app (enc_attrs P a) (enc_attrs P b).
  Proof.
    induction a as [|[k v] a IH]; [cbn; destruct (enc_attrs P b); reflexivity|].
    cbn [app enc_attrs]. rewrite IH. destruct (is_attribute P k); [|reflexivity].
    destruct (scalar_text v), (enc_attrs P a), (enc_attrs P b); reflexivity.
  Qed.

  Lemma enc_attrs_attrs attrs :
    enc_attrs P (List.map (fun a => (attr_prefix P ++ fst a, XStr (snd a))) attrs) =
    Some (List.map (fun a => (([], fst a), snd a)) attrs).
  Proof.
    induction attrs as [|[nm v] attrs IH]; [reflexivity|].
    cbn [List.map enc_attrs fst snd]. unfold is_attribute. rewrite attr_class. cbn [scalar_text].
    rewrite IH, drop_prefix_app. reflexivity.
  Qed.

  Lemma enc_attrs_elems (l : list (str * xval)) :
    Forall (fun e => classify P (fst e) = KElem) l -> enc_attrs P l = Some [].
  Proof.
    induction 1 as [|[k v] l Hk _ IH]; [reflexivity|]. cbn [enc_attrs]. unfold is_attribute. cbn [fst] in Hk. rewrite Hk. exact IH.
  Qed.

  Lemma body_attrs elem attrs :
    opt_concat_map (enc_entry P elem) (List.map (fun a => (attr_prefix P ++ fst a, XStr (snd a))) attrs) = Some [].
  Proof.
    induction attrs as [|[nm v] attrs IH]; [reflexivity|].
    cbn [List.map opt_concat_map fst snd]. fold (opt_concat_map (enc_entry P elem)). rewrite IH.
    unfold enc_entry. rewrite attr_class. reflexivity.
  Qed.

  Definition enc_elem' := (fun key x => enc_elem P key x).

  Lemma enc_group k ts :
    ts <> [] -> Forall (fun t => enc_elem P k (cval P t) = Some (toks_of (to_otree k t))) ts ->
    enc_elem P k (group_val (List.map (cval P) ts)) = Some (flat_map toks_of (List.map (to_otree k) ts)).
  Proof.
    intros Hne Hall.
    assert (Hseq : opt_concat_map (fun x => enc_elem P k x) (List.map (cval P) ts) = Some (flat_map toks_of (List.map (to_otree k) ts))).
    { clear Hne. induction Hall as [|t ts Ht _ IH]; [reflexivity|].
      cbn [List.map opt_concat_map flat_map]. fold (opt_concat_map (fun x => enc_elem P k x)). rewrite Ht, IH. reflexivity. }
    destruct ts as [|t [|t2 ts]]; [congruence| |].
    - inversion Hall as [|? ? Ht _]; subst. cbn [List.map group_val flat_map]. rewrite app_nil_r. exact Ht.
    - cbn [List.map group_val] in *. cbn [enc_elem]. exact Hseq.
  Qed.

  Lemma enc_ok t : forall k, cok t -> enc_elem P k (cval P t) = Some (toks_of (to_otree k t)).
  Proof.
    induction t as [attrs text kids IHkids] using ctree_ind'. intros k Hok.
    inversion Hok as [? ? ? Htext Hnda Hndk Hkids]; subst.
    (* the child groups *)
    assert (Hbody : forall elem, (forall key x, elem key x = enc_elem P key x) ->
              opt_concat_map (enc_entry P elem) (List.map (fun g => (fst g, group_val (List.map (cval P) (snd g)))) kids) =
              Some (flat_map toks_of (flat_map (fun g : str * list ctree => let (k', ts) := g in List.map (fun t' => to_otree k' t') ts) kids))).
    { intros elem Helem. clear Hndk Hok. induction kids as [|[k' ts] kids IH]; [reflexivity|].
      inversion IHkids as [|? ? Hts IHkids']; subst. inversion Hkids as [|? ? (Hc & Hne & Hoks) Hkids']; subst.
      cbn [fst snd] in *.
      cbn [List.map opt_concat_map flat_map fst snd]. fold (opt_concat_map (enc_entry P elem)). rewrite (IH IHkids' Hkids').
      unfold enc_entry at 1. rewrite Hc, Helem.
      rewrite (enc_group k' ts Hne).
      - cbn [opt_app]. rewrite flat_map_app. reflexivity.
      - rewrite Forall_forall in *. intros t Hin. exact (Hts t Hin k' (Hoks t Hin)). }
    assert (Hkattrs : enc_attrs P (List.map (fun g => (fst g, group_val (List.map (cval P) (snd g)))) kids) = Some []).
    { apply enc_attrs_elems. rewrite Forall_forall in *. intros e He. apply in_map_iff in He as (g & <- & Hg). cbn [fst]. exact (proj1 (Hkids g Hg)). }
    assert (Hmap : forall pre tpre,
              enc_attrs P pre = Some [] -> opt_concat_map (enc_entry P (fun key x => enc_elem P key x)) pre = Some tpre ->
              enc_elem P k (XMap (pre ++ List.map (fun a => (attr_prefix P ++ fst a, XStr (snd a))) attrs ++
                                   List.map (fun g => (fst g, group_val (List.map (cval P) (snd g)))) kids)) =
              Some (TStart ([], k) (List.map (fun a => (([], fst a), snd a)) attrs) :: tpre ++
                    flat_map toks_of (flat_map (fun g : str * list ctree => let (k', ts) := g in List.map (fun t' => to_otree k' t') ts) kids) ++ [TEnd ([], k)])).
    { intros pre tpre Hpa Hpb. cbn [enc_elem].
      rewrite !enc_attrs_app, Hpa, enc_attrs_attrs, Hkattrs. cbn [opt_app app]. rewrite app_nil_r.
      rewrite !ocm_app, Hpb, body_attrs, (Hbody (fun key x => enc_elem P key x) (fun _ _ => eq_refl)). cbn [opt_app app]. unfold lname. rewrite <- app_assoc. reflexivity. }
    cbn [cval to_otree toks_of].
    destruct attrs as [|a attrs]; [destruct kids as [|g kids]|].
    - (* a leaf *)
      destruct text as [s|]; reflexivity.
    - destruct text as [s|].
      + rewrite (Hmap [(content_name P, XStr s)] [TChar s]); [reflexivity|..].
        * cbn [enc_attrs]. unfold is_attribute. rewrite content_class. reflexivity.
        * cbn. unfold enc_entry. rewrite content_class. reflexivity.
      + rewrite (Hmap [] []); reflexivity.
    - destruct text as [s|].
      + rewrite (Hmap [(content_name P, XStr s)] [TChar s]); [reflexivity|..].
        * cbn [enc_attrs]. unfold is_attribute. rewrite content_class. reflexivity.
        * cbn. unfold enc_entry. rewrite content_class. reflexivity.
      + rewrite (Hmap [] []); reflexivity.
  Qed.

  (* --- what the decoder makes of it --- *)
  Lemma elem_label_plain k : elem_label P ([], k) = k.
  Proof. unfold elem_label. cbn [fst snd]. destruct (keep_ns P && raw_token P); reflexivity. Qed.

  Lemma attr_key_plain nm : attr_key P ([], nm) = attr_prefix P ++ nm.
  Proof. unfold attr_key. cbn [fst snd]. destruct (keep_ns P); reflexivity. Qed.

  Lemma oname_to_otree k t : oname (to_otree k t) = ([], k).
  Proof. destruct t; reflexivity. Qed.

  Definition kid_groups (kids : list (str * list ctree)) : list (str * list xval) :=
    List.map (fun g => (fst g, List.map (cval P) (snd g))) kids.
  Definition attr_groups (attrs : list (str * str)) : list (str * list xval) :=
    List.map (fun a => (attr_prefix P ++ fst a, [XStr (snd a)])) attrs.

  Lemma attr_entries_flat attrs :
    List.map (fun a => (attr_key P (fst a), XStr (snd a))) (List.map (fun a => (([], fst a), snd a)) attrs) = flat_groups (attr_groups attrs).
  Proof.
    induction attrs as [|[nm v] attrs IH]; [reflexivity|].
    cbn [List.map fst snd]. rewrite IH, attr_key_plain. reflexivity.
  Qed.

  Lemma kid_entries_flat (kids : list (str * list ctree)) :
    Forall (fun g => Forall (fun t => forall k, val_of trim P (to_otree k t) = cval P t) (snd g)) kids ->
    List.map (fun k => (elem_label P (oname k), val_of trim P k))
      (flat_map (fun g : str * list ctree => let (k', ts) := g in List.map (fun t' => to_otree k' t') ts) kids) =
    flat_groups (kid_groups kids).
  Proof.
    induction 1 as [|[k ts] kids Hts _ IH]; [reflexivity|].
    cbn [flat_map]. rewrite map_app, IH. unfold flat_groups, kid_groups. cbn [List.map flat_map fst snd]. f_equal.
    clear -Hts. cbn [snd] in Hts. induction Hts as [|t ts Ht _ IH]; [reflexivity|].
    cbn [List.map]. rewrite IH, oname_to_otree, elem_label_plain, Ht. reflexivity.
  Qed.

  Lemma class_neq k1 k2 : classify P k1 <> classify P k2 -> k1 <> k2.
  Proof. intros H E. subst. apply H. reflexivity. Qed.

  Lemma groups_nodup attrs (kids : list (str * list ctree)) :
    NoDup (List.map fst attrs) -> NoDup (List.map fst kids) ->
    Forall (fun g => classify P (fst g) = KElem) kids ->
    NoDup (List.map fst (attr_groups attrs ++ kid_groups kids)).
  Proof.
    intros Ha Hk Hc. rewrite map_app. unfold attr_groups, kid_groups. rewrite !map_map. cbn [fst].
    induction attrs as [|[nm v] attrs IH]; [exact Hk|].
    inversion Ha as [|? ? Hnotin Ha']; subst. cbn [List.map fst app]. constructor; [|exact (IH Ha')].
    intro Hin. apply in_app_or in Hin as [Hin|Hin].
    - apply in_map_iff in Hin as ([nm2 v2] & E & Hin). cbn [fst] in E. apply app_inv_head in E. subst nm2.
      apply Hnotin. apply in_map_iff. exists (nm, v2). split; [reflexivity|exact Hin].
    - apply in_map_iff in Hin as (g & E & Hin). rewrite Forall_forall in Hc. specialize (Hc g Hin).
      rewrite E in Hc. rewrite attr_class in Hc. discriminate.
  Qed.

  Lemma val_ok t : forall k, cok t -> val_of trim P (to_otree k t) = cval P t.
  Proof.
    induction t as [attrs text kids IHkids] using ctree_ind'. intros k Hok.
    inversion Hok as [? ? ? Htext Hnda Hndk Hkids]; subst.
    assert (IH' : Forall (fun g => Forall (fun t => forall k, val_of trim P (to_otree k t) = cval P t) (snd g)) kids).
    { rewrite Forall_forall in *. intros g Hg. rewrite Forall_forall. intros t Ht k0.
      specialize (IHkids g Hg). rewrite Forall_forall in IHkids. apply (IHkids t Ht).
      destruct (Hkids g Hg) as (_ & _ & Hc). rewrite Forall_forall in Hc. exact (Hc t Ht). }
    cbn [to_otree val_of cval].
    rewrite attr_entries_flat, (kid_entries_flat kids IH').
    assert (Hflat : flat_groups (attr_groups attrs) ++ flat_groups (kid_groups kids) = flat_groups (attr_groups attrs ++ kid_groups kids)).
    { unfold flat_groups. rewrite flat_map_app. reflexivity. }
    rewrite Hflat.
    assert (Hg : add_all (flat_groups (attr_groups attrs ++ kid_groups kids)) [] = attr_groups attrs ++ kid_groups kids).
    { apply (add_groups (attr_groups attrs ++ kid_groups kids) []).
      - cbn [List.map app]. apply groups_nodup; try assumption.
        rewrite Forall_forall in *. intros g Hg. exact (proj1 (Hkids g Hg)).
      - apply Forall_app. split.
        + unfold attr_groups. rewrite Forall_forall. intros g Hg. apply in_map_iff in Hg as (a & <- & _). discriminate.
        + unfold kid_groups. rewrite Forall_forall in *. intros g Hg. apply in_map_iff in Hg as (g0 & <- & Hg0). cbn [snd].
          destruct (Hkids g0 Hg0) as (_ & Hne & _). destruct (snd g0); [congruence|discriminate]. }
    destruct attrs as [|a attrs]; [destruct kids as [|g kids]|].
    - (* a leaf *)
      cbn [attr_groups kid_groups List.map app flat_groups flat_map]. unfold texts_data.
      destruct text as [s|].
      + destruct Htext as [Ht Hne]. cbn [List.map filter]. rewrite Ht. destruct s; [congruence|reflexivity].
      + cbn [List.map filter]. rewrite trim_nil. reflexivity.
    - (* no attributes, children *)
      assert (Hnn : flat_groups (attr_groups [] ++ kid_groups (g :: kids)) <> []).
      { intro E0. rewrite E0 in Hg. cbn in Hg. discriminate. }
      destruct (flat_groups (attr_groups [] ++ kid_groups (g :: kids))) as [|e es] eqn:E; [congruence|].
      rewrite Hg. cbn [attr_groups List.map app]. unfold kid_groups. rewrite map_map. cbn [fst snd].
      unfold texts_data. destruct text as [s|].
      + destruct Htext as [Ht Hne]. cbn [List.map filter]. rewrite Ht. destruct s; [congruence|reflexivity].
      + reflexivity.
    - assert (Hnn : flat_groups (attr_groups (a :: attrs) ++ kid_groups kids) <> []).
      { intro E0. rewrite E0 in Hg. cbn in Hg. discriminate. }
      destruct (flat_groups (attr_groups (a :: attrs) ++ kid_groups kids)) as [|e es] eqn:E; [congruence|].
      rewrite Hg. rewrite map_app. unfold attr_groups, kid_groups. rewrite !map_map. cbn [fst snd group_val].
      unfold texts_data. destruct text as [s|].
      + destruct Htext as [Ht Hne]. cbn [List.map filter]. rewrite Ht. destruct s; [congruence|reflexivity].
      + reflexivity.
  Qed.

  (* --- the top level --- *)
  Lemma elem_key_facts k : classify P k = KElem ->
    has_prefix (proc_prefix P) k = false /\ str_eqb k (directive_name P) = false /\ str_eqb k (xml_decl_key P) = false.
  Proof.
    unfold classify. intro H.
    destruct (has_prefix (proc_prefix P) k) eqn:E1; [discriminate|].
    destruct (str_eqb k (directive_name P)) eqn:E2; [discriminate|].
    repeat split. destruct (str_eqb k (xml_decl_key P)) eqn:E3; [|reflexivity].
    apply str_eqb_eq in E3. subst k. unfold xml_decl_key in E1. rewrite has_prefix_app in E1. discriminate.
  Qed.

  Definition doc_ok (doc : list (str * list ctree)) : Prop :=
    doc <> [] /\ NoDup (List.map fst doc) /\
    Forall (fun g => classify P (fst g) = KElem /\ snd g <> [] /\ Forall cok (snd g)) doc.

  Definition doc_forest (doc : list (str * list ctree)) : list otree :=
    flat_map (fun g : str * list ctree => let (k', ts) := g in List.map (fun t' => to_otree k' t') ts) doc.

  Lemma enc_top_doc doc : Forall (fun g => classify P (fst g) = KElem /\ snd g <> [] /\ Forall cok (snd g)) doc ->
    enc_top P (List.map (fun g => (fst g, group_val (List.map (cval P) (snd g)))) doc) = Some (forest_toks (doc_forest doc)) /\
    enc_decl P (List.map (fun g => (fst g, group_val (List.map (cval P) (snd g)))) doc) = [].
  Proof.
    induction 1 as [|[k ts] doc (Hc & Hne & Hoks) _ (IH1 & IH2)]; [split; reflexivity|].
    cbn [fst snd] in *. destruct (elem_key_facts k Hc) as (F1 & F2 & F3).
    cbn [List.map enc_top enc_decl fst snd]. rewrite F3, F1, F2, IH1, IH2. split; [|reflexivity].
    rewrite (enc_group k ts Hne).
    - cbn [opt_app]. unfold forest_toks, doc_forest. cbn [flat_map]. rewrite flat_map_app. reflexivity.
    - rewrite Forall_forall in *. intros t Ht. exact (enc_ok t k (Hoks t Ht)).
  Qed.

  Lemma decode_trailing_newline toks : decode_toks trim P (toks ++ [TChar [10]]) = decode_toks trim P toks.
  Proof.
    unfold decode_toks. rewrite d_run_app. destruct (Xml.d_run trim P toks (d_init)) as [st|]; [|reflexivity].
    cbn [Xml.d_run Xml.d_step]. rewrite trim_newline. reflexivity.
  Qed.

  Theorem xml_roundtrip doc : doc_ok doc ->
    exists toks, encode_toks P (cdoc P doc) = Some toks /\ decode_toks trim P toks = XOk (cdoc P doc).
  Proof.
    intros (Hne & Hnd & Hall).
    destruct (enc_top_doc doc Hall) as (E1 & E2).
    exists (forest_toks (doc_forest doc) ++ [TChar [10]]). split.
    - unfold encode_toks, cdoc. rewrite E1, E2. reflexivity.
    - rewrite decode_trailing_newline, xml_decode_denotes. f_equal.
      assert (IH' : Forall (fun g => Forall (fun t => forall k, val_of trim P (to_otree k t) = cval P t) (snd g)) doc).
      { rewrite Forall_forall in *. intros g Hg. rewrite Forall_forall. intros t Ht k0. apply val_ok.
        destruct (Hall g Hg) as (_ & _ & Hc). rewrite Forall_forall in Hc. exact (Hc t Ht). }
      unfold forest_val. destruct (doc_forest doc) as [|t0 f0] eqn:Ef.
      + (* the forest of a non-empty document with non-empty groups is not empty *)
        destruct doc as [|[k ts] doc]; [congruence|]. inversion Hall as [|? ? (_ & Hts & _) _]; subst. cbn [snd] in Hts.
        destruct ts; [congruence|]. unfold doc_forest in Ef. cbn in Ef. discriminate.
      + rewrite <- Ef. unfold doc_forest. rewrite (kid_entries_flat doc IH').
        rewrite (add_groups (kid_groups doc) []).
        * unfold cdoc, kid_groups. cbn [app]. rewrite map_map. reflexivity.
        * cbn [List.map app]. unfold kid_groups. rewrite map_map. exact Hnd.
        * unfold kid_groups. rewrite Forall_forall in *. intros g Hg. apply in_map_iff in Hg as (g0 & <- & Hg0). cbn [snd].
          destruct (Hall g0 Hg0) as (_ & Hne0 & _). destruct (snd g0); [congruence|discriminate].
  Qed.
End RoundTrip.

(* ================= the default preferences meet the hypotheses ================= *)
Lemma default_content_class : classify default_xprefs (content_name default_xprefs) = KContent.
Proof. vm_compute. reflexivity. Qed.

Lemma default_attr_class nm : classify default_xprefs (attr_prefix default_xprefs ++ nm) = KAttr.
Proof. vm_compute. reflexivity. Qed.

Theorem xml_roundtrip_default doc : doc_ok ascii_trim default_xprefs doc ->
  exists toks, encode_toks default_xprefs (cdoc default_xprefs doc) = Some toks /\
               decode_toks ascii_trim default_xprefs toks = XOk (cdoc default_xprefs doc).
Proof.
  exact (xml_roundtrip ascii_trim default_xprefs eq_refl eq_refl default_content_class default_attr_class doc).
Qed.

(* the two grouping properties for the function the decoder uses, from the empty node *)
Theorem group_values {A : Type} (kvs : list (str * A)) k :
  find_key k (add_all kvs []) = match values_of k kvs with [] => None | vs => Some vs end.
Proof. rewrite add_all_find. reflexivity. Qed.

Theorem group_keys {A : Type} (kvs : list (str * A)) :
  List.map fst (add_all kvs []) = first_keys [] (List.map fst kvs).
Proof. rewrite add_all_keys. reflexivity. Qed.
