(* Proofs/PrecTableProofs.v — finite checks over the regenerated operator
   table, discharged by computation and lifted to quantified statements. *)
From Coq Require Import String.
From YQ Require Import Base.Str Gen.OpTable Model.Postfix Spec.PrecSpec.
Open Scope N_scope.

Lemma table_matches_spec_true : table_matches_spec_b = true.
Proof. vm_compute. reflexivity. Qed.

Lemma pair_ok_sound a b :
  pair_ok a b = true ->
  exists pa pb, prec_of (fst a) = Some pa /\ prec_of (fst b) = Some pb /\
                N.compare pa pb = N.compare (snd a) (snd b).
Proof.
  unfold pair_ok, spec_cmp.
  destruct (prec_of (fst a)) as [pa|]; [|discriminate].
  destruct (prec_of (fst b)) as [pb|]; [|discriminate].
  intro H. exists pa, pb. split; [reflexivity|]. split; [reflexivity|].
  destruct (N.compare pa pb), (N.compare (snd a) (snd b)); try reflexivity; discriminate.
Qed.

Lemma table_matches_spec :
  forall a b, In a spec_classes -> In b spec_classes ->
  exists pa pb, prec_of (fst a) = Some pa /\ prec_of (fst b) = Some pb /\
                N.compare pa pb = N.compare (snd a) (snd b).
Proof.
  intros a b Ha Hb.
  pose proof table_matches_spec_true as H. unfold table_matches_spec_b in H.
  rewrite forallb_forall in H. specialize (H _ Ha).
  rewrite forallb_forall in H. specialize (H _ Hb).
  apply pair_ok_sound. exact H.
Qed.

Lemma table_arity :
  forall a, In a spec_arity -> nargs_of (fst a) = Some (snd a).
Proof.
  intros a Ha.
  assert (H : table_arity_b = true) by (vm_compute; reflexivity).
  unfold table_arity_b in H. rewrite forallb_forall in H. specialize (H _ Ha).
  unfold arity_ok in H. destruct (nargs_of (fst a)) as [n|]; [|discriminate].
  apply N.eqb_eq in H. congruence.
Qed.

Lemma table_post_traverse :
  forall oi, In oi op_table -> oi_cpt oi = true ->
  exists sp ta, prec_of "shortPipeOpType" = Some sp /\ prec_of "traverseArrayOpType" = Some ta /\
                sp < oi_prec oi /\ ta < oi_prec oi.
Proof.
  intros oi Hin Hc.
  assert (H : table_post_traverse_b = true) by (vm_compute; reflexivity).
  unfold table_post_traverse_b in H. rewrite forallb_forall in H. specialize (H _ Hin).
  unfold post_traverse_ok in H. rewrite Hc in H.
  destruct (prec_of "shortPipeOpType") as [sp|]; [|discriminate].
  destruct (prec_of "traverseArrayOpType") as [ta|]; [|discriminate].
  apply andb_true_iff in H as [H1 H2]. apply N.ltb_lt in H1, H2.
  exists sp, ta. repeat split; assumption.
Qed.

Lemma table_operands :
  forall oi, In oi op_table -> oi_nargs oi <= 1 ->
  (forall n, In n operand_exempt -> oi_var oi <> str_of_string n) ->
  forall n, In n user_infix -> exists p, prec_of n = Some p /\ p < oi_prec oi.
Proof.
  intros oi Hin Hn Hex n Hu.
  assert (H : table_operands_b = true) by (vm_compute; reflexivity).
  unfold table_operands_b in H. rewrite forallb_forall in H. specialize (H _ Hin).
  unfold operand_ok in H.
  assert (Hle : (oi_nargs oi <=? 1) = true) by (apply N.leb_le; exact Hn).
  rewrite Hle in H.
  destruct (existsb (fun n0 => str_eqb (oi_var oi) (str_of_string n0)) operand_exempt) eqn:He.
  - apply existsb_exists in He as (m & Hm & Heq). apply str_eqb_eq in Heq.
    exfalso. exact (Hex m Hm Heq).
  - cbn [andb negb] in H. rewrite forallb_forall in H. specialize (H _ Hu).
    destruct (prec_of n) as [p|]; [|discriminate].
    exists p. split; [reflexivity|]. apply N.ltb_lt. exact H.
Qed.

