(* Proofs/PathEvalProofs.v — C16 through the evaluator: the node reached by traversing a simple path p of a
   well-keyed document reports p itself: `p | path` = p, for keys and index literals mixed, of any length. *)
From Coq Require Import Arith ZArith Lia List.
From YQ Require Import Base.Str Model.Node Model.Store Model.Eval Spec.Lens Proofs.LensProofs Proofs.AssignProofs
  Proofs.AssignPathProofs Proofs.DeletePathProofs Proofs.PathProofs.
Import ListNotations.

Definition pelem_of (s : estep) : pelem := match s with EK k => PStr k | EI _ i => PInt (Z.of_nat i) end.

Lemma position_path_resolved p : forall n pos,
  resolvep p n = Some pos -> position_path n pos = List.map pelem_of p.
Proof.
  induction p as [|s r IH]; intros n pos H; cbn [resolvep] in H.
  - injection H as <-. reflexivity.
  - destruct (res1 s n) as [[i c]|] eqn:Es; [|discriminate].
    destruct (resolvep r c) as [pos'|] eqn:Er; [|discriminate]. cbn [option_map] in H.
    assert (Hp : pos = i :: pos') by congruence. subst pos. cbn [List.map position_path].
    destruct s as [k|t j]; destruct n as [tg tv|items|es]; cbn [res1] in Es; try discriminate.
    + destruct (find_idx es k) as [i0|] eqn:Ef; [|discriminate].
      destruct (find_idx_some es k i0 Ef) as (k' & c0 & Hc0 & Hk). apply str_eqb_eq in Hk. subst k'.
      rewrite Hc0 in Es. assert (i = i0) by congruence. assert (c = c0) by congruence. subst i c.
      rewrite Hc0. cbn [pelem_of]. f_equal. apply IH. exact Er.
    + destruct (nth_error items j) as [[k0 c0]|] eqn:En; [|discriminate].
      assert (i = j) by congruence. assert (c = c0) by congruence. subst i c.
      rewrite En. cbn [pelem_of]. f_equal. apply IH. exact Er.
Qed.

Theorem path_of_traversal p doc fuel pos :
  p <> [] -> Forall step_ok p -> (length p + 3 <= fuel)%nat -> wk doc ->
  resolvep p doc = Some pos ->
  exists q st', eval fuel (EPipe (pe p) EPath) true [] [(O, [])] (init_store doc) = Ok ([q], st')
                /\ deref st' q = Some (path_node (List.map pelem_of p)).
Proof.
  intros Hne Hok Hfuel Hwk Hr.
  destruct fuel as [|f]; [lia|]. cbn [eval].
  assert (Hd0 : deref (init_store doc) (O, []) = Some doc) by reflexivity.
  destruct (eval_pe_ro p f [] O [] (init_store doc) doc pos Hne Hok ltac:(lia) Hd0 Hr) as [g Hg].
  match goal with
  | |- context [eval f (pe p) true ?a ?b ?c] =>
      replace (eval f (pe p) true a b c) with (@Ok out ([(O, [] ++ pos)], init_store doc ++ g)) by (symmetry; exact Hg)
  end.
  cbn [bind fst snd app]. destruct f as [|f]; [lia|]. cbn [eval each].
  unfold one, alloc_repl, alloc. cbn [bind fst snd app].
  destruct (resolvep_get _ _ _ Hr) as [m Hm].
  assert (Hpath : path_of (init_store doc ++ g) (O, pos) = List.map pelem_of p).
  { transitivity (path_of (init_store doc) (O, pos)); [reflexivity|].
    rewrite (path_of_doc doc pos m Hwk Hm). apply position_path_resolved. exact Hr. }
  rewrite Hpath. eexists. eexists. split; [reflexivity|].
  unfold deref. cbn [fst snd]. rewrite nth_error_app_len. reflexivity.
Qed.
