(* Proofs/GlobProofs.v — the glob matcher of matchKeyString.go (Model/Bounds.v)
   on a pattern without `*` and `?` is plain string equality.  This is what
   makes the two branches of [trav_map] / [eq_nodes] in Model/Eval.v one
   definition: the exact-key branch is the pattern branch specialised. *)
From Coq Require Import List NArith Bool Arith Lia.
From YQ Require Import Base.Str Model.Node Model.Store Model.Bounds.
From YQ Require Model.Eval.
Import ListNotations.

Definition diag (i : nat) : gst := {| g_px := i; g_nx := i; g_npx := 0; g_nnx := 0 |}.

Lemma nth_error_pre {A} (pre : list A) x r : nth_error (pre ++ x :: r) (length pre) = Some x.
Proof. induction pre as [|y pre IH]; cbn; [reflexivity|exact IH]. Qed.

Lemma nth_error_end {A} (pre : list A) : nth_error (pre ++ []) (length pre) = None.
Proof. rewrite app_nil_r. apply nth_error_None. lia. Qed.

Lemma ltb_len_pre {A} (pre : list A) x r : (length pre <? length (pre ++ x :: r))%nat = true.
Proof. apply Nat.ltb_lt. rewrite app_length. cbn. lia. Qed.

Lemma ltb_len_end {A} (pre : list A) : (length pre <? length (pre ++ []))%nat = false.
Proof. apply Nat.ltb_ge. rewrite app_nil_r. lia. Qed.

Lemma plain_loop : forall p' pre n' fuel,
  is_wild p' = false -> (length p' < fuel)%nat ->
  g_loop fuel (pre ++ n') (pre ++ p') (diag (length pre)) = Ok (str_eqb n' p').
Proof.
  induction p' as [|c p' IH]; intros pre n' fuel Hw Hf; (destruct fuel as [|f]; [cbn in Hf; lia|]); cbn [g_loop].
  - (* pattern exhausted *)
    unfold g_step, diag. cbn [g_px g_nx g_npx g_nnx]. rewrite ltb_len_end.
    destruct n' as [|d n'].
    + rewrite ltb_len_end. cbn. reflexivity.
    + rewrite ltb_len_pre. cbn [orb]. rewrite nth_error_end.
      unfold g_restart. cbn. reflexivity.
  - unfold is_wild in Hw. cbn [existsb] in Hw. apply orb_false_iff in Hw as [Hc Hw].
    apply orb_false_iff in Hc as [H42 H63].
    unfold g_step, diag. cbn [g_px g_nx g_npx g_nnx]. rewrite ltb_len_pre. cbn [orb].
    rewrite nth_error_pre. rewrite H42, H63.
    destruct n' as [|d n'].
    + rewrite nth_error_end. unfold g_restart. cbn. reflexivity.
    + rewrite nth_error_pre. cbn [str_eqb].
      destruct (d =? c)%N eqn:E.
      * apply N.eqb_eq in E. subst d. cbn [andb]. unfold g_adv. cbn [g_px g_nx g_npx g_nnx].
        specialize (IH (pre ++ [c]) n' f Hw ltac:(cbn in Hf; lia)).
        rewrite <- !app_assoc in IH. cbn [app] in IH. rewrite app_length in IH. cbn [length] in IH.
        replace (length pre + 1)%nat with (S (length pre)) in IH by lia. exact IH.
      * cbn [andb]. unfold g_restart. cbn. reflexivity.
Qed.

Theorem match_key_plain name pat :
  is_wild pat = false -> match_key name pat = Ok (str_eqb name pat).
Proof.
  intros Hw. unfold match_key. destruct pat as [|c r] eqn:Ep.
  - destruct name; reflexivity.
  - rewrite <- Ep in *.
    assert (Hs : str_eqb pat [42%N] = false).
    { subst pat. unfold is_wild in Hw. cbn [existsb] in Hw. apply orb_false_iff in Hw as [Hc _].
      apply orb_false_iff in Hc as [H42 _]. cbn [str_eqb]. rewrite H42. reflexivity. }
    rewrite Hs. unfold deep_match.
    apply (plain_loop pat [] name). exact Hw.
    unfold deep_match_fuel. nia.
Qed.

(* ---------- consequences for the evaluator model ---------- *)
Lemma glob_match_plain name pat : is_wild pat = false -> Eval.glob_match name pat = Store.Ok (str_eqb name pat).
Proof. intros Hw. unfold Eval.glob_match. rewrite (match_key_plain name pat Hw). reflexivity. Qed.

Lemma find_glob_plain es k : is_wild k = false -> forall i, Eval.find_glob es k i = Store.Ok (Eval.find_key es k i).
Proof.
  intros Hw. induction es as [|[k' v] es IH]; intros i; cbn [Eval.find_glob Eval.find_key]; [reflexivity|].
  rewrite (glob_match_plain k' k Hw). cbn [Store.bind]. rewrite IH. cbn [Store.bind]. reflexivity.
Qed.

(* The exact-key branch of [trav_map] is the pattern branch: for a key without metacharacters, in a map
   without duplicate keys, matchKey-based traversal selects (or creates) exactly the entry with that key. *)
Theorem trav_map_one_definition ro k p es st :
  is_wild k = false -> (length (Eval.find_key es k 0) <= 1)%nat ->
  Eval.trav_map_pat ro k p es st = Eval.trav_map ro k p es st.
Proof.
  intros Hw Hu. unfold Eval.trav_map, Eval.trav_map_pat. rewrite Hw, (find_glob_plain es k Hw). cbn [Store.bind].
  destruct (Eval.find_key es k 0) as [|i [|j r]]; try reflexivity. cbn in Hu. lia.
Qed.
