(* Proofs/EvalRO.v — C08: evaluating an assignment-free expression in a
   read-only context only *allocates*: the resulting store is the old store
   with new roots appended, so every pre-existing node keeps every field. *)
From YQ Require Import Base.Str Model.Node Model.Store Model.Eval.
From Coq Require Import ZArith.

Definition ext (st st' : store) : Prop := exists x, st' = st ++ x.

Lemma ext_refl st : ext st st.
Proof. exists []. rewrite app_nil_r. reflexivity. Qed.

Lemma ext_trans a b c : ext a b -> ext b c -> ext a c.
Proof. intros [x ->] [y ->]. exists (x ++ y). rewrite app_assoc. reflexivity. Qed.

Lemma ext_alloc st r : ext st (snd (alloc st r)).
Proof. exists [r]. reflexivity. Qed.

Definition ext_res {A} (st : store) (r : res (A * store)) : Prop :=
  match r with Ok o => ext st (snd o) | _ => True end.

Lemma ext_bind {A B} st (m : res (A * store)) (k : A * store -> res (B * store)) :
  ext_res st m -> (forall a, ext st (snd a) -> ext_res (snd a) (k a)) -> ext_res st (bind m k).
Proof.
  destruct m as [a| | | |]; cbn; auto. intros H Hk. specialize (Hk a H).
  destruct (k a) as [b| | | |]; cbn in *; auto. eapply ext_trans; eassumption.
Qed.

Lemma ext_bind_pure {A B} st (m : res A) (k : A -> res (B * store)) :
  (forall a, ext_res st (k a)) -> ext_res st (bind m k).
Proof. destruct m; cbn; auto. Qed.

Lemma ext_res_weaken {A} st st' (r : res (A * store)) : ext st st' -> ext_res st' r -> ext_res st r.
Proof. destruct r; cbn; auto. intros. eapply ext_trans; eassumption. Qed.

Lemma ext_one st ps : ext st (snd ps) -> ext_res st (one ps).
Proof. cbn. auto. Qed.

Lemma ext_alloc_repl st src body : ext_res st (one (alloc_repl st src body)).
Proof. apply ext_one. apply ext_alloc. Qed.

Lemma ext_alloc_fresh st body : ext_res st (one (alloc_fresh st body)).
Proof. apply ext_one. apply ext_alloc. Qed.

Lemma ext_mk_bool st o b : ext_res st (mk_bool st o b).
Proof. destruct o; [apply ext_alloc_repl | apply ext_alloc_fresh]. Qed.

Lemma each_ext {A} (f : A -> store -> res out) l :
  (forall x st, In x l -> ext_res st (f x st)) -> forall st, ext_res st (each f l st).
Proof.
  induction l as [|x l IH]; intros Hf st; cbn [each].
  - cbn. apply ext_refl.
  - apply ext_bind; [apply Hf; left; reflexivity|]. intros o1 H1.
    apply ext_bind; [apply IH; intros; apply Hf; right; assumption|]. intros o2 H2.
    cbn. apply ext_refl.
Qed.

Lemma iter_ext {A} (step : ptr -> A -> store -> res (A * store)) l :
  (forall p a st, ext_res st (step p a st)) -> forall a st, ext_res st (Eval.iter step l a st).
Proof.
  induction l as [|p l IH]; intros Hs a st; cbn [Eval.iter].
  - cbn. apply ext_refl.
  - apply ext_bind; [apply Hs|]. intros o H. apply IH. assumption.
Qed.

(* ---------- traversal in a read-only context ---------- *)
Lemma trav_map_ro k p es st : ext_res st (trav_map true k p es st).
Proof.
  unfold trav_map. destruct (is_wild k).
  - unfold trav_map_pat. apply ext_bind_pure. intros [|i idxs]; cbn; apply ext_refl.
  - destruct (find_key es k 0); cbn; apply ext_refl.
Qed.

Lemma trav_index_ro p items idx st : ext_res st (trav_index true p items idx st).
Proof.
  unfold trav_index. destruct (Z.of_nat (length items) <=? idx)%Z.
  - apply ext_one. apply ext_alloc.
  - destruct (_ <? 0)%Z; cbn; [exact I | apply ext_refl].
Qed.

Lemma trav_key_ro k p st : ext_res st (trav_key true k p st).
Proof.
  unfold trav_key. apply ext_bind_pure. intros [t v|items|es].
  - destruct t; cbn; apply ext_refl.
  - apply ext_bind_pure. intros z. apply trav_index_ro.
  - apply trav_map_ro.
Qed.

Lemma trav_indices_ro idx p st : ext_res st (trav_indices true idx p st).
Proof.
  unfold trav_indices. apply ext_bind_pure. intros n0.
  set (pr := match n0 with Scalar TNull _ => _ | _ => _ end).
  assert (Hpr : snd pr = st).
  { subst pr. destruct n0 as [[] ?| |]; reflexivity. }
  destruct pr as [n st']. cbn in Hpr. subst st'.
  destruct n as [t v|items|es].
  - cbn. apply ext_refl.
  - destruct idx; [cbn; apply ext_refl|].
    apply each_ext. intros ix st1 _. cbn [bind].
    destruct ix as [t v| |]; try exact I. apply ext_bind_pure. intros z. apply trav_index_ro.
  - destruct idx; [cbn; apply ext_refl|].
    apply each_ext. intros ix st1 _. cbn [bind].
    destruct ix as [[] v| |]; try exact I. apply trav_map_ro.
Qed.

(* ---------- calculations of binary operators only allocate ---------- *)
Lemma ext_ok {A} st (x : A) : ext_res st (Ok (x, st)).
Proof. cbn. apply ext_refl. Qed.

Ltac ext_auto :=
  repeat first
    [ exact I
    | apply ext_ok
    | apply ext_alloc_repl | apply ext_alloc_fresh | apply ext_mk_bool
    | apply ext_bind_pure; intros
    | match goal with |- ext_res _ (match ?x with _ => _ end) => destruct x end
    | match goal with |- ext_res _ (if ?x then _ else _) => destruct x end
    | match goal with |- ext_res _ (let '(_, _) := ?x in _) => destruct x end ].

Lemma add_nodes_ext st l r : ext_res st (add_nodes st l r).
Proof. unfold add_nodes. ext_auto. Qed.
Lemma sub_nodes_ext st l r : ext_res st (lift2 sub_nodes st l r).
Proof. unfold lift2, sub_nodes. ext_auto. Qed.
Lemma mul_nodes_ext fl st l r : ext_res st (lift2 (mul_nodes fl) st l r).
Proof. unfold lift2, mul_nodes. ext_auto. Qed.
Lemma mod_nodes_ext st l r : ext_res st (lift2 mod_nodes st l r).
Proof. unfold lift2, mod_nodes. ext_auto. Qed.
Lemma eq_nodes_ext flip st l r : ext_res st (eq_nodes flip st l r).
Proof. unfold eq_nodes. ext_auto. Qed.
Lemma cmp_nodes_ext a b st l r : ext_res st (cmp_nodes a b st l r).
Proof. unfold cmp_nodes. ext_auto. Qed.

Definition short_ok (short : store -> option ptr -> res (option out)) : Prop :=
  forall st l, match short st l with Ok (Some o) => ext st (snd o) | _ => True end.

Lemma no_short_ok : short_ok no_short.
Proof. intros st l. exact I. Qed.

Lemma bool_short_ok target : short_ok (bool_short target).
Proof.
  intros st l. unfold bool_short.
  destruct (truthy_ptr st l) as [b| | | |]; cbn [bind]; try exact I.
  destruct (Bool.eqb b target); [|exact I].
  pose proof (ext_mk_bool st l target) as H.
  destruct (mk_bool st l target) as [ob| | | |]; cbn [bind]; try exact I. exact H.
Qed.

Lemma bool_calc_ext st l r : ext_res st (bool_calc st l r).
Proof. unfold bool_calc. apply ext_bind_pure. intros. apply ext_mk_bool. Qed.

Lemma alt_short_ok : short_ok alt_short.
Proof.
  intros st l. unfold alt_short.
  destruct (truthy_ptr st l) as [b| | | |]; cbn [bind]; try exact I.
  destruct l; [|exact I]. destruct b; [|exact I]. apply ext_refl.
Qed.

Lemma alt_calc_ext st l r : ext_res st (alt_calc st l r).
Proof. unfold alt_calc. destruct l, r; try apply ext_ok. apply ext_bind_pure. intros. apply ext_ok. Qed.

Lemma contains_calc_ext st l r : ext_res st (lift2 contains_calc st l r).
Proof. unfold lift2, contains_calc. ext_auto. Qed.

Definition short_ok_marker := tt.

Section CrossExt0.
End CrossExt0.
Section CrossExt.
  Variable ev : expr -> bool -> vars -> list ptr -> store -> res out.
  Variables lhs rhs : expr.
  Variable ro : bool.
  Hypothesis Hl : forall vs ctx st, ext_res st (ev lhs ro vs ctx st).
  Hypothesis Hr : forall vs ctx st, ext_res st (ev rhs ro vs ctx st).
  Variable short : store -> option ptr -> res (option out).
  Variable calc : cross_calc.
  Hypothesis Hs : short_ok short.
  Hypothesis Hc : forall st l r, ext_res st (calc st l r).

  Lemma results_for_rhs_ext cwe vs ctx l st :
    ext_res st (results_for_rhs ev cwe short calc rhs ro vs ctx l st).
  Proof.
    unfold results_for_rhs. specialize (Hs st l).
    destruct (short st l) as [[o|]| | | |]; cbn [bind]; try exact I.
    - exact Hs.
    - apply ext_bind; [apply Hr|]. intros o Ho.
      destruct (fst o); [destruct cwe; [apply Hc | apply ext_ok]|].
      apply each_ext. intros. apply Hc.
  Qed.

  Lemma cross1_ext cwe vs cx st : ext_res st (cross1 ev cwe short calc lhs rhs ro vs cx st).
  Proof.
    unfold cross1. apply ext_bind; [apply Hl|]. intros ol Hol.
    apply ext_bind.
    - destruct (fst ol); [destruct cwe; [apply results_for_rhs_ext | apply ext_ok] | apply ext_ok].
    - intros o0 H0. apply ext_bind; [apply each_ext; intros; apply results_for_rhs_ext|].
      intros o1 H1. apply ext_ok.
  Qed.

  Lemma cross_ext cwe vs ctx st : ext_res st (cross ev cwe short calc lhs rhs ro vs ctx st).
  Proof.
    unfold cross. destruct ctx; [apply cross1_ext|].
    apply each_ext. intros. apply cross1_ext.
  Qed.
End CrossExt.

(* ---------- the main invariant ---------- *)
Fixpoint afree (e : expr) : bool :=
  match e with
  | EAssign _ _ | EUpdate _ _ | ECompound _ _ _ | EDel _ => false
  | ESelf | ELit _ _ | EKey _ | ERecurse | ENot | ELength | EKeys | EToEntries | EFromEntries
  | EReverse | EFlatten _ | EAny | EAll | EVar _ | EPath | EGetKey | EParent | EEmpty => true
  | EIndex l None => afree l
  | EIndex l (Some i) => afree l && afree i
  | ESlice l a b => afree l && afree a && afree b
  | EPipe l r | EUnion l r | EBin _ l r => afree l && afree r
  | ECollect None => true
  | ECollect (Some e1) => afree e1
  | ESelect e1 | EMap e1 | EFilter e1 | EHas e1 | EWithEntries e1 | EUniqueBy e1 | EGroupBy e1
  | EAnyC e1 | EAllC e1 | EJoin e1 | ESplit e1 | ESortBy e1 => afree e1
  | EAs src _ body => afree src && afree body
  | EReduce src _ init body => afree src && afree init && afree body
  | EObject es =>
      (fix all (l : list (expr * expr)) : bool :=
         match l with [] => true | (k, v) :: r => afree k && afree v && all r end) es
  end.

Lemma ret_ro_true e : ret_ro e true = true.
Proof.
  induction e; cbn [ret_ro]; try reflexivity; try assumption.
  - destruct o; reflexivity.
  - rewrite IHe2. assumption.
Qed.

Lemma pair_calc_ext st l r : ext_res st (lift2 pair_calc st l r).
Proof. unfold lift2, pair_calc. ext_auto. Qed.

Lemma obj_entries_ext ev ro vs c es :
  (forall ke ve, In (ke, ve) es ->
     (forall vs' ctx st, ext_res st (ev ke ro vs' ctx st)) /\ (forall vs' ctx st, ext_res st (ev ve ro vs' ctx st))) ->
  forall acc st, ext_res st (obj_entries ev ro vs c es acc st).
Proof.
  induction es as [|[ke ve] es IH]; intros H acc st; cbn [obj_entries]; [apply ext_ok|].
  destruct (H ke ve (or_introl eq_refl)) as [Hk Hv].
  apply ext_bind.
  - apply cross_ext; try assumption; [apply no_short_ok | intros; apply pair_calc_ext].
  - intros o Ho. apply ext_bind_pure. intros pairs. apply IH. intros k v Hin. apply H. right. assumption.
Qed.

Ltac split_afree H :=
  cbn [afree] in H;
  repeat match goal with
         | H' : (_ && _)%bool = true |- _ => apply andb_true_iff in H' as [? ?]
         end.

Ltac use_ih IH :=
  apply IH; first [ assumption | reflexivity
                  | cbn [afree]; repeat (apply andb_true_iff; split); (assumption || reflexivity) ].

Ltac go IH :=
  repeat first
    [ exact I | apply ext_ok | apply ext_alloc_repl | apply ext_alloc_fresh | apply ext_mk_bool
    | use_ih IH
    | apply trav_key_ro | apply trav_indices_ro
    | apply each_ext; intros
    | apply iter_ext; intros
    | apply ext_bind; [ | intros ]
    | apply ext_bind_pure; intros
    | match goal with |- ext_res _ (match ?x with _ => _ end) => destruct x end
    | match goal with |- ext_res _ (if ?x then _ else _) => destruct x end ].

Theorem eval_ro_ext : forall f e vs ctx st,
  afree e = true -> ext_res st (eval f e true vs ctx st).
Proof.
  induction f as [|f IH]; intros e vs ctx st Hf; [exact I|].
  destruct e; cbn [eval]; try discriminate Hf.
  - (* ESelf *) go IH.
  - (* ELit *) go IH.
  - (* EKey *) go IH.
  - (* EIndex *)
    match goal with |- ext_res _ (if ?b then _ else _) => destruct b; [exact I|] end.
    rewrite ret_ro_true.
    assert (Hl : afree e = true) by (destruct idx; split_afree Hf; assumption).
    assert (Hc : afree (ECollect idx) = true) by (destruct idx; split_afree Hf; cbn [afree]; (assumption || reflexivity)).
    go IH.
  - (* ESlice *) rewrite ret_ro_true. split_afree Hf. go IH.
  - (* ERecurse *) go IH.
  - (* EPipe *) split_afree Hf. go IH.
  - (* EUnion *) split_afree Hf. go IH.
  - (* ECollect *) destruct e as [e1|]; go IH.
  - (* EBin *)
    split_afree Hf.
    destruct o; apply cross_ext;
      try (intros; apply IH; assumption);
      try apply no_short_ok;
      try (intros; first [ apply add_nodes_ext | apply sub_nodes_ext | apply mul_nodes_ext | apply mod_nodes_ext
                         | apply eq_nodes_ext | apply cmp_nodes_ext | apply bool_calc_ext | apply alt_calc_ext
                         | apply contains_calc_ext ]);
      first [ apply bool_short_ok | apply alt_short_ok ].
  - (* ENot *) go IH.
  - (* ESelect *)
    apply each_ext. intros c st0 _. apply ext_bind; [use_ih IH|]. intros o Ho.
    apply ext_bind_pure. intros keep. apply ext_ok.
  - (* EMap *) go IH.
  - (* EFilter *) go IH.
  - (* ELength *) go IH.
  - (* EKeys *) go IH.
  - (* EHas *) go IH.
  - (* EToEntries *) go IH.
  - (* EFromEntries *) go IH.
  - (* EWithEntries *)
    cbn [afree] in Hf.
    apply each_ext. intros c st0 _. apply ext_bind_pure. intros n. apply ext_bind_pure. intros [items|]; [|apply ext_ok].
    destruct (alloc_repl st0 c (Seq items)) as [ep st1] eqn:Ha.
    assert (He : ext st0 st1).
    { unfold alloc_repl, alloc in Ha. injection Ha as <- <-. eexists. reflexivity. }
    eapply ext_res_weaken; [exact He|].
    apply ext_bind; [apply each_ext; intros it st2 _; apply IH; exact Hf|]. intros o Ho.
    apply ext_bind_pure. intros coll. apply ext_bind_pure. intros es.
    destruct (dup_keys es); [exact I | apply ext_alloc_fresh].
  - (* EReverse *) go IH.
  - (* EUniqueBy *) go IH.
  - (* EGroupBy *) go IH.
  - (* EFlatten *) go IH.
  - (* EAny *) go IH.
  - (* EAll *) go IH.
  - (* EAnyC *) go IH.
  - (* EAllC *) go IH.
  - (* EJoin *) go IH.
  - (* ESplit *) go IH.
  - (* EAs *)
    split_afree Hf.
    assert (Hbody : forall l ln vs' cx st1,
               ext_res st1 (let '(cp, st2) := alloc_repl st1 l ln in eval f e2 true ((x, [cp]) :: vs') cx st2)).
    { intros l ln vs' cx st1.
      destruct (alloc_repl st1 l ln) as [cp st2] eqn:Ha.
      assert (He : ext st1 st2).
      { unfold alloc_repl, alloc in Ha. injection Ha as <- <-. eexists. reflexivity. }
      eapply ext_res_weaken; [exact He|]. use_ih IH. }
    destruct ctx; [|apply each_ext; intros c0 st0 _];
      (apply ext_bind; [use_ih IH|]; intros ol Hol;
       destruct (fst ol); [use_ih IH|];
       apply each_ext; intros l1 st1 _; apply ext_bind_pure; intros ln; apply Hbody).
  - (* EVar *) go IH.
  - (* EReduce *)
    split_afree Hf. rewrite ret_ro_true.
    apply ext_bind; [use_ih IH|]. intros oa Hoa.
    apply ext_bind; [use_ih IH|]. intros oi Hoi.
    apply iter_ext. intros. use_ih IH.
  - (* ESortBy *) go IH.
  - (* EPath *) go IH.
  - (* EGetKey *) go IH.
  - (* EParent *) go IH.
  - (* EObject *)
    destruct entries as [|e0 es0]; [apply ext_alloc_fresh|].
    destruct ctx; [exact I|]. cbn [negb andb].
    apply each_ext. intros c0 st0 _. apply ext_bind.
    + apply obj_entries_ext. intros ke ve Hin.
      assert (Hkv : afree ke = true /\ afree ve = true).
      { change (afree (EObject (e0 :: es0)) = true) in Hf. revert Hin Hf. generalize (e0 :: es0). intros l.
        induction l as [|[k1 v1] l IHl]; intros Hin Hf; [contradiction|]. cbn [afree] in Hf, IHl.
        apply andb_true_iff in Hf as [Hf1 Hf2]. apply andb_true_iff in Hf1 as [Hk1 Hv1].
        destruct Hin as [Heq|Hin]; [injection Heq as <- <-; split; assumption | apply IHl; assumption]. }
      destruct Hkv as [Hk Hv]. split; intros; apply IH; assumption.
    + intros r Hr. apply each_ext. intros. apply ext_alloc_fresh.
  - (* EEmpty *) go IH.
Qed.

(* ---------- corollaries in the shape the property is stated ---------- *)
Lemma ext_nth st st' i : ext st st' -> (i < length st)%nat -> nth_error st' i = nth_error st i.
Proof. intros [x ->] Hi. apply nth_error_app1. assumption. Qed.

Lemma ext_deref st st' p : ext st st' -> (fst p < length st)%nat -> deref st' p = deref st p.
Proof. intros He Hi. unfold deref. rewrite (ext_nth _ _ _ He Hi). reflexivity. Qed.

Theorem ro_store_monotone f e vs ctx st o :
  afree e = true -> eval f e true vs ctx st = Ok o -> exists x, snd o = st ++ x.
Proof. intros Ha He. pose proof (eval_ro_ext f e vs ctx st Ha) as H. rewrite He in H. exact H. Qed.

Theorem ro_old_nodes_unchanged f e vs ctx st o :
  afree e = true -> eval f e true vs ctx st = Ok o ->
  forall p, (fst p < length st)%nat -> deref (snd o) p = deref st p.
Proof. intros Ha He p Hp. apply ext_deref; [|assumption]. eapply ro_store_monotone; eassumption. Qed.

Lemma eval_self_pos g ro vs ctx st : g <> O -> eval g ESelf ro vs ctx st = Ok (ctx, st).
Proof. destruct g; [contradiction | reflexivity]. Qed.

(* `e as $x | .` on a document prints the document, once per result of e (or once if e has none) *)
Theorem as_prints_doc f e x doc o :
  afree e = true ->
  eval f (EAs e x ESelf) false [] [(O, [])] (init_store doc) = Ok o ->
  Forall (fun p => deref (snd o) p = Some doc) (fst o).
Proof.
  intros Ha. destruct f as [|g]; [discriminate|].
  destruct (Nat.eq_dec g O) as [->|Hg]; [cbn; discriminate|].
  cbn [eval each].
  match goal with
  | |- context [eval g e true ?a ?b ?c] =>
      pose proof (eval_ro_ext g e a b c Ha) as Hsrc;
      destruct (eval g e true a b c) as [ol| | | |]; cbn [bind]; try discriminate
  end.
  cbn [ext_res] in Hsrc.
  assert (Hdoc : forall st', ext (init_store doc) st' -> deref st' (O, []) = Some doc).
  { intros st' He. rewrite (ext_deref _ _ (O, []) He); [reflexivity | cbn; lia]. }
  destruct (fst ol) as [|l ls] eqn:Hl.
  - (* no result: the body runs once without the variable *)
    rewrite (eval_self_pos g) by assumption. cbn [bind fst snd app]. intros H. injection H as <-.
    cbn [fst snd]. constructor; [|constructor]. apply Hdoc. assumption.
  - (* one run of the body per result; the body is `.` *)
    assert (Hgen : forall (lst : list ptr) st1 o1,
              ext (init_store doc) st1 ->
              each (fun (l0 : ptr) (st2 : store) =>
                      let* ln := deref_r st2 l0 in
                      let '(cp, st3) := alloc_repl st2 l0 ln in
                      eval g ESelf false [(x, [cp])] [(O, [])] st3) lst st1 = Ok o1 ->
              ext (init_store doc) (snd o1) /\ Forall (fun p => p = (O, [])) (fst o1)).
    { induction lst as [|l0 lst IHl]; intros st1 o1 He1; cbn [each].
      - intros H. injection H as <-. split; [assumption | constructor].
      - destruct (deref_r st1 l0) as [ln| | | |]; cbn [bind]; try discriminate.
        destruct (alloc_repl st1 l0 ln) as [cp st3] eqn:Hal.
        assert (He3 : ext st1 st3).
        { unfold alloc_repl, alloc in Hal. injection Hal as <- <-. eexists. reflexivity. }
        rewrite (eval_self_pos g) by assumption. cbn [bind fst snd].
        destruct (each _ lst st3) as [o2| | | |] eqn:Hrest; cbn [bind]; try discriminate.
        intros H. injection H as <-. cbn [fst snd].
        destruct (IHl st3 o2 (ext_trans _ _ _ He1 He3) Hrest) as [Hx Hy].
        split; [assumption|]. constructor; [reflexivity | assumption]. }
    intros H.
    specialize (Hgen (l :: ls) (snd ol)). cbn [each] in Hgen.
    match type of H with
    | bind ?m _ = _ => destruct m as [o1| | | |] eqn:He; cbn [bind] in H; try discriminate
    end.
    injection H as <-. cbn [fst snd]. rewrite app_nil_r.
    destruct (Hgen _ Hsrc He) as [Hx Hy].
    rewrite Forall_forall in *. intros p Hp. rewrite (Hy p Hp). apply Hdoc. assumption.
Qed.

(* select(e) passes exactly context nodes through, each reading as before *)
Theorem select_passes_unmodified f e ro vs ctx st o :
  afree e = true -> eval f (ESelect e) ro vs ctx st = Ok o ->
  incl (fst o) ctx /\ forall p, (fst p < length st)%nat -> deref (snd o) p = deref st p.
Proof.
  intros Ha. destruct f as [|f]; [discriminate|]. cbn [eval].
  revert st o. induction ctx as [|c ctx IHc]; intros st o; cbn [each].
  - intros H. injection H as <-. split; [apply incl_refl | reflexivity].
  - pose proof (eval_ro_ext f e vs [c] st Ha) as Hs.
    destruct (eval f e true vs [c] st) as [oe| | | |]; cbn [bind]; try discriminate. cbn [ext_res] in Hs.
    destruct (any_truthy (snd oe) (fst oe)) as [keep| | | |]; cbn [bind]; try discriminate.
    cbn [fst snd].
    destruct (each _ ctx (snd oe)) as [o2| | | |] eqn:Hrest; cbn [bind]; try discriminate.
    intros H. injection H as <-. cbn [fst snd].
    destruct (IHc _ _ Hrest) as [Hin Hd]. split.
    + destruct keep; cbn [app]; intros q Hq.
      * destruct Hq as [<-|Hq]; [left; reflexivity | right; apply Hin; assumption].
      * right. apply Hin. assumption.
    + intros p Hp. rewrite Hd.
      * apply ext_deref; assumption.
      * destruct Hs as [y ->]. rewrite app_length. lia.
Qed.
