(* Proofs/CliProofs.v -- lemmas about Model/Cli.v against Spec/CliSpec.v. *)
From Coq Require Import List NArith Bool Arith Lia.
From YQ Require Import Base.Str Gen.Formats Model.Cli Spec.CliSpec.
Import ListNotations.

Definition enc_nil (fl : N -> bool) (fid : N) (nul : bool) (r : result) : bool :=
  match enc_class fid nul (r_node r) with EncErr => false | EncOk _ => fl (r_id r) end.
Definition enc_full (fid : N) (nul : bool) (r : result) : bool :=
  match enc_class fid nul (r_node r) with EncOk true => true | _ => false end.
Definition matched (rs : list result) : bool := existsb (fun r => counts_as_match (r_node r)) rs.

Definition padd (fid : N) (nul : bool) (p : pstate) (rs : list result) : pstate :=
  mkP (p_shown p ++ ids (List.filter (enc_full fid nul) rs)) (p_encoded p ++ ids rs) (p_matched p || matched rs).

Lemma padd_nil fid nul p : padd fid nul p [] = p.
Proof. destruct p. unfold padd. cbn. rewrite !app_nil_r, orb_false_r. reflexivity. Qed.

Lemma padd_app fid nul p a b : padd fid nul (padd fid nul p a) b = padd fid nul p (a ++ b).
Proof.
  unfold padd, matched, ids. cbn. rewrite filter_app, !map_app, existsb_app, !app_assoc, orb_assoc. reflexivity.
Qed.

(* PrintResults *)
Lemma print_results_spec fl fid nul : forall rs p,
  if forallb (enc_nil fl fid nul) rs
  then print_results fl fid nul rs p = (padd fid nul p rs, true)
  else snd (print_results fl fid nul rs p) = false.
Proof.
  induction rs as [|r rs IH]; intro p.
  - cbn. rewrite padd_nil. reflexivity.
  - cbn [forallb print_results]. unfold enc_nil at 1.
    destruct (enc_class fid nul (r_node r)) as [c|] eqn:E; cbn [andb]; [|reflexivity].
    destruct (fl (r_id r)); cbn [andb]; [|reflexivity].
    specialize (IH (mkP (if c then p_shown p ++ [r_id r] else p_shown p) (p_encoded p ++ [r_id r])
                        (p_matched p || counts_as_match (r_node r)))).
    destruct (forallb (enc_nil fl fid nul) rs); [|exact IH].
    rewrite IH. f_equal. unfold padd, matched, ids. cbn [filter map existsb p_shown p_encoded p_matched].
    unfold enc_full at 2. rewrite E.
    destruct c; cbn [map]; rewrite <- ?app_assoc, ?orb_assoc; reflexivity.
Qed.

Lemma print_eval_spec fl fid nul e p :
  match eval_results e with
  | Some rs => if forallb (enc_nil fl fid nul) rs then print_eval fl fid nul e p = (padd fid nul p rs, true)
               else snd (print_eval fl fid nul e p) = false
  | None => snd (print_eval fl fid nul e p) = false
  end.
Proof. destruct e as [|rs]; cbn; [reflexivity | apply print_results_spec]. Qed.

(* Evaluate: the documents of one file *)
Definition ok3 {A B} (x : A * bool * B) : bool := snd (fst x).

Lemma eval_docs_spec fl fid nul : forall ds p count,
  match docs_results ds with
  | Some rs => if forallb (enc_nil fl fid nul) rs
               then eval_docs fl fid nul ds p count = (padd fid nul p rs, true, (count + length ds)%nat)
               else ok3 (eval_docs fl fid nul ds p count) = false
  | None => ok3 (eval_docs fl fid nul ds p count) = false
  end.
Proof.
  induction ds as [|d ds IH]; intros p count.
  - cbn. rewrite padd_nil, Nat.add_0_r. reflexivity.
  - destruct d as [|[|rs]]; cbn [docs_results eval_docs print_eval]; try reflexivity.
    pose proof (print_results_spec fl fid nul rs p) as Hp.
    destruct (forallb (enc_nil fl fid nul) rs) eqn:Ers.
    + rewrite Hp. specialize (IH (padd fid nul p rs) (S count)).
      destruct (docs_results ds) as [rs'|]; cbn [option_map].
      * rewrite forallb_app, Ers. cbn [andb].
        destruct (forallb (enc_nil fl fid nul) rs'); [|exact IH].
        rewrite IH, padd_app. f_equal. cbn [length]. lia.
      * exact IH.
    + assert (Hbad : ok3 (let '(p', ok) := print_results fl fid nul rs p in
                          if ok then eval_docs fl fid nul ds p' (S count) else (p', false, count)) = false).
      { destruct (print_results fl fid nul rs p) as [p' ok]. cbn in Hp. subst ok. reflexivity. }
      destruct (docs_results ds) as [rs'|]; cbn [option_map]; [|exact Hbad].
      rewrite forallb_app, Ers. exact Hbad.
Qed.

Lemma eval_files_spec w fid nul : forall names p count,
  match files_results w names with
  | Some (rs, n) => if forallb (enc_nil (w_flush_ok w) fid nul) rs
                    then eval_files w fid nul names p count = (padd fid nul p rs, true, (count + n)%nat)
                    else ok3 (eval_files w fid nul names p count) = false
  | None => ok3 (eval_files w fid nul names p count) = false
  end.
Proof.
  induction names as [|f fs IH]; intros p count.
  - cbn. rewrite padd_nil, Nat.add_0_r. reflexivity.
  - cbn [files_results eval_files]. destruct (w_fs w f) as [|ds]; [reflexivity|].
    pose proof (eval_docs_spec (w_flush_ok w) fid nul ds p count) as Hd.
    destruct (docs_results ds) as [rs|].
    + destruct (forallb (enc_nil (w_flush_ok w) fid nul) rs) eqn:Ers.
      * rewrite Hd. specialize (IH (padd fid nul p rs) (count + length ds)%nat).
        destruct (files_results w fs) as [[rs' n]|].
        -- rewrite forallb_app, Ers. cbn [andb].
           destruct (forallb (enc_nil (w_flush_ok w) fid nul) rs'); [|exact IH].
           rewrite IH, padd_app. f_equal. lia.
        -- exact IH.
      * assert (Hbad : ok3 (let '(p', ok, count') := eval_docs (w_flush_ok w) fid nul ds p count in
                            if ok then eval_files w fid nul fs p' count' else (p', false, count')) = false).
        { destruct (eval_docs (w_flush_ok w) fid nul ds p count) as [[p' ok] c']. cbn in Hd. subst ok. reflexivity. }
        destruct (files_results w fs) as [[rs' n]|]; [|exact Hbad].
        rewrite forallb_app, Ers. exact Hbad.
    + assert (Hbad : ok3 (let '(p', ok, count') := eval_docs (w_flush_ok w) fid nul ds p count in
                          if ok then eval_files w fid nul fs p' count' else (p', false, count')) = false).
      { destruct (eval_docs (w_flush_ok w) fid nul ds p count) as [[p' ok] c']. cbn in Hd. subst ok. reflexivity. }
      exact Hbad.
Qed.

Lemma p0_padd fid nul rs :
  padd fid nul p0 rs = mkP (shown_ids fid nul rs) (ids rs) (matched rs).
Proof. reflexivity. Qed.

Definition run_fine (fl : N -> bool) (fid : N) (nul : bool) (x : pstate * bool) (exp : option (list result)) : Prop :=
  match exp with
  | Some rs => if forallb (enc_nil fl fid nul) rs
               then x = (mkP (shown_ids fid nul rs) (ids rs) (matched rs), true)
               else snd x = false
  | None => snd x = false
  end.

Lemma stream_run_spec w fid nul names :
  run_fine (w_flush_ok w) fid nul (stream_run w fid nul names) (stream_expected w names).
Proof.
  unfold run_fine, stream_run, stream_expected.
  destruct (w_expr_ok w); cbn [negb]; [|reflexivity].
  pose proof (eval_files_spec w fid nul names p0 O) as Hf.
  destruct (files_results w names) as [[rs n]|].
  - destruct (forallb (enc_nil (w_flush_ok w) fid nul) rs) eqn:Ers.
    + rewrite Hf. cbn [negb Nat.add].
      destruct n as [|n].
      * pose proof (print_eval_spec (w_flush_ok w) fid nul (w_null_out w) (padd fid nul p0 rs)) as Hn.
        destruct (eval_results (w_null_out w)) as [rs'|]; cbn [option_map]; [|exact Hn].
        rewrite forallb_app, Ers. cbn [andb].
        destruct (forallb (enc_nil (w_flush_ok w) fid nul) rs'); [|exact Hn].
        rewrite Hn, padd_app. reflexivity.
      * rewrite Ers. reflexivity.
    + assert (Hbad : snd (let '(p, ok, count) := eval_files w fid nul names p0 0 in
                          if negb ok then (p, false)
                          else match count with O => print_eval (w_flush_ok w) fid nul (w_null_out w) p | S _ => (p, true) end) = false).
      { destruct (eval_files w fid nul names p0 0) as [[p ok] c]. cbn in Hf. subst ok. reflexivity. }
      destruct n as [|n].
      * destruct (eval_results (w_null_out w)) as [rs'|]; cbn [option_map]; [|exact Hbad].
        rewrite forallb_app, Ers. exact Hbad.
      * rewrite Ers. exact Hbad.
  - destruct (eval_files w fid nul names p0 0) as [[p ok] c]. cbn in Hf. subst ok. reflexivity.
Qed.

Lemma read_all_count w : forall names c,
  read_all w names c = option_map (fun n => (c + n)%nat) (all_count w names).
Proof.
  induction names as [|f fs IH]; intro c.
  - cbn. rewrite Nat.add_0_r. reflexivity.
  - cbn [read_all all_count]. destruct (w_fs w f) as [|ds]; [reflexivity|].
    destruct (all_docs_ok ds).
    + rewrite IH. destruct (all_count w fs) as [n|]; cbn; [f_equal; lia | reflexivity].
    + destruct (all_count w fs); reflexivity.
Qed.

Lemma all_run_spec w fid nul names :
  run_fine (w_flush_ok w) fid nul (all_run w fid nul names) (all_expected w names).
Proof.
  unfold run_fine, all_run, all_expected. rewrite read_all_count.
  destruct (w_expr_ok w); cbn [negb].
  - destruct (all_count w names) as [n|]; cbn [option_map]; [|reflexivity].
    cbn [Nat.add].
    pose proof (print_eval_spec (w_flush_ok w) fid nul (match n with O => w_null_out w | S _ => w_all_out w end) p0) as Hn.
    destruct n; exact Hn.
  - destruct (all_count w names); reflexivity.
Qed.

Lemma new_run_spec w fid nul : run_fine (w_flush_ok w) fid nul (new_run w fid nul) (new_expected w).
Proof.
  unfold run_fine, new_run, new_expected. destruct (w_expr_ok w); cbn [negb]; [|reflexivity].
  apply print_eval_spec.
Qed.

(* ------------------------------------------------------------------ *)
(* the command *)
Definition complete_run (c : cli) (w : world) : Prop :=
  exists fid rs, usable_formats c = Some fid /\ expected c w = Some rs
    /\ all_encoded (w_flush_ok w) fid (c_nul c) rs = true
    /\ (c_exit_status c = true -> matched rs = true).

Lemma all_encoded_eq fl fid nul rs : all_encoded fl fid nul rs = forallb (enc_nil fl fid nul) rs.
Proof. reflexivity. Qed.

Lemma run_cases c w :
  has_input c = true ->
  match usable_formats c with
  | None => o_exit (run c w) <> 0%N /\ o_stderr (run c w) = true
  | Some fid =>
      match expected c w with
      | None => o_exit (run c w) = 1%N /\ o_stderr (run c w) = true
      | Some rs =>
          if all_encoded (w_flush_ok w) fid (c_nul c) rs
          then if c_exit_status c && negb (matched rs)
               then run c w = mkOut 1 (shown_ids fid (c_nul c) rs) (ids rs) true false
               else run c w = mkOut 0 (shown_ids fid (c_nul c) rs) (ids rs) false false
          else o_exit (run c w) = 1%N /\ o_stderr (run c w) = true
      end
  end.
Proof.
  intro Hin. unfold usable_formats, expected, usable_formats, run.
  destruct (init_command c) as [|inF outF u]; [split; [discriminate | reflexivity]|].
  destruct (format_from_string outF) as [fo|]; [|split; [discriminate | reflexivity]].
  destruct (format_from_string inF) as [fi|].
  2:{ destruct (fmt_has_encoder fo); cbn; split; try discriminate; reflexivity. }
  destruct (fmt_has_encoder fo); cbn [negb andb]; [|split; [discriminate | reflexivity]].
  destruct (fmt_has_decoder fi); cbn [negb]; [|split; [discriminate | reflexivity]].
  unfold has_input in Hin. apply negb_true_iff in Hin. rewrite Hin.
  set (x := if c_null c then new_run w (fmt_id fo) (c_nul c)
            else if c_all c then all_run w (fmt_id fo) (c_nul c) (c_files c)
            else stream_run w (fmt_id fo) (c_nul c) (c_files c)).
  set (e := if c_null c then new_expected w
            else if c_all c then all_expected w (c_files c) else stream_expected w (c_files c)).
  assert (Hx : run_fine (w_flush_ok w) (fmt_id fo) (c_nul c) x e).
  { subst x e. destruct (c_null c); [apply new_run_spec|].
    destruct (c_all c); [apply all_run_spec | apply stream_run_spec]. }
  unfold run_fine in Hx. fold e. destruct e as [rs|].
  - rewrite all_encoded_eq. destruct (forallb (enc_nil (w_flush_ok w) (fmt_id fo) (c_nul c)) rs).
    + rewrite Hx. cbn [negb p_matched p_shown p_encoded].
      destruct (c_exit_status c && negb (matched rs)); reflexivity.
    + destruct x as [p ok]. cbn in Hx. subst ok. cbn. split; reflexivity.
  - destruct x as [p ok]. cbn in Hx. subst ok. cbn. split; reflexivity.
Qed.

Lemma andb_negb_false a b : a && negb b = false <-> (a = true -> b = true).
Proof. destruct a, b; cbn; split; intros; try reflexivity; try discriminate; auto. discriminate (H eq_refl). Qed.

Theorem exit0_iff_complete c w :
  has_input c = true -> (o_exit (run c w) = 0%N <-> complete_run c w).
Proof.
  intro Hin. pose proof (run_cases c w Hin) as H. unfold complete_run.
  destruct (usable_formats c) as [fid|].
  2:{ split; [intro E; exfalso; exact (proj1 H E) | intros (f & rs & E & _); discriminate E]. }
  destruct (expected c w) as [rs|].
  2:{ split; [intro E; rewrite (proj1 H) in E; discriminate E | intros (f & rs & _ & E & _); discriminate E]. }
  destruct (all_encoded (w_flush_ok w) fid (c_nul c) rs) eqn:Eenc.
  - destruct (c_exit_status c && negb (matched rs)) eqn:Ee; rewrite H; cbn [o_exit].
    + split; [discriminate|]. intros (f & rs' & Ef & Er & _ & Hm). injection Er as <-.
      apply andb_true_iff in Ee as [E1 E2]. rewrite (Hm E1) in E2. discriminate E2.
    + split; [|reflexivity]. intros _. exists fid, rs. repeat split; try reflexivity; try assumption.
      apply andb_negb_false. exact Ee.
  - split; [intro E; rewrite (proj1 H) in E; discriminate E|].
    intros (f & rs' & Ef & Er & Henc & _). injection Ef as <-. injection Er as <-. rewrite Henc in Eenc. discriminate Eenc.
Qed.

Theorem exit0_output c w fid rs :
  has_input c = true -> o_exit (run c w) = 0%N ->
  usable_formats c = Some fid -> expected c w = Some rs ->
  o_encoded (run c w) = ids rs /\ o_shown (run c w) = shown_ids fid (c_nul c) rs
  /\ (all_complete fid (c_nul c) rs = true -> o_shown (run c w) = ids rs).
Proof.
  intros Hin E Ef Er. pose proof (run_cases c w Hin) as H. rewrite Ef, Er in H.
  destruct (all_encoded (w_flush_ok w) fid (c_nul c) rs); [|rewrite (proj1 H) in E; discriminate E].
  assert (Hfull : all_complete fid (c_nul c) rs = true -> shown_ids fid (c_nul c) rs = ids rs).
  { unfold all_complete, shown_ids. intro Hc. f_equal. clear -Hc.
    induction rs as [|r rs IH]; [reflexivity|]. cbn in *. apply andb_true_iff in Hc as [H1 H2].
    rewrite H1. f_equal. exact (IH H2). }
  destruct (c_exit_status c && negb (matched rs)); rewrite H in *; cbn in *; try discriminate E.
  repeat split; try reflexivity. exact Hfull.
Qed.

Theorem stderr_iff_failure c w :
  has_input c = true -> (o_stderr (run c w) = true <-> o_exit (run c w) <> 0%N).
Proof.
  intro Hin. pose proof (run_cases c w Hin) as H.
  destruct (usable_formats c) as [fid|]; [|split; intros _; apply H].
  destruct (expected c w) as [rs|].
  2:{ destruct H as [H1 H2]. rewrite H1, H2. split; [discriminate | reflexivity]. }
  destruct (all_encoded (w_flush_ok w) fid (c_nul c) rs).
  - destruct (c_exit_status c && negb (matched rs)); rewrite H; cbn; split; try discriminate; try reflexivity.
    intro X. exfalso. apply X. reflexivity.
  - destruct H as [H1 H2]. rewrite H1, H2. split; [discriminate | reflexivity].
Qed.

(* -e *)
Theorem e_flag c w fid rs :
  has_input c = true -> c_exit_status c = true ->
  usable_formats c = Some fid -> expected c w = Some rs -> all_encoded (w_flush_ok w) fid (c_nul c) rs = true ->
  (o_exit (run c w) = 1%N <-> Forall (fun r => not_a_match (r_node r) = true) rs).
Proof.
  intros Hin He Ef Er Henc. pose proof (run_cases c w Hin) as H. rewrite Ef, Er, Henc, He in H. cbn [andb] in H.
  assert (Hm : negb (matched rs) = true <-> Forall (fun r => not_a_match (r_node r) = true) rs).
  { unfold matched, not_a_match. clear. induction rs as [|r rs IH]; cbn.
    - split; [constructor | reflexivity].
    - rewrite negb_orb, andb_true_iff, IH. split.
      + intros [H1 H2]. constructor; assumption.
      + intro HF. inversion HF; subst. split; assumption. }
  destruct (negb (matched rs)) eqn:E; rewrite H; cbn [o_exit].
  - split; [intros _; apply Hm; reflexivity | reflexivity].
  - split; [discriminate|]. intro HF. apply Hm in HF. discriminate HF.
Qed.

(* -n *)
Theorem n_reads_nothing c w1 w2 :
  c_null c = true -> w_expr_ok w1 = w_expr_ok w2 -> w_null_out w1 = w_null_out w2 ->
  w_flush_ok w1 = w_flush_ok w2 ->
  run c w1 = run c w2.
Proof.
  intros Hn He Ho Hf. unfold run, new_run. rewrite Hn, He, Ho, Hf.
  destruct (init_command c); [reflexivity|].
  destruct (format_from_string outFmt); [|reflexivity].
  destruct (fmt_has_encoder f); [|reflexivity]. cbn [negb].
  destruct (format_from_string inFmt); [|reflexivity].
  destruct (fmt_has_decoder f0); reflexivity.
Qed.

Theorem n_rejects_files c w : c_null c = true -> c_files c <> [] -> o_exit (run c w) = 1%N.
Proof.
  intros Hn Hf. unfold run, init_command. rewrite Hn.
  destruct (c_files c) as [|f fs]; [contradiction|]. cbn [negb andb orb].
  destruct (c_inplace c && _); [reflexivity|]. destruct (c_fm c && false); [reflexivity|].
  destruct (c_inplace c && c_split c); reflexivity.
Qed.

(* automatic formats *)
Definition auto_format (c : cli) : str :=
  let f := format_string_from_filename (first_file c) in
  match format_from_string f with Some _ => f | None => yaml_name end.

Theorem auto_format_first_file c i o u :
  is_auto (c_p c) = true -> is_auto (c_o c) = true -> c_tojson c = false ->
  init_command c = InitOk i o u -> i = auto_format c /\ o = auto_format c.
Proof.
  unfold init_command, auto_format. intros Hp Ho Hj. rewrite Hp, Hj, Ho.
  destruct (c_inplace c && _); [discriminate|]. destruct (c_fm c && _); [discriminate|].
  destruct (c_inplace c && c_split c); [discriminate|]. destruct (c_null c && _); [discriminate|].
  destruct (format_from_string (format_string_from_filename (first_file c))).
  - destruct (format_from_string _); [|discriminate]. intro E. injection E as <- <- _. split; reflexivity.
  - destruct (format_from_string yaml_name); [|discriminate]. intro E. injection E as <- <- _. split; reflexivity.
Qed.

(* every name of the regenerated table resolves to the format that lists it *)
Definition table_consistent : bool :=
  forallb (fun f => forallb (fun n => match n with
                                      | [] => true
                                      | _ => match format_from_string n with
                                             | Some g => fmt_id g =? fmt_id f
                                             | None => false end
                                      end) (fmt_formal f :: fmt_names f)) formats.

Lemma table_consistent_true : table_consistent = true.
Proof. vm_compute. reflexivity. Qed.

Theorem names_resolve f n :
  In f formats -> In n (fmt_formal f :: fmt_names f) -> n <> [] ->
  exists g, format_from_string n = Some g /\ fmt_id g = fmt_id f.
Proof.
  intros Hf Hn Hne. pose proof table_consistent_true as H. unfold table_consistent in H.
  rewrite forallb_forall in H. specialize (H f Hf). rewrite forallb_forall in H. specialize (H n Hn).
  destruct n as [|c n]; [contradiction|].
  destruct (format_from_string (c :: n)) as [g|]; [|discriminate H].
  exists g. split; [reflexivity | apply N.eqb_eq; exact H].
Qed.

(* csv / tsv: a header that cannot be written is an error, never an empty success *)
Lemma csv_header_error nul l rest :
  csv_row_ok (map_keys (NMap l)) = false ->
  enc_class id_CSVFormat nul (NSeq (NMap l :: rest)) = EncErr /\
  enc_class id_TSVFormat nul (NSeq (NMap l :: rest)) = EncErr.
Proof.
  intro H. unfold enc_class. cbn [N.eqb Pos.eqb id_CSVFormat id_TSVFormat orb].
  unfold csv_class. rewrite H. cbn [negb]. split; reflexivity.
Qed.

Lemma nul_same_class fid n : enc_class fid true n = enc_class fid false n.
Proof. reflexivity. Qed.

(* the implemented -e rule is the documented one on well-spelled booleans *)
Lemma e_rule_agrees n : bool_well_spelled n = true -> not_a_match n = null_or_false n.
Proof.
  destruct n as [t v| |]; try reflexivity. destruct t; try reflexivity.
  unfold bool_well_spelled, not_a_match, null_or_false, counts_as_match, yaml_false, yaml_true.
  intro H. repeat (apply orb_true_iff in H as [H|H]); try (apply str_eqb_eq in H; subst v; vm_compute; reflexivity).
Qed.

Theorem e_flag_documented c w fid rs :
  has_input c = true -> c_exit_status c = true ->
  usable_formats c = Some fid -> expected c w = Some rs -> all_encoded (w_flush_ok w) fid (c_nul c) rs = true ->
  Forall (fun r => bool_well_spelled (r_node r) = true) rs ->
  (o_exit (run c w) = 1%N <-> Forall (fun r => null_or_false (r_node r) = true) rs).
Proof.
  intros Hin He Ef Er Henc Hw. rewrite (e_flag c w fid rs Hin He Ef Er Henc).
  rewrite !Forall_forall in *. split; intros H r Hr; specialize (H r Hr); specialize (Hw r Hr).
  - rewrite <- (e_rule_agrees _ Hw). exact H.
  - rewrite (e_rule_agrees _ Hw). exact H.
Qed.

Theorem failed_write_fails c w fid rs r :
  has_input c = true -> usable_formats c = Some fid -> expected c w = Some rs ->
  In r rs -> w_flush_ok w (r_id r) = false -> o_exit (run c w) <> 0%N.
Proof.
  intros Hin Ef Er Hr Hfl E. apply (exit0_iff_complete c w Hin) in E.
  destruct E as (f & rs' & Ef' & Er' & Henc & _). rewrite Er in Er'. injection Er' as <-.
  unfold all_encoded in Henc. rewrite forallb_forall in Henc. specialize (Henc r Hr).
  destruct (enc_class f (c_nul c) (r_node r)); [rewrite Hfl in Henc|]; discriminate Henc.
Qed.
