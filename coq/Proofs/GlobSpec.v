(* Proofs/GlobSpec.v — the linear-time matcher of matchKeyString.go (Model/Bounds.v: one restart point, taken over
   by every later `*`) decides exactly the glob relation: `*` any byte sequence, `?` any one byte, every other byte
   itself.  With Proofs/BoundsProofs.v (the loop terminates) this makes [match_key name pat] = [glob pat name]. *)
From Coq Require Import List NArith Bool Arith Lia.
From YQ Require Import Base.Str Model.Node Model.Bounds Proofs.BoundsProofs.
Import ListNotations.

(* ---------- the specification ---------- *)
Fixpoint glob (pat name : str) {struct pat} : bool :=
  match pat with
  | [] => match name with [] => true | _ => false end
  | c :: p' =>
      if (c =? 42)%N then
        (fix star (n : str) : bool := glob p' n || match n with [] => false | _ :: n' => star n' end) name
      else
        match name with
        | [] => false
        | d :: n' => ((c =? 63)%N || (d =? c)%N) && glob p' n'
        end
  end.

Lemma glob_star_unfold p n :
  glob (42%N :: p) n = glob p n || match n with [] => false | _ :: n' => glob (42%N :: p) n' end.
Proof. destruct n; reflexivity. Qed.

Lemma skipn_skipn {A} a : forall b (l : list A), skipn a (skipn b l) = skipn (a + b) l.
Proof.
  intros b. revert a. induction b as [|b IH]; intros a l.
  - rewrite Nat.add_0_r. reflexivity.
  - destruct l as [|x l]; [rewrite !skipn_nil; reflexivity|].
    replace (a + S b)%nat with (S (a + b)) by lia. cbn [skipn]. apply IH.
Qed.

Lemma skipn_nth {A} (l : list A) : forall i x, nth_error l i = Some x -> skipn i l = x :: skipn (S i) l.
Proof.
  induction l as [|y l IH]; intros [|i] x H; cbn in *; try discriminate.
  - injection H as ->. reflexivity.
  - apply IH. exact H.
Qed.

Lemma skipn_none {A} (l : list A) i : nth_error l i = None -> skipn i l = [].
Proof. intros H. apply skipn_all2. apply nth_error_None. exact H. Qed.

Lemma glob_star_iff p : forall n,
  glob (42%N :: p) n = true <-> exists k, (k <= length n)%nat /\ glob p (skipn k n) = true.
Proof.
  induction n as [|x n IH]; rewrite glob_star_unfold.
  - rewrite orb_false_r. split.
    + intros H. exists O. split; [lia | exact H].
    + intros (k & Hk & H). destruct k; [exact H | cbn in Hk; lia].
  - split.
    + intros H. apply orb_true_iff in H as [H|H].
      * exists O. split; [lia | exact H].
      * apply IH in H as (k & Hk & H). exists (S k). split; [cbn; lia | exact H].
    + intros (k & Hk & H). apply orb_true_iff. destruct k as [|k].
      * left. exact H.
      * right. apply IH. exists k. split; [cbn in Hk; lia | exact H].
Qed.

Lemma nth_firstn_lt {A} (l : list A) : forall m i, (i < m)%nat -> nth_error (firstn m l) i = nth_error l i.
Proof.
  induction l as [|x l IH]; intros m i H; [rewrite firstn_nil; reflexivity|].
  destruct m as [|m]; [lia|]. destruct i as [|i]; [reflexivity|]. cbn. apply IH. lia.
Qed.

Lemma nth_error_skipn {A} : forall n (l : list A) i, nth_error (skipn n l) i = nth_error l (n + i).
Proof.
  induction n as [|n IH]; intros l i; [reflexivity|].
  destruct l as [|x l]; [destruct i; reflexivity|]. cbn. apply IH.
Qed.

(* a star-free stretch of the pattern consumes exactly as many bytes of the name *)
Lemma seg_consume seg : forall R n,
  Forall (fun c => c <> 42%N) seg -> glob (seg ++ R) n = true ->
  (length seg <= length n)%nat /\ glob R (skipn (length seg) n) = true.
Proof.
  induction seg as [|c seg IH]; intros R n Hf H.
  - split; [cbn; lia | exact H].
  - inversion Hf as [|? ? Hc Hf']; subst. cbn [app glob] in H.
    replace (c =? 42)%N with false in H by (symmetry; apply N.eqb_neq; exact Hc).
    destruct n as [|d n]; [discriminate|].
    apply andb_true_iff in H as [_ H]. destruct (IH R n Hf' H) as [Hl Hg].
    split; [cbn; lia | exact Hg].
Qed.

(* ---------- the invariant of the loop ---------- *)
Section Correct.
  Variables name pat : str.
  Let N := length name.

  Definition Cur (s : gst) : Prop := glob (skipn (g_px s) pat) (skipn (g_nx s) name) = true.

  Definition Alt (s : gst) : Prop :=
    (0 < g_nnx s)%nat /\ exists k, (g_nnx s <= k <= N)%nat /\ glob (skipn (S (g_npx s)) pat) (skipn k name) = true.

  Definition Shape (s : gst) : Prop :=
    (0 < g_nnx s)%nat ->
    nth_error pat (g_npx s) = Some 42%N /\
    ((g_px s = g_npx s /\ g_nx s = g_nnx s) \/
     ((g_npx s < g_px s)%nat /\ (g_nx s + g_npx s + 2 = g_px s + g_nnx s)%nat /\
      forall j, (g_npx s < j < g_px s)%nat -> nth_error pat j <> Some 42%N)).

  Definition Inv (s : gst) : Prop := (glob pat name = true <-> Cur s \/ Alt s) /\ Shape s.

  (* an alternative alignment of the restart star cannot do better than the current one once another star is met *)
  Lemma alt_implies_cur s :
    Shape s -> nth_error pat (g_px s) = Some 42%N -> Alt s -> Cur s.
  Proof.
    intros Hs Hstar (Hpos & k & Hk & Hg). destruct (Hs Hpos) as (Hnp & [[Hpx Hnx]|(Hlt & Heq & Hfree)]).
    - (* just restarted: the current position IS the star *)
      unfold Cur. rewrite Hpx, Hnx. rewrite (skipn_nth _ _ _ Hnp). apply glob_star_iff.
      exists (k - g_nnx s)%nat. split.
      + rewrite skipn_length. fold N. lia.
      + rewrite skipn_skipn. replace (k - g_nnx s + g_nnx s)%nat with k by lia. exact Hg.
    - set (m := (g_px s - S (g_npx s))%nat).
      assert (Hsplit : skipn (S (g_npx s)) pat = firstn m (skipn (S (g_npx s)) pat) ++ skipn (g_px s) pat).
      { rewrite <- (firstn_skipn m (skipn (S (g_npx s)) pat)) at 1. f_equal. rewrite skipn_skipn. f_equal. unfold m. lia. }
      assert (Hlen : length (firstn m (skipn (S (g_npx s)) pat)) = m).
      { apply firstn_length_le. rewrite skipn_length.
        assert (g_px s < length pat)%nat by (apply nth_error_Some; congruence). unfold m. lia. }
      assert (Hsf : Forall (fun c => c <> 42%N) (firstn m (skipn (S (g_npx s)) pat))).
      { apply Forall_forall. intros c Hc. apply In_nth_error in Hc as [i Hi].
        assert (Him : (i < m)%nat).
        { rewrite <- Hlen. apply nth_error_Some. congruence. }
        rewrite nth_firstn_lt in Hi by exact Him.
        assert (Hn : nth_error pat (S (g_npx s) + i) = Some c) by (rewrite <- Hi; symmetry; apply nth_error_skipn).
        intros ->. apply (Hfree (S (g_npx s) + i)%nat); [unfold m in Him; lia | exact Hn]. }
      rewrite Hsplit in Hg. destruct (seg_consume _ _ _ Hsf Hg) as [Hle Hg']. rewrite Hlen in *.
      rewrite skipn_skipn in Hg'. rewrite (skipn_nth _ _ _ Hstar) in Hg'.
      apply glob_star_iff in Hg' as (k' & Hk' & Hg'').
      unfold Cur. rewrite (skipn_nth _ _ _ Hstar). apply glob_star_iff.
      rewrite skipn_skipn in Hg''. rewrite skipn_length in Hk', Hle. fold N in Hk', Hle.
      exists (k' + (m + k) - g_nx s)%nat. split.
      + rewrite skipn_length. fold N. unfold m in *. lia.
      + rewrite skipn_skipn. replace (k' + (m + k) - g_nx s + g_nx s)%nat with (k' + (m + k))%nat by (unfold m in *; lia).
        exact Hg''.
  Qed.

  (* the restart step *)
  Lemma restart_ok s :
    Inv s -> ~ Cur s ->
    match g_restart name s with
    | GDone b => b = glob pat name
    | GNext s' => Inv s'
    end.
  Proof.
    intros [Hiff Hs] Hnc. unfold g_restart.
    destruct ((0 <? g_nnx s)%nat && (g_nnx s <=? length name)%nat) eqn:E.
    - apply andb_true_iff in E as [E1 E2]. apply Nat.ltb_lt in E1. apply Nat.leb_le in E2.
      destruct (Hs E1) as [Hnp _].
      assert (Hcur' : Alt s <-> glob (skipn (g_npx s) pat) (skipn (g_nnx s) name) = true).
      { rewrite (skipn_nth _ _ _ Hnp). rewrite glob_star_iff. split.
        - intros (_ & k & Hk & Hg). exists (k - g_nnx s)%nat. split.
          + rewrite skipn_length. fold N. lia.
          + rewrite skipn_skipn. replace (k - g_nnx s + g_nnx s)%nat with k by lia. exact Hg.
        - intros (k & Hk & Hg). split; [exact E1|]. exists (k + g_nnx s)%nat. rewrite skipn_length in Hk. fold N in Hk.
          split; [fold N in E2; lia|]. rewrite skipn_skipn in Hg. exact Hg. }
      split.
      + unfold Cur, Alt. cbn [g_px g_nx g_npx g_nnx]. rewrite Hiff. split.
        * intros [H|H]; [contradiction|]. left. apply Hcur'. exact H.
        * intros [H|H]; [right; apply Hcur'; exact H | right; exact H].
      + intros _. cbn [g_px g_nx g_npx g_nnx]. split; [exact Hnp | left; split; reflexivity].
    - assert (Hna : ~ Alt s).
      { intros (Hpos & k & Hk & _). apply andb_false_iff in E as [E|E].
        - apply Nat.ltb_ge in E. lia.
        - apply Nat.leb_gt in E. fold N in E. lia. }
      destruct (glob pat name) eqn:G; [|reflexivity].
      exfalso. destruct (proj1 Hiff eq_refl); contradiction.
  Qed.

  Lemma advance_ok s c :
    Inv s -> nth_error pat (g_px s) = Some c -> c <> 42%N ->
    (Cur s <-> Cur (g_adv s)) -> Inv (g_adv s).
  Proof.
    intros [Hiff Hs] Hc Hne Hcc. split.
    - rewrite Hiff. unfold Alt, g_adv. cbn [g_px g_nx g_npx g_nnx]. rewrite Hcc. unfold g_adv. reflexivity.
    - intros Hpos. cbn [g_adv g_px g_nx g_npx g_nnx] in *. destruct (Hs Hpos) as (Hnp & [[Hpx Hnx]|(Hlt & Heq & Hfree)]).
      + exfalso. rewrite Hpx in Hc. rewrite Hc in Hnp. injection Hnp as ->. contradiction.
      + split; [exact Hnp|]. right. split; [lia|]. split; [lia|].
        intros j Hj. destruct (Nat.eq_dec j (g_px s)) as [->|Hd].
        * rewrite Hc. intros H. injection H as ->. contradiction.
        * apply Hfree. lia.
  Qed.

  Lemma step_ok s :
    Inv s ->
    match g_step name pat s with
    | GDone b => b = glob pat name
    | GNext s' => Inv s'
    end.
  Proof.
    intros HI. pose proof HI as [Hiff Hs]. unfold g_step.
    destruct ((g_px s <? length pat)%nat || (g_nx s <? length name)%nat) eqn:Econd.
    - destruct (nth_error pat (g_px s)) as [c|] eqn:Ec.
      + destruct (c =? 42)%N eqn:E42.
        * (* a star: it takes over the restart point *)
          apply N.eqb_eq in E42. subst c.
          assert (Hcur : Cur s <-> Cur {| g_px := S (g_px s); g_nx := g_nx s; g_npx := g_px s; g_nnx := S (g_nx s) |}
                                   \/ Alt {| g_px := S (g_px s); g_nx := g_nx s; g_npx := g_px s; g_nnx := S (g_nx s) |}).
          { unfold Cur, Alt. cbn [g_px g_nx g_npx g_nnx]. rewrite (skipn_nth _ _ _ Ec). rewrite glob_star_iff. split.
            - intros (k & Hk & Hg). rewrite skipn_length in Hk. fold N in Hk. rewrite skipn_skipn in Hg.
              destruct k as [|k]; [left; exact Hg|]. right. split; [lia|]. exists (S k + g_nx s)%nat. split; [lia | exact Hg].
            - intros [H|(_ & k & Hk & Hg)].
              + exists O. split; [lia | exact H].
              + exists (k - g_nx s)%nat. split; [rewrite skipn_length; fold N; lia|].
                rewrite skipn_skipn. replace (k - g_nx s + g_nx s)%nat with k by lia. exact Hg. }
          split.
          -- rewrite Hiff. rewrite <- Hcur. split; [|intros H; left; exact H].
             intros [H|H]; [exact H | exact (alt_implies_cur s Hs Ec H)].
          -- intros _. cbn [g_px g_nx g_npx g_nnx]. split; [exact Ec|]. right. split; [lia|]. split; [lia|].
             intros j Hj. lia.
        * apply N.eqb_neq in E42.
          destruct (c =? 63)%N eqn:E63.
          -- (* ? *)
             destruct (g_nx s <? length name)%nat eqn:Enx.
             ++ apply Nat.ltb_lt in Enx.
                destruct (nth_error name (g_nx s)) as [d|] eqn:Ed; [|apply nth_error_None in Ed; lia].
                apply (advance_ok s c HI Ec E42). unfold Cur, g_adv. cbn [g_px g_nx g_npx g_nnx].
                rewrite (skipn_nth _ _ _ Ec), (skipn_nth _ _ _ Ed). cbn [glob].
                replace (c =? 42)%N with false by (symmetry; apply N.eqb_neq; exact E42). rewrite E63. cbn [orb andb].
                reflexivity.
             ++ apply Nat.ltb_ge in Enx. apply restart_ok; [exact HI|].
                unfold Cur. rewrite (skipn_nth _ _ _ Ec), (skipn_all2 name) by exact Enx. cbn [glob].
                replace (c =? 42)%N with false by (symmetry; apply N.eqb_neq; exact E42). discriminate.
          -- destruct (nth_error name (g_nx s)) as [d|] eqn:Ed.
             ++ destruct (d =? c)%N eqn:Edc.
                ** apply (advance_ok s c HI Ec E42). unfold Cur, g_adv. cbn [g_px g_nx g_npx g_nnx].
                   rewrite (skipn_nth _ _ _ Ec), (skipn_nth _ _ _ Ed). cbn [glob].
                   replace (c =? 42)%N with false by (symmetry; apply N.eqb_neq; exact E42). rewrite E63, Edc. cbn [orb andb].
                   reflexivity.
                ** apply restart_ok; [exact HI|].
                   unfold Cur. rewrite (skipn_nth _ _ _ Ec), (skipn_nth _ _ _ Ed). cbn [glob].
                   replace (c =? 42)%N with false by (symmetry; apply N.eqb_neq; exact E42). rewrite E63, Edc. cbn. discriminate.
             ++ apply restart_ok; [exact HI|].
                unfold Cur. rewrite (skipn_nth _ _ _ Ec), (skipn_none _ _ Ed). cbn [glob].
                replace (c =? 42)%N with false by (symmetry; apply N.eqb_neq; exact E42). discriminate.
      + (* the pattern is used up but the name is not *)
        apply restart_ok; [exact HI|].
        assert (Hnx : (g_nx s < length name)%nat).
        { apply orb_true_iff in Econd as [E|E]; [apply Nat.ltb_lt in E; apply nth_error_None in Ec; lia | apply Nat.ltb_lt in E; exact E]. }
        destruct (nth_error name (g_nx s)) as [d|] eqn:Ed; [|apply nth_error_None in Ed; lia].
        unfold Cur. rewrite (skipn_none _ _ Ec), (skipn_nth _ _ _ Ed). cbn. discriminate.
    - (* both used up *)
      apply orb_false_iff in Econd as [E1 E2]. apply Nat.ltb_ge in E1. apply Nat.ltb_ge in E2.
      symmetry. apply Hiff. left. unfold Cur. rewrite (skipn_all2 pat) by exact E1. rewrite (skipn_all2 name) by exact E2. reflexivity.
  Qed.

  Lemma loop_ok : forall fuel s b, Inv s -> g_loop fuel name pat s = Ok b -> b = glob pat name.
  Proof.
    induction fuel as [|f IH]; intros s b HI H; [discriminate|].
    cbn [g_loop] in H. pose proof (step_ok s HI) as Hs.
    destruct (g_step name pat s) as [b'|s'].
    - injection H as <-. exact Hs.
    - apply (IH s' b Hs H).
  Qed.

  Lemma init_inv : Inv g_init.
  Proof.
    split.
    - unfold Cur, Alt, g_init. cbn [g_px g_nx g_npx g_nnx skipn]. split; [intros H; left; exact H|].
      intros [H|[H _]]; [exact H | lia].
    - intros H. cbn in H. lia.
  Qed.
End Correct.

Theorem deep_match_is_glob name pat b : deep_match name pat = Ok b -> b = glob pat name.
Proof. unfold deep_match. apply loop_ok. apply init_inv. Qed.

Theorem match_key_is_glob name pat : match_key name pat = Ok (glob pat name).
Proof.
  destruct (match_key_total name pat) as [b Hb]. rewrite Hb. f_equal.
  unfold match_key in Hb. destruct pat as [|c r] eqn:Ep.
  - injection Hb as <-. destruct name; reflexivity.
  - rewrite <- Ep in *. destruct (str_eqb pat [42%N]) eqn:Es.
    + injection Hb as <-. apply str_eqb_eq in Es. rewrite Es. symmetry. apply glob_star_iff.
      exists (length name). split; [lia|]. rewrite skipn_all. reflexivity.
    + apply deep_match_is_glob. exact Hb.
Qed.

(* the evaluator's use of it: never the unreachable fallback, always the glob relation *)
From YQ Require Model.Store Model.Eval.
Theorem eval_glob_match_is_glob name pat : Eval.glob_match name pat = Store.Ok (glob pat name).
Proof. unfold Eval.glob_match. rewrite match_key_is_glob. reflexivity. Qed.

Example glob_examples :
  glob [99; 42] [99; 97; 116] = true /\ glob [99; 63; 116] [99; 97; 116] = true /\ glob [42; 97; 42] [99; 97; 116] = true /\
  glob [99; 42; 120] [99; 97; 116] = false /\ glob [63] [] = false /\ glob [42; 42] [] = true.
Proof. vm_compute. repeat split. Qed.
