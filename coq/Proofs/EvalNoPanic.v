(* Proofs/EvalNoPanic.v — on the evaluator model, evaluating an expression that contains no delete
   never ends in the model's Panic outcome, whatever the document, context, variables and fuel: the
   index operator's `rhs.MatchingNodes.Front()` site is unreachable because a collect always hands
   back a result.  (The only other Panic site of Model/Eval.v is del_loop meeting a pointer whose
   recorded key is gone.)  With the correspondence comparing outcome classes, this is the evaluator-level
   part of "a result or an error, never a crash". *)
From YQ Require Import Base.Str Model.Node Model.Store Model.Eval.
From Coq Require Import ZArith Lia.

Definition nopanic {A} (r : res A) : Prop := r <> Panic.

Lemma np_bind {A B} (m : res A) (k : A -> res B) : nopanic m -> (forall a, nopanic (k a)) -> nopanic (bind m k).
Proof. unfold nopanic. destruct m; cbn; intros; auto; discriminate. Qed.

Lemma np_ok {A} (a : A) : nopanic (Ok a). Proof. discriminate. Qed.
Lemma np_err {A} : nopanic (@Err A). Proof. discriminate. Qed.
Lemma np_unsup {A} : nopanic (@Unsup A). Proof. discriminate. Qed.
Lemma np_oof {A} : nopanic (@OutOfFuel A). Proof. discriminate. Qed.

Lemma each_np {A} (f : A -> store -> res out) l : (forall x st, nopanic (f x st)) -> forall st, nopanic (each f l st).
Proof.
  intros H. induction l as [|x l IH]; intros st; cbn [each]; [apply np_ok|].
  apply np_bind; [apply H|]. intros. apply np_bind; [apply IH|]. intros. apply np_ok.
Qed.

Lemma iter_np {A} (f : ptr -> A -> store -> res (A * store)) l :
  (forall p a st, nopanic (f p a st)) -> forall a st, nopanic (Eval.iter f l a st).
Proof.
  intros H. induction l as [|p l IH]; intros a st; cbn [Eval.iter]; [apply np_ok|].
  apply np_bind; [apply H|]. intros. apply IH.
Qed.

(* the pure helpers never report OutOfFuel *)
Lemma np_glob_match a b : nopanic (glob_match a b).
Proof. unfold glob_match. destruct (Bounds.match_key a b); discriminate. Qed.

Ltac np_pure :=
  repeat first
    [ apply np_ok | apply np_err | apply np_unsup | apply np_oof | apply np_glob_match
    | apply np_bind; [ | intros ]
    | apply each_np; intros
    | match goal with |- nopanic (match ?x with _ => _ end) => destruct x end
    | match goal with |- nopanic (if ?x then _ else _) => destruct x end
    | match goal with |- nopanic (let '(_, _) := ?x in _) => destruct x end
    | progress unfold one, deref_r, of_option, mk_bool, first_text, Z_of_index, int_of, key_text, truthy_ptr ].

Lemma np_deref st p : nopanic (deref_r st p). Proof. np_pure. Qed.
Lemma np_mk_bool st o b : nopanic (mk_bool st o b). Proof. np_pure. Qed.
Lemma np_first_text st ps d : nopanic (first_text st ps d). Proof. np_pure. Qed.
Lemma np_Z_of_index s : nopanic (Z_of_index s). Proof. np_pure. Qed.
Lemma np_int_of s : nopanic (int_of s). Proof. np_pure. Qed.
Lemma np_find_glob es pat i : nopanic (find_glob es pat i).
Proof.
  revert i. induction es as [|[k v] es IH]; intros i; cbn [find_glob]; [apply np_ok|].
  apply np_bind; [apply np_glob_match|]. intros b. apply np_bind; [apply IH|]. intros t. apply np_ok.
Qed.
Lemma np_trav_map ro k p es st : nopanic (trav_map ro k p es st).
Proof.
  unfold trav_map, trav_map_pat. destruct (is_wild k); [|np_pure].
  apply np_bind; [apply np_find_glob|]. intros idxs. np_pure.
Qed.
Lemma np_trav_index ro p items idx st : nopanic (trav_index ro p items idx st). Proof. unfold trav_index. np_pure. Qed.
Lemma np_trav_key ro k p st : nopanic (trav_key ro k p st).
Proof. unfold trav_key. apply np_bind; [apply np_deref|]. intros [t v|items|es]; np_pure; try apply np_trav_map; try apply np_trav_index. Qed.
Lemma np_trav_indices ro idx p st : nopanic (trav_indices ro idx p st).
Proof.
  unfold trav_indices. apply np_bind; [apply np_deref|]. intros n0.
  match goal with |- nopanic (let '(_, _) := ?x in _) => destruct x as [n st'] end.
  destruct n as [t v|items|es]; [apply np_ok| |]; destruct idx; try apply np_ok;
    apply each_np; intros ix st1; np_pure; try apply np_trav_index; try apply np_trav_map.
Qed.
Lemma np_collect_items st ps : forall acc, nopanic (collect_items st ps acc).
Proof. induction ps as [|p ps IH]; intros acc; cbn [collect_items]; [apply np_ok|]. apply np_bind; [apply np_deref|]. intros. apply IH. Qed.
Lemma np_any_truthy st ps : nopanic (any_truthy st ps).
Proof. induction ps as [|p ps IH]; cbn [any_truthy]; [apply np_ok|]. apply np_bind; [apply np_deref|]. intros n. destruct (truthy n); [apply np_ok | exact IH]. Qed.
Lemma np_build_groups st l : forall acc, nopanic (build_groups st l acc).
Proof. induction l as [|[k ps] l IH]; intros acc; cbn [build_groups]; [apply np_ok|]. apply np_bind; [apply np_collect_items|]. intros. apply IH. Qed.
Lemma np_read_pairs st ps : nopanic (read_pairs st ps).
Proof.
  induction ps as [|p ps IH]; cbn [read_pairs]; [apply np_ok|]. apply np_bind; [apply np_deref|]. intros n.
  destruct n as [| |[|[k v] [|? ?]]]; try apply np_unsup. apply np_bind; [exact IH|]. intros. apply np_ok.
Qed.
Lemma np_entries_of_items l : forall acc, nopanic (entries_of_items l acc).
Proof.
  induction l as [|[k n] l IH]; intros acc; cbn [entries_of_items]; [apply np_ok|].
  destruct n as [| |ent]; try apply np_unsup.
  destruct (find_key ent _ 0) as [|i [|? ?]]; try apply np_err.
  destruct (find_key ent _ 0) as [|j [|? ?]]; try apply np_err.
  destruct (nth_error ent i) as [[? [[] ?| |]]|]; try apply np_unsup; destruct (nth_error ent j) as [[? ?]|]; try apply np_unsup; apply IH.
Qed.

Lemma np_update_from st a b : nopanic (update_from st a b).
Proof. unfold update_from. destruct (ptr_eqb a b); [apply np_ok|]. apply np_bind; [apply np_deref|]. intros. apply np_ok. Qed.
Lemma np_calcs :
  (forall st l r, nopanic (add_nodes st l r)) /\ (forall st l r, nopanic (lift2 sub_nodes st l r)) /\
  (forall fl st l r, nopanic (lift2 (mul_nodes fl) st l r)) /\ (forall st l r, nopanic (lift2 mod_nodes st l r)) /\
  (forall fl st l r, nopanic (eq_nodes fl st l r)) /\ (forall a b st l r, nopanic (cmp_nodes a b st l r)) /\
  (forall st l r, nopanic (bool_calc st l r)) /\ (forall st l r, nopanic (alt_calc st l r)) /\
  (forall st l r, nopanic (lift2 contains_calc st l r)) /\ (forall st l r, nopanic (lift2 pair_calc st l r)) /\
  (forall t st l, nopanic (bool_short t st l)) /\ (forall st l, nopanic (alt_short st l)).
Proof.
  repeat split; intros;
    unfold add_nodes, lift2, sub_nodes, mul_nodes, mod_nodes, eq_nodes, cmp_nodes, bool_calc, alt_calc, contains_calc,
      pair_calc, bool_short, alt_short, add_scalars, sub_scalars, mul_scalars, mod_scalars, compare_scalars;
    np_pure.
Qed.

Section CrossNp.
  Variable ev : expr -> bool -> vars -> list ptr -> store -> res out.
  Variables lhs rhs : expr.
  Hypothesis Hl : forall ro vs ctx st, nopanic (ev lhs ro vs ctx st).
  Hypothesis Hr : forall ro vs ctx st, nopanic (ev rhs ro vs ctx st).
  Variable short : store -> option ptr -> res (option out).
  Variable calc : cross_calc.
  Hypothesis Hs : forall st l, nopanic (short st l).
  Hypothesis Hc : forall st l r, nopanic (calc st l r).

  Lemma results_for_rhs_np cwe ro vs ctx l st : nopanic (results_for_rhs ev cwe short calc rhs ro vs ctx l st).
  Proof.
    unfold results_for_rhs. apply np_bind; [apply Hs|]. intros [o|]; [apply np_ok|].
    apply np_bind; [apply Hr|]. intros o. destruct (fst o); [destruct cwe; [apply Hc | apply np_ok]|].
    apply each_np. intros. apply Hc.
  Qed.

  Lemma cross1_np cwe ro vs cx st : nopanic (cross1 ev cwe short calc lhs rhs ro vs cx st).
  Proof.
    unfold cross1. apply np_bind; [apply Hl|]. intros ol. apply np_bind.
    - destruct (fst ol); [destruct cwe; [apply results_for_rhs_np | apply np_ok] | apply np_ok].
    - intros o0. apply np_bind; [apply each_np; intros; apply results_for_rhs_np|]. intros. apply np_ok.
  Qed.

  Lemma cross_np cwe ro vs ctx st : nopanic (cross ev cwe short calc lhs rhs ro vs ctx st).
  Proof. unfold cross. destruct ctx; [apply cross1_np|]. apply each_np. intros. apply cross1_np. Qed.
End CrossNp.

Lemma np_assign_calc st l r : nopanic (assign_calc st l r).
Proof. unfold assign_calc, lift2. destruct l, r; try apply np_unsup. apply np_bind; [apply np_update_from|]. intros. apply np_ok. Qed.

Lemma no_short_np st l : nopanic (no_short st l). Proof. apply np_ok. Qed.

Lemma obj_entries_np ev ro vs c es :
  (forall ke ve, In (ke, ve) es ->
     (forall ro' vs' ctx st, nopanic (ev ke ro' vs' ctx st)) /\ (forall ro' vs' ctx st, nopanic (ev ve ro' vs' ctx st))) ->
  forall acc st, nopanic (obj_entries ev ro vs c es acc st).
Proof.
  induction es as [|[ke ve] es IH]; intros H acc st; cbn [obj_entries]; [apply np_ok|].
  destruct (H ke ve (or_introl eq_refl)) as [Hk Hv].
  apply np_bind.
  - apply cross_np; try assumption; [intros; apply no_short_np | apply np_calcs].
  - intros o. apply np_bind; [apply np_read_pairs|]. intros. apply IH. intros k v Hin. apply H. right. assumption.
Qed.

Fixpoint no_del (e : expr) : bool :=
  match e with
  | ESelf | ELit _ _ | EKey _ | ERecurse | ENot | ELength | EKeys | EToEntries | EFromEntries
  | EReverse | EFlatten _ | EAny | EAll | EVar _ | EPath | EGetKey | EParent | EEmpty => true
  | EIndex l None => no_del l
  | EIndex l (Some i) => no_del l && no_del i
  | ESlice l a b => no_del l && no_del a && no_del b
  | EPipe l r | EUnion l r | EBin _ l r | EAssign l r | EUpdate l r | ECompound _ l r => no_del l && no_del r
  | ECollect None => true
  | ECollect (Some e1) => no_del e1
  | EFilter e1 | ESelect e1 | EMap e1 | EHas e1 | EWithEntries e1 | EUniqueBy e1 | EGroupBy e1
  | EAnyC e1 | EAllC e1 | EJoin e1 | ESplit e1 | ESortBy e1 => no_del e1
  | EDel _ => false
  | EAs src _ body => no_del src && no_del body
  | EReduce src _ init body => no_del src && no_del init && no_del body
  | EObject es =>
      (fix all (l : list (expr * expr)) : bool :=
         match l with [] => true | (k, v) :: r => no_del k && no_del v && all r end) es
  end.

(* a collect always hands back at least one result *)
Lemma each_first_nonempty {A} (f : A -> store -> res out) x l st o :
  (forall st0 o1, f x st0 = Ok o1 -> fst o1 <> []) -> each f (x :: l) st = Ok o -> fst o <> [].
Proof.
  intros Hf. cbn [each]. destruct (f x st) as [o1| | | |] eqn:E1; cbn [bind]; try discriminate.
  destruct (each f l (snd o1)) as [o2| | | |]; cbn [bind]; try discriminate.
  intros H. injection H as <-. cbn [fst]. specialize (Hf _ _ E1). destruct (fst o1); [contradiction|discriminate].
Qed.

Lemma collect_nonempty f eo ro vs ctx st o : eval f (ECollect eo) ro vs ctx st = Ok o -> fst o <> [].
Proof.
  destruct f as [|f]; [discriminate|]. cbn [eval]. destruct ctx as [|c ctx].
  - unfold one. destruct (alloc_fresh st (Seq [])). intros H. injection H as <-. discriminate.
  - apply each_first_nonempty. intros st0 o1.
    destruct (match eo with Some e1 => eval f e1 ro vs [c] st0 | None => Ok ([], st0) end) as [o0| | | |]; cbn [bind]; try discriminate.
    destruct (collect_items (snd o0) (fst o0) []) as [items| | | |]; cbn [bind]; try discriminate.
    unfold one. destruct (alloc_repl (snd o0) c (Seq items)). intros H. injection H as <-. discriminate.
Qed.

Ltac sub IH Hd := apply IH; cbn [no_del] in Hd; repeat (apply andb_prop in Hd; let H := fresh in destruct Hd as [Hd H]); assumption.

Ltac np_go IH Hd :=
  repeat first
    [ apply np_ok | apply np_err | apply np_unsup | apply np_oof
    | apply np_deref | apply np_mk_bool | apply np_first_text | apply np_Z_of_index | apply np_trav_key | apply np_trav_indices
    | apply np_collect_items | apply np_any_truthy | apply np_build_groups | apply np_update_from | apply np_entries_of_items
    | solve [sub IH Hd]
    | apply np_bind; [ | intros ]
    | apply each_np; intros
    | apply iter_np; intros
    | match goal with |- nopanic (match ?x with _ => _ end) => destruct x end
    | match goal with |- nopanic (if ?x then _ else _) => destruct x end
    | match goal with |- nopanic (let '(_, _) := ?x in _) => destruct x end
    | progress unfold one, key_text, of_option ].

Theorem eval_no_panic : forall f e ro vs ctx st,
  no_del e = true -> nopanic (eval f e ro vs ctx st).
Proof.
  induction f as [|f IH]; intros e ro vs ctx st Hd; [cbn; discriminate|].
  destruct e; cbn [eval]; try discriminate Hd.
  all: try solve [np_go IH Hd].
  - (* EIndex *)
    assert (Hl : no_del e = true) by (destruct idx; cbn [no_del] in Hd; [apply andb_prop in Hd; tauto | assumption]).
    destruct (ro && _); [apply np_unsup|].
    apply np_bind; [apply IH; exact Hl|]. intros ol.
    assert (Hc : nopanic (eval f (ECollect idx) true vs ctx (snd ol))).
    { apply IH. destruct idx; cbn [no_del] in *; [apply andb_prop in Hd; tauto | reflexivity]. }
    destruct (eval f (ECollect idx) true vs ctx (snd ol)) as [oi| | | |] eqn:Ec; cbn [bind]; try discriminate; [|contradiction].
    destruct (fst oi) as [|p ps] eqn:Ef; [exfalso; exact (collect_nonempty _ _ _ _ _ _ _ Ec Ef)|].
    apply np_bind; [np_go IH Hd|]. intros ixs. apply each_np. intros. apply np_trav_indices.
  - (* EBin *)
    destruct o; apply cross_np; try (intros; sub IH Hd); try (intros; apply no_short_np); try apply np_calcs.
  - (* EWithEntries *)
    apply each_np. intros c0 st0. apply np_bind; [apply np_deref|]. intros n.
    apply np_bind; [unfold to_entries_items; destruct n as [[] ?| |]; np_pure|]. intros [items|]; [|apply np_ok].
    destruct (alloc_repl st0 c0 (Seq items)) as [ep st1].
    apply np_bind; [apply each_np; intros; sub IH Hd|]. intros o.
    apply np_bind; [apply np_collect_items|]. intros coll. apply np_bind; [apply np_entries_of_items|]. intros es.
    destruct (dup_keys es); [apply np_unsup | unfold one; apply np_ok].
  - (* EAssign *)
    apply np_bind; [sub IH Hd|]. intros o0. apply np_bind; [|intros; apply np_ok].
    apply cross_np; try (intros; sub IH Hd); [intros; apply no_short_np | apply np_assign_calc].
  - (* ECompound *)
    apply np_bind; [sub IH Hd|]. intros o0. apply np_bind; [|intros; apply np_ok].
    apply iter_np. intros c u st0. apply np_bind; [apply np_deref|]. intros cn.
    destruct (alloc_repl st0 c cn) as [cp st1]. apply np_bind; [|intros; apply np_ok].
    apply cross_np; try (intros; apply no_short_np); try apply np_assign_calc.
    + intros. apply IH. cbn [no_del] in Hd |- *. apply andb_prop in Hd as [H1 H2]. rewrite ?H1, ?H2. reflexivity.
    + intros. apply IH. cbn [no_del] in Hd |- *. apply andb_prop in Hd as [H1 H2]. rewrite ?H1, ?H2. reflexivity.
  - (* EObject *)
    destruct entries as [|e0 es0]; [np_go IH Hd|]. destruct ctx; [apply np_unsup|].
    match goal with |- context [if ?b then _ else _] => destruct b end; [apply np_unsup|].
    apply each_np. intros c0 st0. apply np_bind.
    + apply obj_entries_np. intros ke ve Hin.
      assert (Hkv : no_del ke = true /\ no_del ve = true).
      { change (no_del (EObject (e0 :: es0)) = true) in Hd. revert Hin Hd. generalize (e0 :: es0). intros l.
        induction l as [|[k1 v1] l IHl]; intros Hin Hd; [contradiction|]. cbn [no_del] in Hd, IHl.
        apply andb_prop in Hd as [Hd Hr]. apply andb_prop in Hd as [Hk1 Hv1].
        destruct Hin as [Heq|Hin]; [injection Heq as <- <-; split; assumption | apply IHl; assumption]. }
      destruct Hkv as [Hk Hv]. split; intros; apply IH; assumption.
    + intros r. apply each_np. intros. np_go IH Hd.
Qed.
