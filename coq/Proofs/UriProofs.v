(* Proofs/UriProofs.v — lemmas for C14 (URI): the escaper's output is a
   well-formed form-urlencoded component denoting the input; the unescaper
   returns what a well-formed text denotes; hence the round trip. *)
From Coq Require Import Lia.
From YQ Require Import Base.Str Model.Base64 Model.Uri Spec.Codecs Proofs.Base64Proofs.

Lemma unreserved_same c : uri_unreserved c = rfc_unreserved c.
Proof.
  unfold uri_unreserved, rfc_unreserved.
  destruct ((97 <=? c) && (c <=? 122)), ((65 <=? c) && (c <=? 90)), ((48 <=? c) && (c <=? 57)),
    (c =? 45), (c =? 95), (c =? 46), (c =? 126); reflexivity.
Qed.

Lemma sweep_hex :
  forallb (fun d => is_upperhex (upperhex d) && (hexval (upperhex d) =? d)
                    && match unhex (upperhex d) with Some e => e =? d | None => false end) (below 16) = true.
Proof. vm_compute. reflexivity. Qed.

Lemma hex_digit d : d < 16 ->
  is_upperhex (upperhex d) = true /\ hexval (upperhex d) = d /\ unhex (upperhex d) = Some d.
Proof.
  intro Hd. pose proof (below_forall _ 16 sweep_hex d Hd) as H. cbv beta in H.
  apply andb_true_iff in H as [H H3]. apply andb_true_iff in H as [H1 H2].
  apply N.eqb_eq in H2. destruct (unhex (upperhex d)) as [e|]; [|discriminate].
  apply N.eqb_eq in H3. subst e. repeat split; assumption.
Qed.

(* unhex agrees with hexval on upper-case hex digits: sweep over all bytes *)
Lemma sweep_unhex :
  forallb (fun c => if is_upperhex c then match unhex c with Some e => e =? hexval c | None => false end else true)
          (below 256) = true.
Proof. vm_compute. reflexivity. Qed.

Lemma is_upperhex_lt c : is_upperhex c = true -> c < 256.
Proof.
  unfold is_upperhex. intro H. apply orb_true_iff in H as [H|H]; apply andb_true_iff in H as [_ H];
    apply N.leb_le in H; lia.
Qed.

Lemma unhex_upper c : is_upperhex c = true -> unhex c = Some (hexval c).
Proof.
  intro H. pose proof (below_forall _ 256 sweep_unhex c (is_upperhex_lt c H)) as S. cbv beta in S.
  rewrite H in S. destruct (unhex c) as [e|]; [|discriminate]. apply N.eqb_eq in S. congruence.
Qed.

Lemma byte_nibbles c : c < 256 -> c / 16 < 16 /\ c mod 16 < 16 /\ (c / 16) * 16 + c mod 16 = c.
Proof.
  intro H. split; [apply N.div_lt_upper_bound; lia|]. split; [apply N.mod_lt; lia|].
  pose proof (N.div_mod c 16 ltac:(lia)). lia.
Qed.

Lemma unreserved_not_special c : rfc_unreserved c = true -> (c =? c_pct) = false /\ (c =? c_plus) = false /\ (c =? c_sp) = false.
Proof.
  intro H. repeat split; apply N.eqb_neq; intros ->; vm_compute in H; discriminate.
Qed.

Theorem uri_escape_denotes s : bytes s -> uri_denotes (uri_escape s) s.
Proof.
  induction 1 as [|c r Hc Hr IH]; cbn [uri_escape]; [constructor|].
  destruct (c =? c_sp) eqn:Esp.
  - apply N.eqb_eq in Esp. subst c. apply uri_den_plus. exact IH.
  - rewrite unreserved_same. destruct (rfc_unreserved c) eqn:Eu.
    + apply uri_den_unreserved; assumption.
    + destruct (byte_nibbles c Hc) as (H1 & H2 & H3).
      destruct (hex_digit _ H1) as (A1 & A2 & _). destruct (hex_digit _ H2) as (B1 & B2 & _).
      pose proof (uri_den_pct _ _ _ _ A1 B1 IH) as D. rewrite A2, B2, H3 in D. exact D.
Qed.

Lemma uri_denotes_wf t v : uri_denotes t v -> uri_wf t.
Proof. induction 1; constructor; assumption. Qed.

Theorem uri_escape_wf s : bytes s -> uri_wf (uri_escape s).
Proof. intro H. exact (uri_denotes_wf _ _ (uri_escape_denotes s H)). Qed.

Theorem uri_unescape_denotes t v : uri_denotes t v -> uri_unescape t = Some v.
Proof.
  induction 1 as [|c r v Hc _ IH|r v _ IH|h1 h2 r v H1 H2 _ IH]; [reflexivity| | |].
  - destruct (unreserved_not_special c Hc) as (A & B & _).
    cbn [uri_unescape]. rewrite A, B, IH. reflexivity.
  - cbn [uri_unescape]. change (43 =? c_pct) with false. change (43 =? c_plus) with true.
    cbv iota. rewrite IH. reflexivity.
  - cbn [uri_unescape]. change (37 =? c_pct) with true. cbv iota.
    rewrite (unhex_upper _ H1), (unhex_upper _ H2), IH. reflexivity.
Qed.

Theorem uri_roundtrip s : bytes s -> uri_unescape (uri_escape s) = Some s.
Proof. intro H. exact (uri_unescape_denotes _ _ (uri_escape_denotes s H)). Qed.

(* every output character is ASCII: unreserved, plus, or percent *)
Lemma upperhex_unreserved h : is_upperhex h = true -> rfc_unreserved h = true.
Proof.
  unfold is_upperhex, rfc_unreserved. intro H. apply orb_true_iff in H as [H|H].
  - rewrite H. rewrite !orb_true_r. reflexivity.
  - apply andb_true_iff in H as [Ha Hb]. apply N.leb_le in Ha, Hb.
    assert ((65 <=? h) && (h <=? 90) = true) as ->; [|reflexivity].
    apply andb_true_iff. split; apply N.leb_le; lia.
Qed.

Lemma uri_wf_chars t : uri_wf t -> Forall (fun c => rfc_unreserved c = true \/ c = 43 \/ c = 37) t.
Proof.
  induction 1 as [|c r Hc _ IH|r _ IH|h1 h2 r H1 H2 _ IH].
  - constructor.
  - constructor; [left; exact Hc|exact IH].
  - constructor; [right; left; reflexivity|exact IH].
  - constructor; [right; right; reflexivity|].
    constructor; [left; exact (upperhex_unreserved _ H1)|].
    constructor; [left; exact (upperhex_unreserved _ H2)|exact IH].
Qed.

Theorem uri_escape_wf_denotes s : bytes s -> uri_wf (uri_escape s) /\ uri_denotes (uri_escape s) s.
Proof. intro H. split; [exact (uri_escape_wf s H)|exact (uri_escape_denotes s H)]. Qed.
