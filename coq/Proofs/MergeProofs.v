(* Proofs/MergeProofs.v — C04: lemmas about Spec/MergeSpec.v. *)
From Coq Require Import Arith.
From YQ Require Import Base.Str Model.Node Spec.MergeSpec.

(* ---------- induction over nodes (nested through the child lists) ---------- *)
Section NodeInd.
  Variable P : node -> Prop.
  Hypothesis HS : forall t v, P (Scalar t v).
  Hypothesis HQ : forall l, Forall (fun kc : rkey * node => P (snd kc)) l -> P (Seq l).
  Hypothesis HM : forall es, Forall (fun kc : str * node => P (snd kc)) es -> P (Map es).
  Fixpoint node_ind' (n : node) : P n :=
    match n with
    | Scalar t v => HS t v
    | Seq l =>
        HQ l ((fix go (l : list (rkey * node)) : Forall (fun kc => P (snd kc)) l :=
                 match l with
                 | [] => Forall_nil _
                 | (k, x) :: r => Forall_cons (k, x) (node_ind' x) (go r)
                 end) l)
    | Map es =>
        HM es ((fix go (l : list (str * node)) : Forall (fun kc => P (snd kc)) l :=
                  match l with
                  | [] => Forall_nil _
                  | (k, x) :: r => Forall_cons (k, x) (node_ind' x) (go r)
                  end) es)
    end.
End NodeInd.

(* every map below has pairwise distinct keys *)
Inductive ukeys : node -> Prop :=
| UK_scalar t v : ukeys (Scalar t v)
| UK_seq l : Forall (fun kc : rkey * node => ukeys (snd kc)) l -> ukeys (Seq l)
| UK_map es : NoDup (keys es) -> Forall (fun kc : str * node => ukeys (snd kc)) es -> ukeys (Map es).

(* keys of b that a does not have, in b's order *)
Definition mem (k : str) (l : list str) : bool := existsb (str_eqb k) l.
Definition new_keys (ka kb : list str) : list str := filter (fun k => negb (mem k ka)) kb.

(* reading along a path of keys *)
Fixpoint get_keys (p : list str) (n : node) : option node :=
  match p with
  | [] => Some n
  | k :: r => match n with
              | Map es => match lookup es k with Some v => get_keys r v | None => None end
              | _ => None
              end
  end.

(* ---------- strings, lookup, replace ---------- *)
Lemma str_eqb_neq a b : str_eqb a b = false <-> a <> b.
Proof.
  split.
  - intros H E. subst. rewrite str_eqb_refl in H. discriminate.
  - intros H. destruct (str_eqb a b) eqn:E; [|reflexivity]. apply str_eqb_eq in E. contradiction.
Qed.

Lemma str_eqb_sym a b : str_eqb a b = str_eqb b a.
Proof.
  destruct (str_eqb a b) eqn:E.
  - apply str_eqb_eq in E. subst. symmetry. apply str_eqb_refl.
  - symmetry. apply str_eqb_neq. apply str_eqb_neq in E. congruence.
Qed.

Lemma mem_in k l : mem k l = true <-> In k l.
Proof.
  unfold mem. rewrite existsb_exists. split.
  - intros (x & Hin & E). apply str_eqb_eq in E. subst. assumption.
  - intros H. exists k. split; [assumption | apply str_eqb_refl].
Qed.

Lemma lookup_none es k : lookup es k = None <-> ~ In k (keys es).
Proof.
  induction es as [|[k' v] es IH]; cbn.
  - split; [intros _ [] | reflexivity].
  - destruct (str_eqb k' k) eqn:E.
    + apply str_eqb_eq in E. subst. split; [discriminate | intros H; exfalso; apply H; left; reflexivity].
    + apply str_eqb_neq in E. rewrite IH. split.
      * intros H [H1|H1]; [contradiction | exact (H H1)].
      * intros H H1. apply H. right. assumption.
Qed.

Lemma lookup_some_in es k v : lookup es k = Some v -> In k (keys es).
Proof.
  intros H. destruct (in_dec (list_eq_dec N.eq_dec) k (keys es)) as [Hi|Hn]; [assumption|].
  apply lookup_none in Hn. congruence.
Qed.

Lemma lookup_in_nodup es k v : NoDup (keys es) -> In (k, v) es -> lookup es k = Some v.
Proof.
  induction es as [|[k' v'] es IH]; cbn; intros Hnd Hin; [contradiction|].
  inversion Hnd as [|x l Hni Hnd']; subst.
  destruct Hin as [Heq|Hin].
  - injection Heq as -> ->. rewrite str_eqb_refl. reflexivity.
  - destruct (str_eqb k' k) eqn:E.
    + apply str_eqb_eq in E. subst. exfalso. apply Hni.
      change k with (fst (k, v)). apply in_map. assumption.
    + apply IH; assumption.
Qed.

Lemma lookup_in es k v : lookup es k = Some v -> In (k, v) es.
Proof.
  induction es as [|[k' v'] es IH]; cbn; [discriminate|].
  destruct (str_eqb k' k) eqn:E.
  - apply str_eqb_eq in E. subst. intros H. injection H as ->. left. reflexivity.
  - intros H. right. apply IH. assumption.
Qed.

Lemma keys_replace es k v : keys (replace es k v) = keys es.
Proof.
  induction es as [|[k' v'] es IH]; cbn; [reflexivity|].
  destruct (str_eqb k' k); cbn; [reflexivity | f_equal; apply IH].
Qed.

Lemma keys_app es es' : keys (es ++ es') = keys es ++ keys es'.
Proof. apply map_app. Qed.

Lemma lookup_replace_same es k va v : lookup es k = Some va -> lookup (replace es k v) k = Some v.
Proof.
  induction es as [|[k' v'] es IH]; cbn; [discriminate|].
  destruct (str_eqb k' k) eqn:E; cbn; rewrite E; [reflexivity | exact IH].
Qed.

Lemma lookup_replace_other es k k' v : k' <> k -> lookup (replace es k v) k' = lookup es k'.
Proof.
  intros Hne. induction es as [|[k0 v0] es IH]; cbn; [reflexivity|].
  destruct (str_eqb k0 k) eqn:E; cbn.
  - apply str_eqb_eq in E. subst k0.
    assert (str_eqb k k' = false) as -> by (apply str_eqb_neq; congruence). reflexivity.
  - destruct (str_eqb k0 k'); [reflexivity | exact IH].
Qed.

Lemma replace_id es k v : lookup es k = Some v -> replace es k v = es.
Proof.
  induction es as [|[k' v'] es IH]; cbn; [reflexivity|].
  destruct (str_eqb k' k) eqn:E.
  - intros H. injection H as ->. reflexivity.
  - intros H. f_equal. apply IH. assumption.
Qed.

Lemma lookup_app_new es k v : lookup es k = None -> lookup (es ++ [(k, v)]) k = Some v.
Proof.
  induction es as [|[k' v'] es IH]; cbn.
  - rewrite str_eqb_refl. reflexivity.
  - destruct (str_eqb k' k); [discriminate | exact IH].
Qed.

Lemma lookup_app_other es k k' v : k' <> k -> lookup (es ++ [(k, v)]) k' = lookup es k'.
Proof.
  intros Hne. induction es as [|[k0 v0] es IH]; cbn.
  - assert (str_eqb k k' = false) as -> by (apply str_eqb_neq; congruence). reflexivity.
  - destruct (str_eqb k0 k'); [reflexivity | exact IH].
Qed.

(* ---------- unfolding ---------- *)
Lemma merge_entries_nil fl acc : merge_entries fl acc [] = Some acc.
Proof. reflexivity. Qed.

Lemma merge_entries_cons fl acc k vb r :
  merge_entries fl acc ((k, vb) :: r) =
  match lookup acc k with
  | Some va => match mv fl (Some va) vb with Some v => merge_entries fl (replace acc k v) r | None => None end
  | None => if f_existing fl then merge_entries fl acc r
            else match mv fl None vb with Some v => merge_entries fl (acc ++ [(k, v)]) r | None => None end
  end.
Proof. reflexivity. Qed.

Lemma merge_items_nil fl la : merge_items fl la [] = Some la.
Proof. reflexivity. Qed.

Lemma merge_items_cons_nil fl kb vb rb :
  merge_items fl [] ((kb, vb) :: rb) =
  match mv fl None vb, merge_items fl [] rb with Some v, Some r => Some ((kb, v) :: r) | _, _ => None end.
Proof. reflexivity. Qed.

Lemma merge_items_cons_cons fl ka va ra kb vb rb :
  merge_items fl ((ka, va) :: ra) ((kb, vb) :: rb) =
  match mv fl (Some va) vb, merge_items fl ra rb with Some v, Some r => Some ((ka, v) :: r) | _, _ => None end.
Proof. reflexivity. Qed.

Lemma merge_map_map fl ea eb : merge fl (Map ea) (Map eb) = option_map Map (merge_entries fl ea eb).
Proof. reflexivity. Qed.

Lemma mv_fresh_map fl eb : mv fl None (Map eb) = option_map Map (merge_entries fl [] eb).
Proof. reflexivity. Qed.

(* ---------- the entries of a merged map ---------- *)
Lemma new_keys_snoc_irrelevant ka k kb : ~ In k kb -> new_keys (ka ++ [k]) kb = new_keys ka kb.
Proof.
  intros Hn. unfold new_keys. apply filter_ext_in. intros x Hx. f_equal.
  unfold mem. rewrite existsb_app. cbn. rewrite orb_false_r.
  assert (str_eqb x k = false) as -> by (apply str_eqb_neq; intros ->; contradiction).
  apply orb_false_r.
Qed.

(* key order: a's keys, then b's new keys in b's order (nothing new with `?`) *)
Lemma merge_entries_keys fl : forall eb acc er,
  NoDup (keys eb) -> merge_entries fl acc eb = Some er ->
  keys er = keys acc ++ (if f_existing fl then [] else new_keys (keys acc) (keys eb)).
Proof.
  induction eb as [|[k vb] r IH]; intros acc er Hnd H.
  - rewrite merge_entries_nil in H. injection H as <-. destruct (f_existing fl); cbn; rewrite app_nil_r; reflexivity.
  - cbn [keys map fst] in Hnd. inversion Hnd as [|x l Hni Hnd']; subst.
    rewrite merge_entries_cons in H.
    destruct (lookup acc k) as [va|] eqn:El.
    + destruct (mv fl (Some va) vb) as [v|]; [|discriminate].
      rewrite (IH _ _ Hnd' H), keys_replace.
      destruct (f_existing fl); [reflexivity|]. f_equal. unfold new_keys. cbn [keys map fst filter].
      assert (mem k (keys acc) = true) as -> by (apply mem_in; eapply lookup_some_in; eassumption). reflexivity.
    + assert (mem k (keys acc) = false) as Hm.
      { destruct (mem k (keys acc)) eqn:E; [|reflexivity]. apply mem_in in E. apply lookup_none in El. contradiction. }
      destruct (f_existing fl) eqn:Ef.
      * rewrite (IH _ _ Hnd' H). reflexivity.
      * destruct (mv fl None vb) as [v|]; [|discriminate].
        rewrite (IH _ _ Hnd' H), keys_app. cbn [keys map fst].
        rewrite <- app_assoc. f_equal. unfold new_keys at 2. cbn [filter]. rewrite Hm. cbn [negb app]. f_equal.
        apply new_keys_snoc_irrelevant. exact Hni.
Qed.

(* the value found at each key of the result *)
Definition entry_spec (fl : flags) (acc eb er : entries) (k : str) : Prop :=
  match lookup eb k with
  | None => lookup er k = lookup acc k
  | Some vb =>
      match lookup acc k with
      | Some va => exists v, mv fl (Some va) vb = Some v /\ lookup er k = Some v
      | None => if f_existing fl then lookup er k = None
                else exists v, mv fl None vb = Some v /\ lookup er k = Some v
      end
  end.

Lemma merge_entries_lookup fl : forall eb acc er,
  NoDup (keys eb) -> merge_entries fl acc eb = Some er -> forall k, entry_spec fl acc eb er k.
Proof.
  induction eb as [|[k0 v0] r IH]; intros acc er Hnd H k; unfold entry_spec.
  - rewrite merge_entries_nil in H. injection H as <-. reflexivity.
  - cbn [keys map fst] in Hnd. inversion Hnd as [|x l Hni Hnd']; subst.
    assert (lookup r k0 = None) as Hr0 by (apply lookup_none; exact Hni).
    rewrite merge_entries_cons in H. cbn [lookup].
    destruct (str_eqb k0 k) eqn:E.
    + apply str_eqb_eq in E. subst k.
      destruct (lookup acc k0) as [va|] eqn:El.
      * destruct (mv fl (Some va) v0) as [v|] eqn:Ev; [|discriminate].
        exists v. split; [reflexivity|].
        pose proof (IH _ _ Hnd' H k0) as S. unfold entry_spec in S. rewrite Hr0 in S. rewrite S.
        eapply lookup_replace_same. eassumption.
      * destruct (f_existing fl).
        -- pose proof (IH _ _ Hnd' H k0) as S. unfold entry_spec in S. rewrite Hr0 in S. congruence.
        -- destruct (mv fl None v0) as [v|] eqn:Ev; [|discriminate].
           exists v. split; [reflexivity|].
           pose proof (IH _ _ Hnd' H k0) as S. unfold entry_spec in S. rewrite Hr0 in S. rewrite S.
           apply lookup_app_new. assumption.
    + apply str_eqb_neq in E.
      assert (forall acc', merge_entries fl acc' r = Some er -> lookup acc' k = lookup acc k ->
                match lookup r k with
                | None => lookup er k = lookup acc k
                | Some vb =>
                    match lookup acc k with
                    | Some va => exists v, mv fl (Some va) vb = Some v /\ lookup er k = Some v
                    | None => if f_existing fl then lookup er k = None
                              else exists v, mv fl None vb = Some v /\ lookup er k = Some v
                    end
                end) as Step.
      { intros acc' H' Hl. pose proof (IH _ _ Hnd' H' k) as S. unfold entry_spec in S. rewrite Hl in S. exact S. }
      destruct (lookup acc k0) as [va|] eqn:El.
      * destruct (mv fl (Some va) v0) as [v|]; [|discriminate].
        apply (Step _ H). apply lookup_replace_other. congruence.
      * destruct (f_existing fl) eqn:Ef.
        -- exact (Step _ H eq_refl).
        -- destruct (mv fl None v0) as [v|]; [|discriminate].
           apply (Step _ H). apply lookup_app_other. congruence.
Qed.

(* a merge that changes nothing: every entry of b finds a value it leaves alone *)
Lemma merge_entries_fixpoint fl : forall eb acc,
  (forall k vb, In (k, vb) eb -> exists v, lookup acc k = Some v /\ mv fl (Some v) vb = Some v) ->
  merge_entries fl acc eb = Some acc.
Proof.
  induction eb as [|[k vb] r IH]; intros acc H; [reflexivity|].
  rewrite merge_entries_cons.
  destruct (H k vb (or_introl eq_refl)) as (v & Hl & Hv). rewrite Hl, Hv, (replace_id _ _ _ Hl).
  apply IH. intros k' vb' Hin. apply H. right. assumption.
Qed.

(* merging onto nothing: b's entries are appended one by one *)
Lemma merge_entries_fresh fl : f_existing fl = false -> forall eb acc,
  NoDup (keys eb) -> (forall k, In k (keys eb) -> ~ In k (keys acc)) ->
  (forall k vb, In (k, vb) eb -> mv fl None vb = Some vb) ->
  merge_entries fl acc eb = Some (acc ++ eb).
Proof.
  intros Hex. induction eb as [|[k vb] r IH]; intros acc Hnd Hdis Hv.
  - cbn. rewrite app_nil_r. reflexivity.
  - cbn [keys map fst] in Hnd. inversion Hnd as [|x l Hni Hnd']; subst.
    rewrite merge_entries_cons.
    assert (lookup acc k = None) as -> by (apply lookup_none; apply Hdis; left; reflexivity).
    rewrite Hex, (Hv k vb (or_introl eq_refl)).
    rewrite IH.
    + rewrite <- app_assoc. reflexivity.
    + exact Hnd'.
    + intros k' Hk'. rewrite keys_app. cbn. intros Hin. apply in_app_or in Hin as [Hin|[Hin|[]]].
      * apply (Hdis k'); [right; exact Hk' | exact Hin].
      * subst k'. contradiction.
    + intros k' vb' Hin. apply (Hv k' vb'). right. assumption.
Qed.

Lemma merge_entries_existing_nil fl : f_existing fl = true -> forall eb, merge_entries fl [] eb = Some [].
Proof.
  intros Hex. induction eb as [|[k vb] r IH]; [reflexivity|].
  rewrite merge_entries_cons. cbn [lookup]. rewrite Hex. exact IH.
Qed.

(* ---------- items by position ---------- *)
Lemma merge_items_fixpoint fl : forall l,
  (forall kc, In kc l -> mv fl (Some (snd kc)) (snd kc) = Some (snd kc)) -> merge_items fl l l = Some l.
Proof.
  induction l as [|[k v] r IH]; intros H; [reflexivity|].
  rewrite merge_items_cons_cons. pose proof (H (k, v) (or_introl eq_refl)) as Hh. cbn [snd] in Hh. rewrite Hh.
  rewrite IH; [reflexivity|]. intros kc Hin. apply H. right. assumption.
Qed.

Lemma merge_items_fresh fl : forall l,
  (forall kc, In kc l -> mv fl None (snd kc) = Some (snd kc)) -> merge_items fl [] l = Some l.
Proof.
  induction l as [|[k v] r IH]; intros H; [reflexivity|].
  rewrite merge_items_cons_nil. pose proof (H (k, v) (or_introl eq_refl)) as Hh. cbn [snd] in Hh. rewrite Hh.
  rewrite IH; [reflexivity|]. intros kc Hin. apply H. right. assumption.
Qed.

Definition item_spec (fl : flags) (la lb lr : items) (i : nat) : Prop :=
  match nth_error lb i with
  | None => nth_error lr i = nth_error la i
  | Some (kb, vb) =>
      match nth_error la i with
      | Some (ka, va) => exists v, mv fl (Some va) vb = Some v /\ nth_error lr i = Some (ka, v)
      | None => exists v, mv fl None vb = Some v /\ nth_error lr i = Some (kb, v)
      end
  end.

Lemma merge_items_nth fl : forall lb la lr,
  merge_items fl la lb = Some lr ->
  length lr = Nat.max (length la) (length lb) /\ forall i, item_spec fl la lb lr i.
Proof.
  induction lb as [|[kb vb] rb IH]; intros la lr H.
  - rewrite merge_items_nil in H. injection H as <-. split; [symmetry; apply Nat.max_0_r|].
    intros i. unfold item_spec. destruct i; reflexivity.
  - destruct la as [|[ka va] ra].
    + rewrite merge_items_cons_nil in H.
      destruct (mv fl None vb) as [v|] eqn:Ev; [|discriminate].
      destruct (merge_items fl [] rb) as [r|] eqn:Er; [|discriminate]. injection H as <-.
      destruct (IH _ _ Er) as [Hlen Hnth]. split; [cbn in *; rewrite Hlen; reflexivity|].
      intros [|i]; unfold item_spec; cbn.
      * exists v. split; [exact Ev | reflexivity].
      * specialize (Hnth i). unfold item_spec in Hnth. destruct (nth_error rb i) as [[kb' vb']|].
        -- replace (nth_error (@nil (rkey * node)) i) with (@None (rkey * node)) in Hnth by (destruct i; reflexivity). exact Hnth.
        -- rewrite Hnth. destruct i; reflexivity.
    + rewrite merge_items_cons_cons in H.
      destruct (mv fl (Some va) vb) as [v|] eqn:Ev; [|discriminate].
      destruct (merge_items fl ra rb) as [r|] eqn:Er; [|discriminate]. injection H as <-.
      destruct (IH _ _ Er) as [Hlen Hnth]. split; [cbn; rewrite Hlen; reflexivity|].
      intros [|i]; unfold item_spec; cbn.
      * exists v. split; [exact Ev | reflexivity].
      * exact (Hnth i).
Qed.

(* ---------- theorems ---------- *)
Theorem entries_order fl ea eb r :
  NoDup (keys eb) -> merge fl (Map ea) (Map eb) = Some r ->
  exists er, r = Map er /\ keys er = keys ea ++ (if f_existing fl then [] else new_keys (keys ea) (keys eb)).
Proof.
  intros Hnd H. rewrite merge_map_map in H.
  destruct (merge_entries fl ea eb) as [er|] eqn:E; [|discriminate]. injection H as <-.
  exists er. split; [reflexivity | eapply merge_entries_keys; eassumption].
Qed.

Theorem common_keys fl ea eb er :
  NoDup (keys eb) -> merge fl (Map ea) (Map eb) = Some (Map er) -> forall k, entry_spec fl ea eb er k.
Proof.
  intros Hnd H. rewrite merge_map_map in H.
  destruct (merge_entries fl ea eb) as [er'|] eqn:E; [|discriminate]. injection H as <-.
  eapply merge_entries_lookup; eassumption.
Qed.

Lemma ukeys_lookup es k v : ukeys (Map es) -> lookup es k = Some v -> ukeys v.
Proof.
  intros H Hl. inversion H as [| |es' Hnd Hall]; subst.
  rewrite Forall_forall in Hall. exact (Hall (k, v) (lookup_in _ _ _ Hl)).
Qed.

(* key order at every level where both operands are maps *)
Theorem entries_order_deep fl : forall p a b r ea' eb',
  ukeys b -> merge fl a b = Some r ->
  get_keys p a = Some (Map ea') -> get_keys p b = Some (Map eb') ->
  exists er', get_keys p r = Some (Map er') /\
              keys er' = keys ea' ++ (if f_existing fl then [] else new_keys (keys ea') (keys eb')).
Proof.
  induction p as [|k p IH]; intros a b r ea' eb' Hu H Ha Hb.
  - cbn in Ha, Hb. injection Ha as ->. injection Hb as ->.
    inversion Hu as [| |es' Hnd Hall]; subst.
    destruct (entries_order _ _ _ _ Hnd H) as (er & -> & Hk). exists er. split; [reflexivity | exact Hk].
  - cbn in Ha, Hb. destruct a as [| |ea]; try discriminate. destruct b as [| |eb]; try discriminate.
    destruct (lookup ea k) as [va|] eqn:Ea; [|discriminate].
    destruct (lookup eb k) as [vb|] eqn:Eb; [|discriminate].
    inversion Hu as [| |es' Hnd Hall]; subst.
    destruct (entries_order _ _ _ _ Hnd H) as (er & -> & _).
    pose proof (common_keys _ _ _ _ Hnd H k) as S. unfold entry_spec in S. rewrite Eb, Ea in S.
    destruct S as (v & Hv & Hl). cbn. rewrite Hl.
    apply (IH va vb v ea' eb'); [eapply ukeys_lookup; eassumption | exact Hv | exact Ha | exact Hb].
Qed.

(* a's own keys keep their value; b's own keys are written unless `?` *)
Theorem only_a_keys fl ea eb er k :
  NoDup (keys eb) -> merge fl (Map ea) (Map eb) = Some (Map er) -> lookup eb k = None -> lookup er k = lookup ea k.
Proof.
  intros Hnd H Hb. pose proof (common_keys _ _ _ _ Hnd H k) as S. unfold entry_spec in S. rewrite Hb in S. exact S.
Qed.

(* the fresh copy is b itself, unless `?` (nothing is created below) *)
Lemma fresh_id fl : f_existing fl = false -> forall b, ukeys b -> mv fl None b = Some b.
Proof.
  intros Hex. induction b as [t v | l IH | es IH] using node_ind'; intros Hu.
  - reflexivity.
  - inversion Hu as [|l' Hall|]; subst. rewrite Forall_forall in IH, Hall.
    cbn [mv]. destruct (f_deep fl && negb (f_append fl)); [|reflexivity].
    change (items_with (mv fl) [] l) with (merge_items fl [] l).
    rewrite merge_items_fresh; [reflexivity|]. intros kc Hin. apply IH; [exact Hin | apply Hall; exact Hin].
  - inversion Hu as [| |es' Hnd Hall]; subst. rewrite Forall_forall in IH, Hall.
    rewrite mv_fresh_map. rewrite (merge_entries_fresh fl Hex es [] Hnd); [reflexivity | intros k _ [] |].
    intros k vb Hin. apply (IH (k, vb) Hin). apply (Hall (k, vb) Hin).
Qed.

Theorem empty_identity_right fl ea : merge fl (Map ea) (Map []) = Some (Map ea).
Proof. reflexivity. Qed.

Theorem empty_identity_left fl eb :
  f_existing fl = false -> ukeys (Map eb) -> merge fl (Map []) (Map eb) = Some (Map eb).
Proof.
  intros Hex Hu. pose proof (fresh_id fl Hex (Map eb) Hu) as H. rewrite mv_fresh_map in H.
  rewrite merge_map_map. exact H.
Qed.

Theorem empty_left_existing fl eb : f_existing fl = true -> merge fl (Map []) (Map eb) = Some (Map []).
Proof. intros Hex. rewrite merge_map_map, merge_entries_existing_nil by assumption. reflexivity. Qed.

(* a * a = a whenever `+` is off *)
Theorem idempotent fl : f_append fl = false -> forall a, ukeys a -> merge fl a a = Some a.
Proof.
  intros Hap. unfold merge. induction a as [t v | l IH | es IH] using node_ind'; intros Hu.
  - cbn. destruct (writable fl (Scalar t v)); reflexivity.
  - inversion Hu as [|l' Hall|]; subst. rewrite Forall_forall in IH, Hall.
    assert (merge_items fl l l = Some l) as Hm.
    { apply merge_items_fixpoint. intros kc Hin. apply IH; [exact Hin | apply Hall; exact Hin]. }
    cbn [mv]. rewrite Hap. cbn [negb]. rewrite andb_true_r.
    change (items_with (mv fl) l l) with (merge_items fl l l). rewrite Hm.
    destruct (f_new fl), (f_deep fl); reflexivity.
  - inversion Hu as [| |es' Hnd Hall]; subst. rewrite Forall_forall in IH, Hall.
    change (mv fl (Some (Map es)) (Map es)) with (merge fl (Map es) (Map es)). rewrite merge_map_map.
    rewrite merge_entries_fixpoint; [reflexivity|].
    intros k vb Hin. exists vb. split; [apply lookup_in_nodup; assumption|].
    apply (IH (k, vb) Hin). apply (Hall (k, vb) Hin).
Qed.

(* merging b in a second time changes nothing (default flags) *)
Lemma absorb_gen : forall b, ukeys b -> forall t v, mv fl0 t b = Some v -> mv fl0 (Some v) b = Some v.
Proof.
  induction b as [tg tx | l IH | es IH] using node_ind'; intros Hu t v H.
  - assert (v = Scalar tg tx) as ->.
    { destruct t as [[| |]|]; cbn in H; congruence. }
    reflexivity.
  - assert (v = Seq l) as ->.
    { destruct t as [[| |]|]; cbn in H; congruence. }
    reflexivity.
  - inversion Hu as [| |es' Hnd Hall]; subst. rewrite Forall_forall in IH, Hall.
    assert (exists acc er, merge_entries fl0 acc es = Some er /\ v = Map er) as (acc & er & Hm & ->).
    { destruct t as [[| |ea]|]; cbn [mv flagged fl0 f_append f_existing f_new orb] in H;
        match type of H with option_map Map (entries_with fl0 (mv fl0) ?a es) = _ =>
          change (entries_with fl0 (mv fl0) a es) with (merge_entries fl0 a es) in H;
          destruct (merge_entries fl0 a es) as [er|] eqn:E; [|discriminate]; injection H as <-; exists a, er; split; [exact E | reflexivity]
        end. }
    change (mv fl0 (Some (Map er)) (Map es)) with (merge fl0 (Map er) (Map es)). rewrite merge_map_map.
    rewrite merge_entries_fixpoint; [reflexivity|].
    intros k vb Hin.
    pose proof (merge_entries_lookup fl0 es acc er Hnd Hm k) as S. unfold entry_spec in S.
    rewrite (lookup_in_nodup _ _ _ Hnd Hin) in S.
    destruct (lookup acc k) as [va|].
    + destruct S as (v' & Hv' & Hl). exists v'. split; [exact Hl|].
      exact (IH (k, vb) Hin (Hall (k, vb) Hin) _ _ Hv').
    + cbn in S. destruct S as (v' & Hv' & Hl). exists v'. split; [exact Hl|].
      exact (IH (k, vb) Hin (Hall (k, vb) Hin) _ _ Hv').
Qed.

Theorem absorb a b r : ukeys b -> merge fl0 a b = Some r -> merge fl0 r b = Some r.
Proof. intros Hu H. exact (absorb_gen b Hu _ _ H). Qed.

(* ---------- what a common key gets ---------- *)
Theorem common_map_map fl ea eb : mv fl (Some (Map ea)) (Map eb) = merge fl (Map ea) (Map eb).
Proof. reflexivity. Qed.

(* default flags: anything but map-on-map takes b's value *)
Theorem default_takes_b va vb : kind_of vb <> KMap -> mv fl0 (Some va) vb = Some vb.
Proof. intros H. destruct vb as [t v|l|es]; [| |contradiction H; reflexivity]; destruct va; reflexivity. Qed.

Theorem default_map_over_other va eb : kind_of va <> KMap -> ukeys (Map eb) -> mv fl0 (Some va) (Map eb) = Some (Map eb).
Proof.
  intros H Hu. pose proof (fresh_id fl0 eq_refl (Map eb) Hu) as F.
  destruct va as [t v|l|es]; [exact F | exact F | contradiction H; reflexivity].
Qed.

(* without `+ ? n` a kind clash clears the old value: b's value is written as onto a fresh position *)
Theorem clash_is_fresh fl va vb : flagged fl = false -> kind_of va <> kind_of vb -> mv fl (Some va) vb = mv fl None vb.
Proof.
  intros Hf Hk.
  assert (f_append fl = false) as Ha.
  { unfold flagged in Hf. destruct (f_append fl); [discriminate | reflexivity]. }
  destruct vb as [t v|l|es], va as [t' v'|l'|es']; cbn [mv kind_of]; rewrite ?Hf, ?Ha; cbn [negb]; rewrite ?andb_true_r;
    try reflexivity; contradiction Hk; reflexivity.
Qed.

Theorem seq_replaced fl la lb :
  f_append fl = false -> f_deep fl = false -> f_new fl = false -> mv fl (Some (Seq la)) (Seq lb) = Some (Seq lb).
Proof. intros H1 H2 H3. cbn [mv]. rewrite H1, H2, H3. reflexivity. Qed.

(* `+` appends, with or without `d` *)
Theorem seq_appended fl la lb :
  f_append fl = true -> f_new fl = false -> mv fl (Some (Seq la)) (Seq lb) = Some (Seq (la ++ lb)).
Proof. intros H1 H3. cbn [mv]. rewrite H1, H3. reflexivity. Qed.

Theorem seq_by_position fl la lb r :
  f_append fl = false -> f_deep fl = true -> mv fl (Some (Seq la)) (Seq lb) = Some r ->
  exists lr, r = Seq lr /\ length lr = Nat.max (length la) (length lb) /\ forall i, item_spec fl la lb lr i.
Proof.
  intros H1 H2 H. cbn [mv] in H. rewrite H1, H2 in H. cbn [negb andb] in H.
  change (items_with (mv fl) la lb) with (merge_items fl la lb) in H.
  assert (option_map Seq (merge_items fl la lb) = Some r) as H' by (destruct (f_new fl); exact H).
  destruct (merge_items fl la lb) as [lr|] eqn:E; [|discriminate]. injection H' as <-.
  exists lr. split; [reflexivity | exact (merge_items_nth fl lb la lr E)].
Qed.

(* ---------- `?` and `n` ---------- *)
Theorem only_existing fl ea eb er :
  f_existing fl = true -> NoDup (keys eb) -> merge fl (Map ea) (Map eb) = Some (Map er) ->
  keys er = keys ea /\ forall k, lookup ea k = None -> lookup er k = None.
Proof.
  intros Hex Hnd H. split.
  - destruct (entries_order _ _ _ _ Hnd H) as (er' & Heq & Hk). injection Heq as <-. rewrite Hk, Hex. apply app_nil_r.
  - intros k Ha. pose proof (common_keys _ _ _ _ Hnd H k) as S. unfold entry_spec in S. rewrite Ha, Hex in S.
    destruct (lookup eb k); [exact S | congruence].
Qed.

(* under `n` an existing value that is not null is kept: scalars always, sequences unless `d` visits their items *)
Theorem keeps_existing_value fl va vb :
  f_new fl = true -> is_null va = false ->
  (kind_of va = KScalar /\ kind_of vb = KScalar) \/ (kind_of va = KSeq /\ kind_of vb = KSeq /\ f_deep fl = false) ->
  mv fl (Some va) vb = Some va.
Proof.
  intros Hn Hnull [[Ha Hb]|(Ha & Hb & Hd)]; destruct va as [t v|l|es]; try discriminate; destruct vb as [t' v'|l'|es']; try discriminate.
  - cbn [mv kind_of]. unfold writable. rewrite Hn, Hnull. reflexivity.
  - cbn [mv]. rewrite Hn, Hd. reflexivity.
Qed.

Theorem only_new fl ea eb er k va vb :
  f_new fl = true -> NoDup (keys eb) -> merge fl (Map ea) (Map eb) = Some (Map er) ->
  lookup ea k = Some va -> lookup eb k = Some vb -> is_null va = false ->
  (kind_of va = KScalar /\ kind_of vb = KScalar) \/ (kind_of va = KSeq /\ kind_of vb = KSeq /\ f_deep fl = false) ->
  lookup er k = Some va.
Proof.
  intros Hn Hnd H Ha Hb Hnull Hk.
  pose proof (common_keys _ _ _ _ Hnd H k) as S. unfold entry_spec in S. rewrite Hb, Ha in S.
  destruct S as (v & Hv & Hl). rewrite (keeps_existing_value fl va vb Hn Hnull Hk) in Hv. congruence.
Qed.

(* a key only b has is written in full under `n` (unless `?`) *)
Theorem only_new_writes_new fl ea eb er k vb :
  f_existing fl = false -> ukeys (Map eb) ->
  merge fl (Map ea) (Map eb) = Some (Map er) -> lookup ea k = None -> lookup eb k = Some vb -> lookup er k = Some vb.
Proof.
  intros Hex Hu H Ha Hb. inversion Hu as [| |es' Hnd Hall]; subst.
  pose proof (common_keys _ _ _ _ Hnd H k) as S. unfold entry_spec in S. rewrite Hb, Ha, Hex in S.
  destruct S as (v & Hv & Hl). rewrite (fresh_id fl Hex vb (ukeys_lookup _ _ _ Hu Hb)) in Hv. congruence.
Qed.

(* ---------- the multi-document reduce ---------- *)
Theorem merge_all_nil fl : merge_all fl [] = Some (Map []).
Proof. reflexivity. Qed.

Theorem merge_all_snoc fl ds d : merge_all fl (ds ++ [d]) = merge_step fl (merge_all fl ds) d.
Proof. unfold merge_all. rewrite fold_left_app. reflexivity. Qed.

Theorem merge_all_app fl ds1 ds2 : merge_all fl (ds1 ++ ds2) = fold_left (merge_step fl) ds2 (merge_all fl ds1).
Proof. unfold merge_all. apply fold_left_app. Qed.

Theorem merge_all_two fl d1 d2 :
  merge_all fl [d1; d2] = match merge fl (Map []) d1 with Some m => merge fl m d2 | None => None end.
Proof. reflexivity. Qed.

Theorem merge_all_single fl eb :
  f_existing fl = false -> ukeys (Map eb) -> merge_all fl [Map eb] = Some (Map eb).
Proof. intros Hex Hu. cbn. apply empty_identity_left; assumption. Qed.

(* ---------- `+d` is `+` ---------- *)
Lemma entries_with_ext fl fl' (rec rec' : option node -> node -> option node) :
  f_existing fl = f_existing fl' -> forall eb acc,
  (forall k vb, In (k, vb) eb -> forall t, rec t vb = rec' t vb) ->
  entries_with fl rec acc eb = entries_with fl' rec' acc eb.
Proof.
  intros Hex. induction eb as [|[k vb] r IH]; intros acc H; [reflexivity|].
  cbn [entries_with]. rewrite <- Hex.
  assert (forall acc', entries_with fl rec acc' r = entries_with fl' rec' acc' r) as IH'.
  { intros acc'. apply IH. intros k' vb' Hin. apply (H k' vb'). right. exact Hin. }
  destruct (lookup acc k) as [va|].
  - rewrite <- (H k vb (or_introl eq_refl) (Some va)). destruct (rec (Some va) vb); [apply IH' | reflexivity].
  - destruct (f_existing fl); [apply IH'|].
    rewrite <- (H k vb (or_introl eq_refl) None). destruct (rec None vb); [apply IH' | reflexivity].
Qed.

Definition no_deep (fl : flags) : flags := mkFlags (f_append fl) false (f_existing fl) (f_new fl).

Theorem append_ignores_deep fl : f_append fl = true -> forall b t, mv fl t b = mv (no_deep fl) t b.
Proof.
  intros Hap. induction b as [tg tx | l IH | es IH] using node_ind'; intros t.
  - destruct t as [[| |]|]; cbn [mv kind_of]; unfold flagged, writable, no_deep; cbn [f_append f_existing f_new]; reflexivity.
  - destruct t as [[| |]|]; cbn [mv]; unfold flagged, no_deep; cbn [f_append f_existing f_new f_deep]; rewrite Hap; cbn [negb orb];
      rewrite ?andb_false_r; try reflexivity; try (destruct (f_new fl); reflexivity).
  - rewrite Forall_forall in IH.
    assert (forall acc, entries_with fl (mv fl) acc es = entries_with (no_deep fl) (mv (no_deep fl)) acc es) as E.
    { intros acc. apply entries_with_ext; [reflexivity|]. intros k vb Hin t'. exact (IH (k, vb) Hin t'). }
    destruct t as [[| |]|]; cbn [mv]; rewrite ?E; unfold flagged, no_deep; cbn [f_append f_existing f_new]; reflexivity.
Qed.

(* one new key, whatever characters it contains, is appended with b's value *)
Theorem new_single_key_appended fl ea k vb r :
  f_existing fl = false -> lookup ea k = None -> ukeys vb ->
  merge fl (Map ea) (Map [(k, vb)]) = Some r -> r = Map (ea ++ [(k, vb)]).
Proof.
  intros Hex Hl Hu H. rewrite merge_map_map, merge_entries_cons, Hl, Hex, (fresh_id fl Hex vb Hu), merge_entries_nil in H.
  cbn in H. congruence.
Qed.
