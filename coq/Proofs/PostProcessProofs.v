(* Proofs/PostProcessProofs.v — postProcessTokens on the raw spelling of the
   grammar gives exactly the token list of Spec/PrecGrammar.v. *)
From Coq Require Import String.
From YQ Require Import Base.Str Gen.OpTable Model.Postfix Model.Tree Model.PostProcess
  Spec.PrecGrammar Spec.PrecRaw Proofs.PostfixProofs.
Open Scope N_scope.

Section RawProofs.
Variable cptf : op -> bool.

Notation rleaf := (rleaf cptf).
Notation rrender := (rrender cptf).
Notation firstr := (firstr cptf).
Notation lastr := (lastr cptf).
Notation rok := (rok cptf).

(* shapes of first / last raw tokens *)
Definition last_shape (t : rtok) : Prop :=
  (exists o c, t = ROp o None c /\ type_is create_map_type o = false) \/ (exists b opt, t = RClose b opt).
Definition first_shape (t : rtok) : Prop :=
  (exists o c, t = ROp o None c /\ type_is create_map_type o = false) \/ (exists b, t = ROpen b).

Lemma lastr_shape e : rok e -> last_shape (lastr e).
Proof.
  induction e as [o|f x IHx|o a IHa b IHb|a IHa|a IHa opt|a IHa|ta a IHa i IHi opt];
    intro H; cbn [PrecRaw.rok PrecRaw.lastr] in *.
  - left. exists o, (cptf o). split; [reflexivity | exact H].
  - right. eexists; eexists; reflexivity.
  - apply IHb. tauto.
  - right. eexists; eexists; reflexivity.
  - right. eexists; eexists; reflexivity.
  - right. eexists; eexists; reflexivity.
  - right. eexists; eexists; reflexivity.
Qed.

Lemma firstr_shape e : rok e -> first_shape (firstr e).
Proof.
  induction e as [o|f x IHx|o a IHa b IHb|a IHa|a IHa opt|a IHa|ta a IHa i IHi opt];
    intro H; cbn [PrecRaw.rok PrecRaw.firstr] in *.
  - left. exists o, (cptf o). split; [reflexivity | exact H].
  - left. exists f, (cptf f). split; [reflexivity | tauto].
  - apply IHa. tauto.
  - right. eexists; reflexivity.
  - right. eexists; reflexivity.
  - right. eexists; reflexivity.
  - apply IHa. tauto.
Qed.

Lemma hd_rrender e rest : hd_error (rrender e ++ rest) = Some (firstr e).
Proof.
  revert rest.
  induction e as [o|f x IHx|o a IHa b IHb|a IHa|a IHa opt|a IHa|ta a IHa i IHi opt];
    intro rest; cbn [PrecRaw.rrender PrecRaw.firstr app hd_error]; try reflexivity.
  - destruct (is_sp o); rewrite <- app_assoc; apply IHa.
  - rewrite <- app_assoc. apply IHa.
Qed.

(* what handleToken appends after a token, by the shape of the neighbours *)
Lemma tail_last_op l o c :
  last_shape l -> type_is traverse_path_type o = false -> tail_ins l (Some (ROp o None c)) = [].
Proof.
  intros [(q & d & -> & Hq)|(b & opt & ->)] Ho; unfold tail_ins; cbn [rtok_is_op rtok_cpt].
  - rewrite Hq, Ho. rewrite andb_false_r. reflexivity.
  - rewrite Ho. cbn [orb andb]. reflexivity.
Qed.

Lemma tail_op_first o n :
  first_shape n -> tail_ins (ROp o None false) (Some n) = [].
Proof.
  intros [(q & d & -> & Hq)|(b & ->)]; unfold tail_ins; cbn [rtok_is_op rtok_cpt andb app].
  - destruct (type_is create_map_type o); reflexivity.
  - destruct (type_is create_map_type o); destruct b; reflexivity.
Qed.

Lemma tail_open_first b n : first_shape n -> tail_ins (ROpen b) (Some n) = [].
Proof.
  intros [(q & d & -> & Hq)|(b' & ->)]; unfold tail_ins; cbn [rtok_is_op rtok_cpt andb app].
  - destruct b; reflexivity.
  - destruct b, b'; reflexivity.
Qed.

Lemma tail_fn_paren f c : type_is create_map_type f = false -> tail_ins (ROp f None c) (Some (ROpen BParen)) = [].
Proof.
  intro Hf. unfold tail_ins; cbn [rtok_is_op rtok_cpt]. rewrite Hf.
  cbn [orb]. rewrite andb_false_r. reflexivity.
Qed.

Lemma tail_last_close l b opt : last_shape l -> tail_ins l (Some (RClose b opt)) = [].
Proof.
  intros [(q & d & -> & Hq)|(b' & opt' & ->)]; unfold tail_ins; cbn [rtok_is_op rtok_cpt].
  - rewrite Hq. cbn [orb]. rewrite andb_false_r. reflexivity.
  - cbn [orb andb]. reflexivity.
Qed.

Lemma tail_last_path l n :
  last_shape l -> rtok_cpt l = true -> rtok_is_op traverse_path_type n = true ->
  tail_ins l (Some n) = [TOp short_pipe_inserted].
Proof.
  intros Hl Hc Hn.
  destruct n as [p pa pc|b|b opt|]; cbn [rtok_is_op] in Hn; try discriminate.
  destruct Hl as [(q & d & -> & Hq)|(b' & opt' & ->)]; unfold tail_ins; cbn [rtok_is_op rtok_cpt] in *.
  - rewrite Hq, Hc, Hn. reflexivity.
  - rewrite Hn. reflexivity.
Qed.

Lemma tail_last_index l :
  last_shape l -> rtok_cpt l = true -> tail_ins l (Some (ROpen BCollect)) = [TOp ta_inserted_post].
Proof.
  intros Hl Hc.
  destruct Hl as [(q & d & -> & Hq)|(b' & opt' & ->)]; unfold tail_ins; cbn [rtok_is_op rtok_cpt] in *.
  - rewrite Hq, Hc. reflexivity.
  - reflexivity.
Qed.

Lemma tail_none l : last_shape l -> tail_ins l None = [].
Proof.
  intros [(q & d & -> & Hq)|(b' & opt' & ->)]; unfold tail_ins; cbn [rtok_is_op rtok_cpt].
  - rewrite Hq. reflexivity.
  - reflexivity.
Qed.

(* one step of postProcessTokens on a token without rewrites *)
Lemma pp_op prev o c rest :
  (type_is create_map_type o = false \/ prev <> Some RTraverseArrayCollect) ->
  post_process_from prev (ROp o None c :: rest) false =
  TOp o :: tail_ins (ROp o None c) (hd_error rest) ++ post_process_from (Some (ROp o None c)) rest false.
Proof.
  intro H. cbn [post_process_from]. unfold handle_token. cbn [rtok_is_op tok_of_rtok app].
  destruct (type_is create_map_type o) eqn:E.
  - destruct H as [H|H]; [discriminate|].
    destruct prev as [[| | |]|]; try reflexivity. exfalso. apply H. reflexivity.
  - reflexivity.
Qed.

Lemma pp_open prev b rest :
  post_process_from prev (ROpen b :: rest) false =
  TOpen b :: tail_ins (ROpen b) (hd_error rest) ++ post_process_from (Some (ROpen b)) rest false.
Proof. reflexivity. Qed.

Lemma pp_close prev b opt rest :
  post_process_from prev (RClose b opt :: rest) false =
  TClose b opt :: tail_ins (RClose b opt) (hd_error rest) ++ post_process_from (Some (RClose b opt)) rest false.
Proof. reflexivity. Qed.

Lemma last_shape_not_tac l : last_shape l -> Some l <> Some RTraverseArrayCollect.
Proof. intros [(q & d & -> & _)|(b & opt & ->)]; discriminate. Qed.

(* main statement: the raw spelling post-processes to the token list of the
   grammar, followed by whatever the LAST token triggers with its successor *)
Lemma pp_rrender e : rok e -> forall prev rest,
  post_process_from prev (rrender e ++ rest) false =
  render e ++ tail_ins (lastr e) (hd_error rest) ++ post_process_from (Some (lastr e)) rest false.
Proof.
  induction e as [o|f x IHx|o a IHa b IHb|a IHa|a IHa opt|a IHa|ta a IHa i IHi opt];
    intros Hok prev rest; cbn [PrecRaw.rok] in Hok.
  - (* leaf *)
    cbn [PrecRaw.rrender PrecRaw.lastr render app]. unfold rleaf, PrecRaw.rleaf.
    rewrite pp_op by (left; exact Hok). reflexivity.
  - (* f ( x ) *)
    destruct Hok as [Hf Hx].
    cbn [PrecRaw.rrender PrecRaw.lastr render app]. unfold rleaf, PrecRaw.rleaf.
    rewrite pp_op by (left; exact Hf). cbn [hd_error].
    rewrite (tail_fn_paren f (cptf f) Hf). cbn [app].
    rewrite pp_open. rewrite <- app_assoc. rewrite hd_rrender.
    rewrite (tail_open_first BParen _ (firstr_shape x Hx)). cbn [app].
    rewrite (IHx Hx). cbn [app hd_error].
    rewrite (tail_last_close _ BParen false (lastr_shape x Hx)). cbn [app].
    rewrite pp_close. rewrite <- app_assoc. reflexivity.
  - (* a o b *)
    destruct Hok as (Ha & Hb & Ho).
    cbn [PrecRaw.rrender PrecRaw.lastr render].
    destruct (is_sp o) eqn:Esp.
    + destruct Ho as (-> & Hc & Hp).
      rewrite <- app_assoc. rewrite (IHa Ha). rewrite hd_rrender.
      rewrite (tail_last_path _ _ (lastr_shape a Ha) Hc Hp).
      rewrite (IHb Hb). rewrite <- !app_assoc. reflexivity.
    + destruct Ho as (Hc & Hp).
      rewrite <- app_assoc. cbn [app]. rewrite (IHa Ha). cbn [hd_error].
      unfold rleaf, PrecRaw.rleaf. rewrite Hc.
      rewrite (tail_last_op _ o false (lastr_shape a Ha) Hp). cbn [app].
      rewrite pp_op by (right; apply last_shape_not_tac; apply lastr_shape; exact Ha).
      rewrite hd_rrender. rewrite (tail_op_first o _ (firstr_shape b Hb)). cbn [app].
      rewrite (IHb Hb). rewrite <- !app_assoc. reflexivity.
  - (* ( a ) *)
    cbn [PrecRaw.rrender PrecRaw.lastr render app].
    rewrite pp_open. rewrite <- app_assoc. rewrite hd_rrender.
    rewrite (tail_open_first BParen _ (firstr_shape a Hok)). cbn [app].
    rewrite (IHa Hok). cbn [app hd_error].
    rewrite (tail_last_close _ BParen false (lastr_shape a Hok)). cbn [app].
    rewrite pp_close. rewrite <- app_assoc. reflexivity.
  - (* [ a ] *)
    cbn [PrecRaw.rrender PrecRaw.lastr render app].
    rewrite pp_open. rewrite <- app_assoc. rewrite hd_rrender.
    rewrite (tail_open_first BCollect _ (firstr_shape a Hok)). cbn [app].
    rewrite (IHa Hok). cbn [app hd_error].
    rewrite (tail_last_close _ BCollect opt (lastr_shape a Hok)). cbn [app].
    rewrite pp_close. rewrite <- app_assoc. reflexivity.
  - (* { a } *)
    cbn [PrecRaw.rrender PrecRaw.lastr render app].
    rewrite pp_open. rewrite <- app_assoc. rewrite hd_rrender.
    rewrite (tail_open_first BObject _ (firstr_shape a Hok)). cbn [app].
    rewrite (IHa Hok). cbn [app hd_error].
    rewrite (tail_last_close _ BObject false (lastr_shape a Hok)). cbn [app].
    rewrite pp_close. rewrite <- app_assoc. reflexivity.
  - (* a [ i ] *)
    destruct Hok as (Ha & Hi & -> & Hc).
    cbn [PrecRaw.rrender PrecRaw.lastr render].
    rewrite <- app_assoc. cbn [app]. rewrite (IHa Ha). cbn [hd_error].
    rewrite (tail_last_index _ (lastr_shape a Ha) Hc).
    rewrite pp_open. rewrite <- app_assoc. rewrite hd_rrender.
    rewrite (tail_open_first BCollect _ (firstr_shape i Hi)). cbn [app].
    rewrite (IHi Hi). cbn [app hd_error].
    rewrite (tail_last_close _ BCollect opt (lastr_shape i Hi)). cbn [app].
    rewrite pp_close. rewrite <- ?app_assoc. cbn [app]. rewrite <- ?app_assoc. reflexivity.
Qed.

Lemma post_process_rrender e : rok e -> post_process (rrender e) = render e.
Proof.
  intro Hok. unfold post_process.
  rewrite <- (app_nil_r (rrender e)). rewrite (pp_rrender e Hok None []).
  cbn [hd_error post_process_from]. rewrite (tail_none _ (lastr_shape e Hok)).
  rewrite !app_nil_r. reflexivity.
Qed.

Lemma parse_raw_rrender e : okp e -> rok e -> parse_raw (rrender e) = Ok (Some (tree_of e)).
Proof.
  intros Hokp Hrok. unfold parse_raw. rewrite (post_process_rrender e Hrok).
  apply parse_render. exact Hokp.
Qed.

End RawProofs.

(* example: select(.a == 1).b[length]?  from its raw tokens (no SHORT_PIPE,
   no TRAVERSE_ARRAY in the input) *)
Local Open Scope string_scope.
Definition w_cptf (o : op) : bool :=
  str_eqb (o_type o) (o_type w_a) || str_eqb (o_type o) (o_type w_select).
Definition w_b : op := table_op "traversePathOpType" (str_of_string "b").
Definition w_raw_example : pexpr :=
  PBin short_pipe_inserted
    (PUn w_select (PBin w_eq (PLeaf w_a) (PLeaf w_one)))
    (PIndex ta_inserted_post (PLeaf w_b) (PLeaf w_len) true).

Lemma raw_example_ok :
  okp w_raw_example /\ rok w_cptf w_raw_example /\
  List.length (rrender w_cptf w_raw_example) = 10%nat /\
  List.length (render w_raw_example) = 12%nat.
Proof.
  split; [vm_compute; reflexivity|]. split.
  - cbn [rok]. repeat split; vm_compute; reflexivity.
  - split; vm_compute; reflexivity.
Qed.

(* `[1: ]` : the slice default `length` is inserted after `:` before ANY `]`,
   so a create-map operator without right operand in a plain collect is
   accepted (finding colon-close) *)
Definition w_colon : op := table_op "createMapOpType" [].
Definition w_colon_close_raw : list rtok :=
  [ROpen BCollect; ROp w_one None false; ROp w_colon None false; RClose BCollect false].

Lemma colon_close_accepted :
  o_nargs w_colon = 2 /\
  parse_raw w_colon_close_raw =
    Ok (Some (Node collect_op None
               (Some (Node w_colon (Some (Node w_one None None)) (Some (Node length_inserted None None)))))).
Proof. split; vm_compute; reflexivity. Qed.

Lemma colon_close_refuted :
  exists raw o t, List.In (ROp o None false) raw /\ o_nargs o = 2 /\
    List.last raw RTraverseArrayCollect = RClose BCollect false /\
    List.nth 2 raw RTraverseArrayCollect = ROp o None false /\ List.length raw = 4%nat /\
    parse_raw raw = Ok (Some t).
Proof.
  exists w_colon_close_raw, w_colon. eexists.
  split; [right; right; left; reflexivity|].
  split; [exact (proj1 colon_close_accepted)|].
  split; [reflexivity|]. split; [reflexivity|]. split; [reflexivity|].
  exact (proj2 colon_close_accepted).
Qed.
