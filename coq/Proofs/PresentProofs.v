(* Proofs/PresentProofs.v — lemmas about Model/Present.v (property C07). *)
From Coq Require Import List NArith Bool Lia Arith.
From YQ Require Import Base.Str Model.Present.
Import ListNotations.
Open Scope nat_scope.

(* ------------------------------------------------------------------ *)
(* lists                                                               *)
(* ------------------------------------------------------------------ *)
Lemma nth_upd_nth_same {A} (f : A -> A) : forall i (l : list A),
  nth_error (upd_nth i f l) i = option_map f (nth_error l i).
Proof.
  induction i as [|i IH]; intros [|x r]; cbn; try reflexivity. apply IH.
Qed.

Lemma nth_upd_nth_other {A} (f : A -> A) : forall i j (l : list A),
  i <> j -> nth_error (upd_nth i f l) j = nth_error l j.
Proof.
  induction i as [|i IH]; intros [|j] [|x r] H; cbn; try reflexivity; try lia.
  apply IH. lia.
Qed.

Lemma nth_nil {A} k : nth_error (@nil A) k = None.
Proof. destruct k; reflexivity. Qed.

Lemma nth_remove_range_before {A} : forall i w j (l : list A),
  j < i -> nth_error (remove_range i w l) j = nth_error l j.
Proof.
  unfold remove_range. induction i as [|i IH]; intros w j l H; [lia|].
  destruct l as [|x r]; cbn [firstn app].
  - rewrite skipn_nil. reflexivity.
  - destruct j as [|j]; [reflexivity|]. cbn [nth_error]. cbn [Nat.add skipn]. apply IH. lia.
Qed.

Lemma nth_remove_range_after {A} : forall i w j (l : list A),
  i <= j -> nth_error (remove_range i w l) j = nth_error l (j + w).
Proof.
  unfold remove_range. induction i as [|i IH]; intros w j l H.
  - cbn [firstn app Nat.add]. revert j H l. induction w as [|w IHw]; intros j _ l.
    + rewrite Nat.add_0_r. reflexivity.
    + destruct l as [|x r].
      * rewrite skipn_nil, !nth_nil. reflexivity.
      * cbn [skipn]. rewrite IHw by lia. replace (j + S w) with (S (j + w)) by lia. reflexivity.
  - destruct l as [|x r]; cbn [firstn app].
    + rewrite skipn_nil. cbn [app]. rewrite !nth_nil. reflexivity.
    + destruct j as [|j]; [lia|]. cbn [nth_error Nat.add skipn]. apply IH. lia.
Qed.

(* ------------------------------------------------------------------ *)
(* get / update_at                                                     *)
(* ------------------------------------------------------------------ *)
Lemma get_app p : forall r d,
  get (p ++ r) d = match get p d with Some n => get r n | None => None end.
Proof.
  induction p as [|i p IH]; intros r d; cbn [app get]; [reflexivity|].
  destruct (nth_error (n_content d) i); [apply IH|reflexivity].
Qed.

Lemma get_update_target f : forall p d,
  get p (update_at f p d) = option_map f (get p d).
Proof.
  induction p as [|i p IH]; intros [k a v c]; cbn [get update_at n_content]; [reflexivity|].
  rewrite nth_upd_nth_same. destruct (nth_error c i) as [c0|]; cbn [option_map]; [apply IH|reflexivity].
Qed.

(* q is not at or below p: the attributes at q do not move *)
Lemma attrs_update_frame f : forall p q d,
  is_prefix p q = false -> attrs_at q (update_at f p d) = attrs_at q d.
Proof.
  unfold attrs_at. induction p as [|i p IH]; intros q [k a v c] H; [discriminate|].
  destruct q as [|j q]; cbn [update_at get n_content]; [reflexivity|].
  cbn [is_prefix] in H. destruct (Nat.eqb_spec i j) as [->|Hne].
  - cbn [andb] in H. rewrite nth_upd_nth_same.
    destruct (nth_error c j) as [c0|]; cbn [option_map]; [apply IH; exact H|reflexivity].
  - rewrite nth_upd_nth_other by exact Hne. reflexivity.
Qed.

(* q and p on different branches: the whole subtree at q is untouched *)
Lemma get_update_disjoint f : forall p q d,
  is_prefix p q = false -> is_prefix q p = false -> get q (update_at f p d) = get q d.
Proof.
  induction p as [|i p IH]; intros q [k a v c] H1 H2; [discriminate|].
  destruct q as [|j q]; [discriminate|]. cbn [update_at get n_content].
  cbn [is_prefix] in H1, H2. destruct (Nat.eqb_spec i j) as [->|Hne].
  - rewrite Nat.eqb_refl in H2. cbn [andb] in H1, H2. rewrite nth_upd_nth_same.
    destruct (nth_error c j) as [c0|]; cbn [option_map]; [apply IH; assumption|reflexivity].
  - rewrite nth_upd_nth_other by exact Hne. reflexivity.
Qed.

Lemma attrs_update_target f : forall p d,
  (forall n, n_attrs (f n) = n_attrs n) -> attrs_at p (update_at f p d) = attrs_at p d.
Proof.
  intros p d Hf. unfold attrs_at. rewrite get_update_target.
  destruct (get p d) as [n|]; cbn [option_map]; [rewrite Hf|]; reflexivity.
Qed.

(* a change of the children of the node at p seen from below p *)
Lemma get_update_child f : forall p j r d,
  get (p ++ j :: r) (update_at f p d) =
  match get p d with
  | Some n => match nth_error (n_content (f n)) j with Some c => get r c | None => None end
  | None => None
  end.
Proof.
  intros p j r d. rewrite get_app, get_update_target.
  destruct (get p d) as [n|]; reflexivity.
Qed.

Lemma get_child : forall p j r d,
  get (p ++ j :: r) d =
  match get p d with
  | Some n => match nth_error (n_content n) j with Some c => get r c | None => None end
  | None => None
  end.
Proof. intros. rewrite get_app. destruct (get p d); reflexivity. Qed.

(* ------------------------------------------------------------------ *)
(* delete                                                              *)
(* ------------------------------------------------------------------ *)
Lemma delete_children_content i w n :
  n_content (delete_children i w n) = remove_range i w (n_content n).
Proof. destruct n; reflexivity. Qed.

Lemma delete_children_attrs i w n : n_attrs (delete_children i w n) = n_attrs n.
Proof. destruct n; reflexivity. Qed.

Lemma get_delete_before parent i w j r d :
  j < i -> get (parent ++ j :: r) (delete_at parent i w d) = get (parent ++ j :: r) d.
Proof.
  intros H. unfold delete_at. rewrite get_update_child, get_child.
  destruct (get parent d) as [n|]; [|reflexivity].
  rewrite delete_children_content, nth_remove_range_before by exact H. reflexivity.
Qed.

Lemma get_delete_after parent i w j r d :
  i <= j -> get (parent ++ j :: r) (delete_at parent i w d) = get (parent ++ (j + w) :: r) d.
Proof.
  intros H. unfold delete_at. rewrite get_update_child, get_child.
  destruct (get parent d) as [n|]; [|reflexivity].
  rewrite delete_children_content, nth_remove_range_after by exact H. reflexivity.
Qed.

Lemma delete_siblings parent i w d :
  option_map n_content (get parent (delete_at parent i w d)) =
  option_map (fun n => remove_range i w (n_content n)) (get parent d).
Proof.
  unfold delete_at. rewrite get_update_target. destruct (get parent d) as [n|]; cbn [option_map]; [|reflexivity].
  rewrite delete_children_content. reflexivity.
Qed.

(* ------------------------------------------------------------------ *)
(* append / key creation                                               *)
(* ------------------------------------------------------------------ *)
Lemma get_append_existing items p j r d n :
  get p d = Some n -> j < length (n_content n) ->
  get (p ++ j :: r) (update_at (append_children items) p d) = get (p ++ j :: r) d.
Proof.
  intros Hn Hj. rewrite get_update_child, get_child, Hn.
  destruct n as [k a v c]. cbn [append_children n_content] in *.
  rewrite nth_error_app1 by exact Hj. reflexivity.
Qed.

Lemma get_create_key_existing key value p j r d n :
  get p d = Some n -> j < length (n_content n) ->
  get (p ++ j :: r) (update_at (create_key key value) p d) = get (p ++ j :: r) d.
Proof.
  intros Hn Hj. rewrite get_update_child, get_child, Hn.
  destruct n as [k a v c]. cbn [create_key n_content] in *.
  rewrite nth_error_app1 by exact Hj. reflexivity.
Qed.

Lemma append_children_attrs_nonempty items n :
  n_content n <> [] -> n_attrs (append_children items n) = n_attrs n.
Proof. destruct n as [k a v [|c0 c]]; cbn; [congruence|reflexivity]. Qed.

Lemma create_key_attrs_nonempty key value n :
  n_content n <> [] -> n_attrs (create_key key value n) = n_attrs n.
Proof. destruct n as [k a v [|c0 c]]; cbn; [congruence|reflexivity]. Qed.

(* ------------------------------------------------------------------ *)
(* UpdateFrom policy                                                   *)
(* ------------------------------------------------------------------ *)
Lemma update_from_comments guess prefs other n :
  let r := n_attrs (update_from guess prefs other n) in
  a_head r = or_else (a_head (n_attrs other)) (a_head (n_attrs n)) /\
  a_line r = or_else (a_line (n_attrs other)) (a_line (n_attrs n)) /\
  a_foot r = or_else (a_foot (n_attrs other)) (a_foot (n_attrs n)).
Proof. cbv zeta. unfold update_from. cbn. repeat split. Qed.

Lemma update_from_anchor guess prefs other n :
  a_anchor (n_attrs (update_from guess prefs other n)) =
  if dont_overwrite_anchor prefs then a_anchor (n_attrs n) else a_anchor (n_attrs other).
Proof. reflexivity. Qed.

Lemma update_from_tag guess prefs other n :
  a_tag (n_attrs (update_from guess prefs other n)) =
  if clobber_custom_tags prefs || has_bangbang (a_tag (n_attrs n)) || is_nil (a_tag (n_attrs n))
  then a_tag (n_attrs other) else a_tag (n_attrs n).
Proof. reflexivity. Qed.

Lemma update_from_style_kept guess prefs other n :
  (n_kind n = KScalar \/ n_content n <> []) ->
  guess_tag guess n = guess_tag guess other ->
  a_style (n_attrs n) <> 0%N ->
  a_style (n_attrs (update_from guess prefs other n)) = a_style (n_attrs n).
Proof.
  intros Hk Hg Hs. unfold update_from. cbn [n_attrs a_style].
  assert (E : match n_kind n with KScalar => false | _ => match n_content n with [] => true | _ :: _ => false end end = false).
  { destruct Hk as [->|Hc]; [reflexivity|]. destruct (n_kind n); try reflexivity; destruct (n_content n); congruence. }
  rewrite E, Hg, str_eqb_refl. cbn [negb orb].
  destruct (N.eqb_spec (a_style (n_attrs n)) 0); [contradiction|reflexivity].
Qed.

(* the case of `PATH = plain scalar of the same type`: nothing of the
   presentation of the target changes but the tag (which is equal anyway) *)
Lemma update_from_plain_keeps guess other n :
  (n_kind n = KScalar \/ n_content n <> []) ->
  a_head (n_attrs other) = [] -> a_line (n_attrs other) = [] -> a_foot (n_attrs other) = [] ->
  guess_tag guess n = guess_tag guess other ->
  a_tag (n_attrs other) = a_tag (n_attrs n) ->
  (a_style (n_attrs n) <> 0%N \/ a_style (n_attrs other) = 0%N) ->
  n_attrs (update_from guess plain_assign other n) = n_attrs n.
Proof.
  intros Hk Hh Hl Hf Hg Ht Hs.
  assert (E : match n_kind n with KScalar => false | _ => match n_content n with [] => true | _ :: _ => false end end = false).
  { destruct Hk as [->|Hc]; [reflexivity|]. destruct (n_kind n); try reflexivity; destruct (n_content n); congruence. }
  unfold update_from. rewrite E, Hg, str_eqb_refl, Hh, Hl, Hf, Ht. cbn [negb orb or_else is_nil plain_assign dont_overwrite_anchor clobber_custom_tags].
  destruct (n_attrs n) as [h l f s an t] eqn:Ea. cbn [a_head a_line a_foot a_style a_anchor a_tag] in *.
  assert (Hst : (if (s =? 0)%N then a_style (n_attrs other) else s) = s).
  { destruct (N.eqb_spec s 0) as [->|]; [|reflexivity]. destruct Hs as [Hs|Hs]; [congruence|exact Hs]. }
  rewrite Hst. destruct (has_bangbang t || is_nil t); reflexivity.
Qed.
