(* Proofs/AssignProofs.v — C02: on the evaluator model, assigning a scalar at
   a key path IS the lens [put] of Spec/Lens.v, so the update laws proved for
   [put] hold for the evaluator. *)
From Coq Require Import Arith ZArith Lia.
From YQ Require Import Base.Str Model.Node Model.Store Model.Eval Spec.Lens Proofs.LensProofs.

(* `.k1 | .k2 | ... | .kn`, nested to the right *)
Fixpoint pk (ks : list str) : expr :=
  match ks with
  | [] => ESelf
  | [k] => EKey k
  | k :: r => EPipe (EKey k) (pk r)
  end.

(* the document after a writable traversal of the keys, and where it ends *)
Fixpoint viv (ks : list str) (n : node) : option (node * list nat) :=
  match ks with
  | [] => Some (n, [])
  | k :: r =>
      let on_map es :=
        match find_idx es k with
        | Some i =>
            match nth_error es i with
            | Some (k', c) =>
                match viv r c with
                | Some (c', pos) => Some (Map (upd_nth es i (fun _ => (k', c'))), i :: pos)
                | None => None
                end
            | None => None
            end
        | None =>
            match viv r null_node with
            | Some (c', pos) => Some (Map (es ++ [(k, c')]), length es :: pos)
            | None => None
            end
        end in
      match n with
      | Map es => on_map es
      | Scalar TNull _ => on_map []
      | _ => None
      end
  end.

Lemma put_is_viv ks v : forall n,
  put (List.map SKey ks) v n =
  match viv ks n with Some (n1, pos) => Some (upd_at n1 pos (fun _ => v)) | None => None end.
Proof.
  induction ks as [|k r IH]; intros n; cbn [List.map put viv upd_at]; [reflexivity|].
  assert (H : forall es,
    match find_idx es k with
    | Some i => match nth_error es i with
                | Some (k', c) => option_map (fun c' => Map (upd_nth es i (fun _ => (k', c')))) (put (List.map SKey r) v c)
                | None => None
                end
    | None => option_map (fun c' => Map (es ++ [(k, c')])) (put (List.map SKey r) v null_node)
    end =
    match
      match find_idx es k with
      | Some i => match nth_error es i with
                  | Some (k', c) => match viv r c with
                                    | Some (c', pos) => Some (Map (upd_nth es i (fun _ => (k', c'))), i :: pos)
                                    | None => None
                                    end
                  | None => None
                  end
      | None => match viv r null_node with
                | Some (c', pos) => Some (Map (es ++ [(k, c')]), length es :: pos)
                | None => None
                end
      end
    with Some (n1, pos) => Some (upd_at n1 pos (fun _ => v)) | None => None end).
  { intros es. destruct (find_idx es k) as [i|] eqn:Ef.
    - destruct (nth_error es i) as [[k' c]|] eqn:En; [|reflexivity].
      rewrite IH. destruct (viv r c) as [[c' pos]|]; [|reflexivity]. cbn [option_map upd_at].
      rewrite upd_nth_upd_nth. reflexivity.
    - rewrite IH. destruct (viv r null_node) as [[c' pos]|]; [|reflexivity]. cbn [option_map upd_at].
      f_equal. f_equal.
      assert (Hl : forall (l : list (str * node)) x f, upd_nth (l ++ [x]) (length l) f = l ++ [f x]).
      { induction l as [|y l IHl]; intros; cbn; [reflexivity|]. f_equal. apply IHl. }
      rewrite Hl. reflexivity. }
  destruct n as [[] tv|items|es]; try reflexivity; apply H.
Qed.

(* ---------- store algebra ---------- *)
Lemma upd_nth_ext {A} (l : list A) i f g : (forall x, f x = g x) -> upd_nth l i f = upd_nth l i g.
Proof. intros H. revert i; induction l as [|y l IH]; intros [|i]; cbn; try reflexivity; [rewrite H | rewrite IH]; reflexivity. Qed.

Lemma upd_at_ext q : forall n f g, (forall x, f x = g x) -> upd_at n q f = upd_at n q g.
Proof.
  induction q as [|i q IH]; intros n f g H; cbn [upd_at]; [apply H|].
  destruct n; try reflexivity; f_equal; apply upd_nth_ext; intros [k c]; cbn; f_equal; apply IH; assumption.
Qed.

Lemma upd_at_app q : forall n p f, upd_at n (q ++ p) f = upd_at n q (fun m => upd_at m p f).
Proof.
  induction q as [|i q IH]; intros n p f; cbn [app upd_at]; [reflexivity|].
  destruct n; try reflexivity; f_equal; apply upd_nth_ext; intros [k c]; cbn; f_equal; apply IH.
Qed.

Lemma upd_at_twice q : forall n f g, upd_at (upd_at n q f) q g = upd_at n q (fun m => g (f m)).
Proof.
  induction q as [|i q IH]; intros n f g; cbn [upd_at]; [reflexivity|].
  destruct n; try reflexivity; cbn [upd_at]; f_equal; rewrite upd_nth_upd_nth;
    apply upd_nth_ext; intros [k c]; cbn; f_equal; apply IH.
Qed.

Lemma upd_nth_fix {A} (l : list A) i f x : nth_error l i = Some x -> f x = x -> upd_nth l i f = l.
Proof.
  revert i; induction l as [|y l IH]; intros [|i] H Hf; cbn in *; try discriminate.
  - injection H as ->. rewrite Hf. reflexivity.
  - f_equal. eapply IH; eassumption.
Qed.

Lemma upd_at_id q : forall n m, get_at n q = Some m -> upd_at n q (fun _ => m) = n.
Proof.
  induction q as [|i q IH]; intros n m H; cbn [upd_at get_at] in *; [congruence|].
  destruct n as [t v|items|es]; cbn [children] in H; try reflexivity; rewrite nth_error_map in H.
  - destruct (nth_error items i) as [[k c]|] eqn:En; cbn in H; [|discriminate].
    f_equal. eapply upd_nth_fix; [eassumption|]. cbn. f_equal. apply IH. assumption.
  - destruct (nth_error es i) as [[k c]|] eqn:En; cbn in H; [|discriminate].
    f_equal. eapply upd_nth_fix; [eassumption|]. cbn. f_equal. apply IH. assumption.
Qed.

Lemma get_at_app q : forall n p, get_at n (q ++ p) = match get_at n q with Some m => get_at m p | None => None end.
Proof.
  induction q as [|i q IH]; intros n p; cbn [app get_at]; [reflexivity|].
  destruct (nth_error (children n) i); [apply IH | reflexivity].
Qed.

Lemma get_upd_same q : forall n m f, get_at n q = Some m -> get_at (upd_at n q f) q = Some (f m).
Proof.
  induction q as [|i q IH]; intros n m f H; cbn [get_at upd_at] in *; [congruence|].
  destruct n as [t v|items|es]; cbn [children] in *; try (destruct i; discriminate);
    rewrite nth_error_map in *.
  - destruct (nth_error items i) as [[k c]|] eqn:En; cbn in H; [|discriminate].
    rewrite nth_upd_nth_same, En. cbn. apply IH. assumption.
  - destruct (nth_error es i) as [[k c]|] eqn:En; cbn in H; [|discriminate].
    rewrite nth_upd_nth_same, En. cbn. apply IH. assumption.
Qed.

Lemma root_eta r : mkRoot (r_parent r) (r_key r) (r_body r) = r.
Proof. destruct r; reflexivity. Qed.

Lemma update_id st c n : deref st c = Some n -> update st c (fun _ => n) = st.
Proof.
  unfold deref, update. destruct c as [r q]; cbn [fst snd]. intros H.
  destruct (nth_error st r) as [rt|] eqn:Er; [|discriminate].
  eapply upd_nth_fix; [eassumption|]. rewrite (upd_at_id _ _ _ H). apply root_eta.
Qed.

Lemma update_twice st c f g : update (update st c f) c g = update st c (fun m => g (f m)).
Proof.
  unfold update. rewrite upd_nth_upd_nth. apply upd_nth_ext. intros rt. cbn. f_equal. apply upd_at_twice.
Qed.

Lemma update_app st r q p g : update st (r, q ++ p) g = update st (r, q) (fun m => upd_at m p g).
Proof. unfold update. cbn [fst snd]. apply upd_nth_ext. intros rt. f_equal. apply upd_at_app. Qed.

Lemma update_ext st c f g : (forall x, f x = g x) -> update st c f = update st c g.
Proof. intros H. unfold update. apply upd_nth_ext. intros rt. f_equal. apply upd_at_ext. assumption. Qed.

Lemma deref_update_same st c f n : deref st c = Some n -> deref (update st c f) c = Some (f n).
Proof.
  unfold deref, update. destruct c as [r q]; cbn [fst snd]. intros H.
  destruct (nth_error st r) as [rt|] eqn:Er; [|discriminate].
  rewrite nth_upd_nth_same, Er. cbn. apply get_upd_same. assumption.
Qed.

Lemma deref_child st r q p : deref st (r, q ++ p) = match deref st (r, q) with Some m => get_at m p | None => None end.
Proof. unfold deref. cbn [fst snd]. destruct (nth_error st r); [apply get_at_app | reflexivity]. Qed.

Lemma length_update st c f : length (update st c f) = length st.
Proof. unfold update. apply length_upd_nth. Qed.

(* find_key (all matches) vs find_idx (the first) *)
Lemma find_key_hd es k : forall n,
  hd_error (find_key es k n) = option_map (fun j => (n + j)%nat) (find_idx es k).
Proof.
  induction es as [|[k1 c1] es IH]; intros n; cbn [find_key find_idx]; [reflexivity|].
  destruct (str_eqb k1 k); cbn; [f_equal; lia|].
  rewrite IH. destruct (find_idx es k); cbn; [f_equal; lia | reflexivity].
Qed.

Lemma upd_nth_ext_on {A} (l : list A) i f g x : nth_error l i = Some x -> f x = g x -> upd_nth l i f = upd_nth l i g.
Proof.
  revert i; induction l as [|y l IH]; intros [|i] H Hx; cbn in *; try discriminate; try reflexivity.
  - injection H as ->. rewrite Hx. reflexivity.
  - f_equal. eapply IH; eassumption.
Qed.

Lemma upd_at_ext_on q : forall n m f g, get_at n q = Some m -> f m = g m -> upd_at n q f = upd_at n q g.
Proof.
  induction q as [|i q IH]; intros n m f g H Hm; cbn [upd_at get_at] in *; [congruence|].
  destruct n as [t v|items|es]; cbn [children] in H; try reflexivity; rewrite nth_error_map in H.
  - destruct (nth_error items i) as [[k c]|] eqn:En; cbn in H; [|discriminate].
    f_equal. eapply upd_nth_ext_on; [eassumption|]. cbn. f_equal. eapply IH; eassumption.
  - destruct (nth_error es i) as [[k c]|] eqn:En; cbn in H; [|discriminate].
    f_equal. eapply upd_nth_ext_on; [eassumption|]. cbn. f_equal. eapply IH; eassumption.
Qed.

Lemma update_ext_on st c f g n : deref st c = Some n -> f n = g n -> update st c f = update st c g.
Proof.
  unfold deref, update. destruct c as [r q]; cbn [fst snd]. intros H Hn.
  destruct (nth_error st r) as [rt|] eqn:Er; [|discriminate].
  eapply upd_nth_ext_on; [eassumption|]. f_equal. eapply upd_at_ext_on; eassumption.
Qed.

Definition no_wild (ks : list str) : Prop := Forall (fun k => is_wild k = false) ks.

Lemma trav_map_found ro k c es st i :
  is_wild k = false -> find_idx es k = Some i ->
  trav_map ro k c es st = Ok ([(fst c, snd c ++ [i])], st).
Proof.
  intros Hw Hf. unfold trav_map. rewrite Hw.
  pose proof (find_key_hd es k O) as H. rewrite Hf in H. cbn in H.
  destruct (find_key es k 0) as [|j js]; cbn in H; [discriminate|]. injection H as ->. reflexivity.
Qed.

Lemma trav_map_new k c es st :
  is_wild k = false -> find_idx es k = None ->
  trav_map false k c es st = Ok ([(fst c, snd c ++ [length es])], update st c (fun _ => Map (es ++ [(k, null_node)]))).
Proof.
  intros Hw Hf. unfold trav_map. rewrite Hw.
  pose proof (find_key_hd es k O) as H. rewrite Hf in H. cbn in H.
  destruct (find_key es k 0) as [|j js]; cbn in H; [reflexivity | discriminate].
Qed.

Lemma pk_cons k k2 ks : pk (k :: k2 :: ks) = EPipe (EKey k) (pk (k2 :: ks)).
Proof. reflexivity. Qed.

Lemma eval_key f k ro vs ctx st : f <> O -> eval f (EKey k) ro vs ctx st = each (trav_key ro k) ctx st.
Proof. destruct f; [contradiction | reflexivity]. Qed.

(* eval of `.k1 | ... | .kn` in a writable context = viv *)
Lemma eval_pk_rw ks : forall fuel vs r q st n n1 pos,
  ks <> [] -> (length ks <= fuel)%nat -> no_wild ks ->
  deref st (r, q) = Some n -> viv ks n = Some (n1, pos) ->
  eval fuel (pk ks) false vs [(r, q)] st = Ok ([(r, q ++ pos)], update st (r, q) (fun _ => n1)).
Proof.
  induction ks as [|k ks IH]; intros fuel vs r q st n n1 pos Hne Hfuel Hw Hd Hv; [contradiction|].
  inversion Hw as [|? ? Hwk Hwr]; subst.
  (* one step of traversal, common to both shapes of pk *)
  assert (Hstep : forall c1 pos1, 
            (exists es, (n = Map es \/ (exists tv, n = Scalar TNull tv /\ es = [])) /\
               match find_idx es k with
               | Some i => exists k' c, nth_error es i = Some (k', c) /\
                             trav_key false k (r, q) st = Ok ([(r, q ++ [i])], st) /\ deref st (r, q ++ [i]) = Some c /\
                             viv ks c = Some (c1, pos1) /\ n1 = Map (upd_nth es i (fun _ => (k', c1))) /\ pos = i :: pos1
               | None => trav_key false k (r, q) st
                           = Ok ([(r, q ++ [length es])], update st (r, q) (fun _ => Map (es ++ [(k, null_node)]))) /\
                         viv ks null_node = Some (c1, pos1) /\ n1 = Map (es ++ [(k, c1)]) /\ pos = length es :: pos1
               end) -> True) by (intros; exact I).
  clear Hstep.
  cbn [viv] in Hv.
  assert (Hcases : exists es, (n = Map es \/ (exists tv, n = Scalar TNull tv) /\ es = []) /\
            match find_idx es k with
            | Some i => match nth_error es i with
                        | Some (k', c) => match viv ks c with
                                          | Some (c', pos') => Some (Map (upd_nth es i (fun _ => (k', c'))), i :: pos')
                                          | None => None
                                          end
                        | None => None
                        end
            | None => match viv ks null_node with
                      | Some (c', pos') => Some (Map (es ++ [(k, c')]), length es :: pos')
                      | None => None
                      end
            end = Some (n1, pos)).
  { destruct n as [[] tv|items|es]; try discriminate.
    - exists []. split; [right; split; [eexists; reflexivity | reflexivity] | exact Hv].
    - exists es. split; [left; reflexivity | exact Hv]. }
  destruct Hcases as (es & Hn & Hv').
  (* the traversal step *)
  assert (Htrav : match find_idx es k with
                  | Some i => trav_key false k (r, q) st = Ok ([(r, q ++ [i])], st)
                  | None => trav_key false k (r, q) st
                            = Ok ([(r, q ++ [length es])], update st (r, q) (fun _ => Map (es ++ [(k, null_node)])))
                  end).
  { unfold trav_key, deref_r. rewrite Hd. cbn [of_option bind].
    destruct Hn as [->|[[tv ->] ->]].
    - destruct (find_idx es k) eqn:Ef; [apply (trav_map_found false k (r, q)) | apply (trav_map_new k (r, q))]; assumption.
    - cbn [find_idx]. rewrite (trav_map_new k (r, q) [] _ Hwk eq_refl). cbn [fst snd app length].
      rewrite update_twice. reflexivity. }
  destruct (find_idx es k) as [i|] eqn:Ef.
  - (* the key exists *)
    destruct (nth_error es i) as [[k' c]|] eqn:En; [|discriminate].
    destruct (viv ks c) as [[c' pos']|] eqn:Evc; [|discriminate]. injection Hv' as <- <-.
    assert (Hes : n = Map es).
    { destruct Hn as [->|[_ ->]]; [reflexivity | discriminate]. }
    subst n.
    assert (Hdc : deref st (r, q ++ [i]) = Some c).
    { rewrite deref_child, Hd. cbn [get_at children]. rewrite nth_error_map, En. reflexivity. }
    destruct ks as [|k2 ks2].
    + (* last step *)
      cbn [pk]. destruct fuel as [|f]; [cbn in Hfuel; lia|]. cbn [eval each]. rewrite Htrav. cbn [bind fst snd app].
      cbn [viv] in Evc. injection Evc as <- <-.
      rewrite (upd_nth_fix es i _ (k', c) En eq_refl). rewrite (update_id _ _ _ Hd). reflexivity.
    + rewrite pk_cons. destruct fuel as [|f]; [cbn in Hfuel; lia|]. cbn [eval].
      rewrite eval_key by (cbn in Hfuel; lia). cbn [each]. rewrite Htrav. cbn [bind fst snd app].
      etransitivity; [apply (IH f vs r (q ++ [i]) st c c' pos'); try assumption; try discriminate; cbn in *; lia|].
      f_equal. f_equal.
      * rewrite <- app_assoc. reflexivity.
      * rewrite update_app. apply update_ext_on with (n := Map es); [assumption|].
        cbn [upd_at]. f_equal. apply upd_nth_ext_on with (x := (k', c)); [assumption | reflexivity].
  - (* the key is created *)
    destruct (viv ks null_node) as [[c' pos']|] eqn:Evc; [|discriminate]. injection Hv' as <- <-.
    set (st1 := update st (r, q) (fun _ => Map (es ++ [(k, null_node)]))) in *.
    assert (Hd1 : deref st1 (r, q) = Some (Map (es ++ [(k, null_node)]))).
    { unfold st1. rewrite (deref_update_same _ _ _ _ Hd). reflexivity. }
    assert (Hdc : deref st1 (r, q ++ [length es]) = Some null_node).
    { rewrite deref_child, Hd1. cbn [get_at children]. rewrite map_app, nth_error_app2; rewrite map_length; [|lia].
      rewrite Nat.sub_diag. reflexivity. }
    assert (Hl : forall (l : list (str * node)) x f, upd_nth (l ++ [x]) (length l) f = l ++ [f x]).
    { induction l as [|y l IHl]; intros; cbn; [reflexivity|]. f_equal. apply IHl. }
    destruct ks as [|k2 ks2].
    + cbn [pk]. destruct fuel as [|f]; [cbn in Hfuel; lia|]. cbn [eval each]. rewrite Htrav. cbn [bind fst snd app].
      cbn [viv] in Evc. injection Evc as <- <-. reflexivity.
    + rewrite pk_cons. destruct fuel as [|f]; [cbn in Hfuel; lia|]. cbn [eval].
      rewrite eval_key by (cbn in Hfuel; lia). cbn [each]. rewrite Htrav. cbn [bind fst snd app].
      etransitivity; [apply (IH f vs r (q ++ [length es]) st1 null_node c' pos'); try assumption; try discriminate; cbn in *; lia|].
      f_equal. f_equal.
      * rewrite <- app_assoc. reflexivity.
      * rewrite update_app. unfold st1. rewrite update_twice. apply update_ext. intros x.
        cbn [upd_at]. rewrite Hl. reflexivity.
Qed.

(* read-only traversal of an existing key path *)
Fixpoint resolve (ks : list str) (n : node) : option (list nat) :=
  match ks with
  | [] => Some []
  | k :: r =>
      match n with
      | Map es =>
          match find_idx es k with
          | Some i => match nth_error es i with
                      | Some (_, c) => option_map (cons i) (resolve r c)
                      | None => None
                      end
          | None => None
          end
      | _ => None
      end
  end.

Lemma viv_resolves ks : forall n n1 pos, viv ks n = Some (n1, pos) -> resolve ks n1 = Some pos.
Proof.
  induction ks as [|k ks IH]; intros n n1 pos H; cbn [viv resolve] in *.
  - injection H as <- <-. reflexivity.
  - assert (Hes : forall es,
      match find_idx es k with
      | Some i => match nth_error es i with
                  | Some (k', c) => match viv ks c with
                                    | Some (c', pos') => Some (Map (upd_nth es i (fun _ => (k', c'))), i :: pos')
                                    | None => None
                                    end
                  | None => None
                  end
      | None => match viv ks null_node with
                | Some (c', pos') => Some (Map (es ++ [(k, c')]), length es :: pos')
                | None => None
                end
      end = Some (n1, pos) -> resolve (k :: ks) n1 = Some pos).
    { intros es He. destruct (find_idx es k) as [i|] eqn:Ef.
      - destruct (nth_error es i) as [[k' c]|] eqn:En; [|discriminate].
        destruct (viv ks c) as [[c' pos']|] eqn:Ev; [|discriminate]. injection He as <- <-.
        cbn [resolve]. rewrite (find_idx_keys _ es k (keys_upd_nth es i k' c c' En)), Ef.
        rewrite nth_upd_nth_same, En. cbn. rewrite (IH _ _ _ Ev). reflexivity.
      - destruct (viv ks null_node) as [[c' pos']|] eqn:Ev; [|discriminate]. injection He as <- <-.
        cbn [resolve]. rewrite (find_idx_app_new _ _ _ Ef), nth_app_last. rewrite (IH _ _ _ Ev). reflexivity. }
    destruct n as [[] tv|items|es]; try discriminate; [apply (Hes []) | apply (Hes es)]; assumption.
Qed.

Lemma eval_pk_ro ks : forall fuel vs r q st n pos,
  ks <> [] -> (length ks <= fuel)%nat -> no_wild ks ->
  deref st (r, q) = Some n -> resolve ks n = Some pos ->
  eval fuel (pk ks) true vs [(r, q)] st = Ok ([(r, q ++ pos)], st).
Proof.
  induction ks as [|k ks IH]; intros fuel vs r q st n pos Hne Hfuel Hw Hd Hr; [contradiction|].
  inversion Hw as [|? ? Hwk Hwr]; subst.
  cbn [resolve] in Hr. destruct n as [t tv|items|es]; try discriminate.
  destruct (find_idx es k) as [i|] eqn:Ef; [|discriminate].
  destruct (nth_error es i) as [[k' c]|] eqn:En; [|discriminate].
  destruct (resolve ks c) as [pos'|] eqn:Erc; [|discriminate]. injection Hr as <-.
  assert (Htrav : trav_key true k (r, q) st = Ok ([(r, q ++ [i])], st)).
  { unfold trav_key, deref_r. rewrite Hd. cbn [of_option bind]. apply (trav_map_found true k (r, q)); assumption. }
  assert (Hdc : deref st (r, q ++ [i]) = Some c).
  { rewrite deref_child, Hd. cbn [get_at children]. rewrite nth_error_map, En. reflexivity. }
  destruct ks as [|k2 ks2].
  - cbn [pk]. rewrite eval_key by (cbn in Hfuel; lia). cbn [each]. rewrite Htrav. cbn [bind fst snd app].
    cbn [resolve] in Erc. injection Erc as <-. reflexivity.
  - rewrite pk_cons. destruct fuel as [|f]; [cbn in Hfuel; lia|]. cbn [eval].
    rewrite eval_key by (cbn in Hfuel; lia). cbn [each]. rewrite Htrav. cbn [bind fst snd app].
    etransitivity; [apply (IH f vs r (q ++ [i]) st c pos'); try assumption; try discriminate; cbn in *; lia|].
    rewrite <- app_assoc. reflexivity.
Qed.

(* ---------- assignment of a scalar at a key path is the lens put ---------- *)
Theorem assign_is_put ks t v doc fuel :
  ks <> [] -> (length ks + 3 <= fuel)%nat -> no_wild ks ->
  forall n', put (List.map SKey ks) (Scalar t v) doc = Some n' ->
  exists st', eval fuel (EAssign (pk ks) (ELit t v)) false [] [(O, [])] (init_store doc) = Ok ([(O, [])], st')
              /\ deref st' (O, []) = Some n'.
Proof.
  intros Hne Hfuel Hw n' Hput.
  rewrite put_is_viv in Hput. destruct (viv ks doc) as [[n1 pos]|] eqn:Ev; [|discriminate]. injection Hput as <-.
  destruct fuel as [|f]; [lia|]. cbn [eval].
  assert (Hd0 : deref (init_store doc) (O, []) = Some doc) by reflexivity.
  rewrite (eval_pk_rw ks f [] O [] (init_store doc) doc n1 pos Hne ltac:(lia) Hw Hd0 Ev). cbn [bind fst snd app].
  set (st1 := update (init_store doc) (O, []) (fun _ => n1)).
  assert (Hd1 : deref st1 (O, []) = Some n1) by reflexivity.
  unfold cross. cbn [each]. unfold cross1.
  match goal with
  | |- context [eval f (pk ks) true ?a ?b ?c] =>
      replace (eval f (pk ks) true a b c) with (@Ok out ([(O, [] ++ pos)], st1))
        by (symmetry; apply (eval_pk_ro ks f a O [] st1 n1 pos Hne ltac:(lia) Hw Hd1 (viv_resolves _ _ _ _ Ev)))
  end.
  cbn [bind fst snd app each].
  unfold results_for_rhs, no_short. cbn [bind].
  destruct f as [|f]; [lia|]. cbn [eval each one alloc_fresh alloc bind fst snd app].
  unfold lift2, update_from. cbn [ptr_eqb fst snd]. 
  eexists. split; [reflexivity|].
  cbn. reflexivity.
Qed.

(* ---------- relative update: the match gets the FIRST result of the body applied to it ---------- *)
Theorem update_first_result ks r doc f n1 pos q qs st2 v :
  ks <> [] -> (length ks <= f)%nat -> no_wild ks ->
  viv ks doc = Some (n1, pos) ->
  eval f r false [] [(O, pos)] (update (init_store doc) (O, []) (fun _ => n1)) = Ok (q :: qs, st2) ->
  ptr_eqb (O, pos) q = false -> deref st2 q = Some v ->
  eval (S f) (EUpdate (pk ks) r) false [] [(O, [])] (init_store doc)
  = Ok ([(O, [])], update st2 (O, pos) (fun _ => v)).
Proof.
  intros Hne Hfuel Hw Hv Hr Hneq Hd. cbn [eval].
  assert (Hd0 : deref (init_store doc) (O, []) = Some doc) by reflexivity.
  rewrite (eval_pk_rw ks f [] O [] (init_store doc) doc n1 pos Hne Hfuel Hw Hd0 Hv). cbn [bind fst snd app rev Eval.iter].
  match goal with |- context [eval f r false ?a ?b ?c] => replace (eval f r false a b c) with (@Ok out (q :: qs, st2)) by (symmetry; exact Hr) end.
  cbn [bind fst snd]. unfold update_from. rewrite Hneq. unfold deref_r. rewrite Hd. reflexivity.
Qed.

(* no result: the match is left alone *)
Theorem update_no_result ks r doc f n1 pos st2 :
  ks <> [] -> (length ks <= f)%nat -> no_wild ks ->
  viv ks doc = Some (n1, pos) ->
  eval f r false [] [(O, pos)] (update (init_store doc) (O, []) (fun _ => n1)) = Ok ([], st2) ->
  eval (S f) (EUpdate (pk ks) r) false [] [(O, [])] (init_store doc) = Ok ([(O, [])], st2).
Proof.
  intros Hne Hfuel Hw Hv Hr. cbn [eval].
  assert (Hd0 : deref (init_store doc) (O, []) = Some doc) by reflexivity.
  rewrite (eval_pk_rw ks f [] O [] (init_store doc) doc n1 pos Hne Hfuel Hw Hd0 Hv). cbn [bind fst snd app rev Eval.iter].
  match goal with |- context [eval f r false ?a ?b ?c] => replace (eval f r false a b c) with (@Ok out ([], st2)) by (symmetry; exact Hr) end.
  reflexivity.
Qed.

(* ---------- one writable index step is the lens step ---------- *)
Lemma pad_nulls_is_pad_to items n : pad_nulls items n = pad_to items n.
Proof. revert items. induction n as [|n IH]; intros items; cbn [pad_nulls pad_to]; [reflexivity | apply IH]. Qed.

(* `[i]` applied in a writable context to a sequence (or to a null, which is re-typed to an empty sequence first)
   pads it with nulls exactly as [put (SIdx i :: _)] does and answers the position i. *)
Theorem index_step_is_lens_step p st n items t i :
  deref st p = Some n ->
  (n = Seq items \/ (exists tv, n = Scalar TNull tv) /\ items = []) ->
  Z_of_index t = Ok (Z.of_nat i) -> (Z.of_nat i <= 100000)%Z ->
  exists st', trav_indices false [Scalar TInt t] p st = Ok ([(fst p, snd p ++ [i])], st')
              /\ deref st' p = Some (Seq (pad_to items (S i - length items))).
Proof.
  intros Hd Hn Hz Hi. unfold trav_indices, deref_r. rewrite Hd. cbn [of_option bind].
  assert (Hcore : forall st0, deref st0 p = Some (Seq items) ->
            exists st', each (fun ix st1 =>
                     let* n1 := deref_r st1 p in
                     match n1, ix with
                     | Seq items1, Scalar _ v => let* z := Z_of_index v in trav_index false p items1 z st1
                     | _, _ => Unsup
                     end) [Scalar TInt t] st0 = Ok ([(fst p, snd p ++ [i])], st')
                /\ deref st' p = Some (Seq (pad_to items (S i - length items)))).
  { intros st0 Hd0. cbn [each]. unfold deref_r. rewrite Hd0. cbn [of_option bind]. rewrite Hz. cbn [bind].
    unfold trav_index. destruct (Z.of_nat (length items) <=? Z.of_nat i)%Z eqn:Ele.
    - apply Z.leb_le in Ele.
      assert (Hgt : (Z.of_nat i >? 100000)%Z = false) by (rewrite Z.gtb_ltb; apply Z.ltb_ge; lia).
      rewrite Hgt. cbn [bind fst snd app]. rewrite Nat2Z.id.
      replace (Z.to_nat (Z.of_nat i + 1 - Z.of_nat (length items))) with (S i - length items)%nat by lia.
      eexists. split; [reflexivity|]. rewrite (deref_update_same _ _ _ _ Hd0), pad_nulls_is_pad_to. reflexivity.
    - apply Z.leb_gt in Ele.
      assert (Hneg : (Z.of_nat i <? 0)%Z = false) by (apply Z.ltb_ge; lia).
      rewrite Hneg, Hneg. cbn [bind fst snd app]. rewrite Nat2Z.id.
      eexists. split; [reflexivity|]. rewrite Hd0.
      replace (S i - length items)%nat with O by lia. reflexivity. }
  destruct Hn as [->|[[tv ->] ->]].
  - exact (Hcore st Hd).
  - apply Hcore. rewrite (deref_update_same _ _ _ _ Hd). reflexivity.
Qed.
