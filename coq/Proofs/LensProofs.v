(* Proofs/LensProofs.v — the update laws for Spec/Lens.v. *)
From Coq Require Import Arith.
From YQ Require Import Base.Str Model.Node Model.Store Spec.Lens.

Lemma nth_upd_nth_same {A} (l : list A) i f :
  nth_error (upd_nth l i f) i = option_map f (nth_error l i).
Proof.
  revert i; induction l as [|x l IH]; intros [|i]; cbn; try reflexivity. apply IH.
Qed.

Lemma nth_upd_nth_other {A} (l : list A) i j f :
  i <> j -> nth_error (upd_nth l i f) j = nth_error l j.
Proof.
  revert i j; induction l as [|x l IH]; intros [|i] [|j] H; cbn; try reflexivity.
  - contradiction.
  - apply IH. intro. apply H. congruence.
Qed.

Lemma upd_nth_id {A} (l : list A) i x :
  nth_error l i = Some x -> upd_nth l i (fun _ => x) = l.
Proof.
  revert i; induction l as [|y l IH]; intros [|i] H; cbn in *; try discriminate.
  - congruence.
  - f_equal. apply IH. assumption.
Qed.

Lemma upd_nth_upd_nth {A} (l : list A) i f g :
  upd_nth (upd_nth l i f) i g = upd_nth l i (fun x => g (f x)).
Proof.
  revert i; induction l as [|y l IH]; intros [|i]; cbn; try reflexivity. f_equal. apply IH.
Qed.

Lemma length_upd_nth {A} (l : list A) i f : length (upd_nth l i f) = length l.
Proof. revert i; induction l as [|y l IH]; intros [|i]; cbn; try reflexivity. f_equal. apply IH. Qed.

(* find_idx only looks at the keys *)
Lemma find_idx_keys es es' k : List.map fst es = List.map fst es' -> find_idx es k = find_idx es' k.
Proof.
  revert es'; induction es as [|[k1 c1] es IH]; intros [|[k2 c2] es'] H; cbn in *; try discriminate; try reflexivity.
  injection H as -> H. destruct (str_eqb k2 k); [reflexivity|]. f_equal. apply IH. assumption.
Qed.

Lemma keys_upd_nth (es : list (str * node)) i k c c' :
  nth_error es i = Some (k, c) -> List.map fst (upd_nth es i (fun _ => (k, c'))) = List.map fst es.
Proof.
  revert i; induction es as [|[k1 c1] es IH]; intros [|i] H; cbn in *; try discriminate.
  - injection H as -> ->. reflexivity.
  - f_equal. apply IH. assumption.
Qed.

Lemma find_idx_some es k i :
  find_idx es k = Some i -> exists k' c, nth_error es i = Some (k', c) /\ str_eqb k' k = true.
Proof.
  revert i; induction es as [|[k1 c1] es IH]; intros i H; cbn in *; [discriminate|].
  destruct (str_eqb k1 k) eqn:E.
  - injection H as <-. exists k1, c1. split; [reflexivity | assumption].
  - destruct (find_idx es k) as [j|] eqn:Ej; cbn in H; [|discriminate]. injection H as <-.
    destruct (IH j eq_refl) as (k' & c & Hn & Hk). exists k', c. split; assumption.
Qed.

Lemma find_idx_app_new es k c : find_idx es k = None -> find_idx (es ++ [(k, c)]) k = Some (length es).
Proof.
  induction es as [|[k1 c1] es IH]; intros H; cbn in *.
  - rewrite str_eqb_refl. reflexivity.
  - destruct (str_eqb k1 k); [discriminate|].
    destruct (find_idx es k); cbn in H; [discriminate|]. rewrite IH by reflexivity. reflexivity.
Qed.

Lemma find_idx_app_old es k k2 c : find_idx es k = None -> str_eqb k2 k = false ->
  find_idx (es ++ [(k2, c)]) k = None.
Proof.
  induction es as [|[k1 c1] es IH]; intros H Hk; cbn in *.
  - rewrite Hk. reflexivity.
  - destruct (str_eqb k1 k); [discriminate|].
    destruct (find_idx es k); cbn in H; [discriminate|]. rewrite IH by (reflexivity || assumption). reflexivity.
Qed.

Lemma find_idx_app_found es k i x : find_idx es k = Some i -> find_idx (es ++ [x]) k = Some i.
Proof.
  revert i; induction es as [|[k1 c1] es IH]; intros i H; cbn in *; [discriminate|].
  destruct (str_eqb k1 k); [assumption|].
  destruct (find_idx es k) as [j|]; cbn in H; [|discriminate]. rewrite (IH j eq_refl). assumption.
Qed.

Lemma nth_app_last {A} (l : list A) x : nth_error (l ++ [x]) (length l) = Some x.
Proof. induction l; cbn; [reflexivity | assumption]. Qed.

Lemma length_pad_to items n : length (pad_to items n) = (length items + n)%nat.
Proof.
  revert items; induction n as [|n IH]; intros items; cbn [pad_to]; [lia|].
  rewrite IH. unfold add_child. rewrite app_length. cbn. lia.
Qed.

Lemma nth_pad_to_old items n i : (i < length items)%nat -> nth_error (pad_to items n) i = nth_error items i.
Proof.
  revert items; induction n as [|n IH]; intros items H; cbn [pad_to]; [reflexivity|].
  rewrite IH.
  - unfold add_child. apply nth_error_app1. assumption.
  - unfold add_child. rewrite app_length. cbn. lia.
Qed.

Lemma nth_pad_to_new items n i : (length items <= i < length items + n)%nat ->
  exists k, nth_error (pad_to items n) i = Some (k, null_node).
Proof.
  revert items; induction n as [|n IH]; intros items H; cbn [pad_to]; [lia|].
  destruct (Nat.eq_dec i (length items)) as [->|Hne].
  - rewrite nth_pad_to_old by (unfold add_child; rewrite app_length; cbn; lia).
    unfold add_child. rewrite nth_app_last. eexists. reflexivity.
  - apply IH. unfold add_child. rewrite app_length. cbn. lia.
Qed.

Lemma pad_to_0 items : pad_to items 0 = items.
Proof. reflexivity. Qed.

(* ---------- put-get ---------- *)
Theorem put_get p : forall v n n', put p v n = Some n' -> get p n' = Some v.
Proof.
  induction p as [|s p IH]; intros v n n' H; cbn [put get] in *.
  - congruence.
  - destruct s as [k|i].
    + assert (Hmap : forall es,
               match find_idx es k with
               | Some i => match nth_error es i with
                           | Some (k', c) => option_map (fun c' => Map (upd_nth es i (fun _ => (k', c')))) (put p v c)
                           | None => None
                           end
               | None => option_map (fun c' => Map (es ++ [(k, c')])) (put p v null_node)
               end = Some n' -> get (SKey k :: p) n' = Some v).
      { intros es He. destruct (find_idx es k) as [i|] eqn:Ef.
        - destruct (nth_error es i) as [[k' c]|] eqn:En; [|discriminate].
          destruct (put p v c) as [c'|] eqn:Ep; [|discriminate]. injection He as <-.
          cbn [get]. rewrite (find_idx_keys _ es k (keys_upd_nth es i k' c c' En)), Ef.
          rewrite nth_upd_nth_same, En. cbn. eapply IH. eassumption.
        - destruct (put p v null_node) as [c'|] eqn:Ep; [|discriminate]. injection He as <-.
          cbn [get]. rewrite (find_idx_app_new _ _ _ Ef), nth_app_last. eapply IH. eassumption. }
      destruct n as [[] tv|items|es]; try discriminate; [apply (Hmap []) | apply (Hmap es)]; assumption.
    + assert (Hseq : forall items,
               match nth_error (pad_to items (S i - length items)) i with
               | Some (k, c) => option_map (fun c' => Seq (upd_nth (pad_to items (S i - length items)) i (fun _ => (k, c')))) (put p v c)
               | None => None
               end = Some n' -> get (SIdx i :: p) n' = Some v).
      { intros items He. set (items' := pad_to items (S i - length items)) in *.
        destruct (nth_error items' i) as [[k c]|] eqn:En; [|discriminate].
        destruct (put p v c) as [c'|] eqn:Ep; [|discriminate]. injection He as <-.
        cbn [get]. rewrite nth_upd_nth_same, En. cbn. eapply IH. eassumption. }
      destruct n as [[] tv|items|es]; try discriminate; [apply (Hseq []) | apply (Hseq items)]; assumption.
Qed.

(* ---------- get-put ---------- *)
Theorem get_put p : forall v n, get p n = Some v -> put p v n = Some n.
Proof.
  induction p as [|s p IH]; intros v n H; cbn [put get] in *.
  - congruence.
  - destruct s as [k|i]; destruct n as [t tv|items|es]; try discriminate.
    + destruct (find_idx es k) as [i|] eqn:Ef; [|discriminate].
      destruct (nth_error es i) as [[k' c]|] eqn:En; [|discriminate].
      rewrite (IH _ _ H). cbn. rewrite upd_nth_id by assumption. reflexivity.
    + destruct (nth_error items i) as [[kk c]|] eqn:En; [|discriminate].
      assert (Hi : (i < length items)%nat) by (apply nth_error_Some; congruence).
      replace (S i - length items)%nat with O by lia. rewrite pad_to_0, En.
      rewrite (IH _ _ H). cbn. rewrite upd_nth_id by assumption. reflexivity.
Qed.

(* ---------- put-put ---------- *)
Theorem put_put p : forall v1 v2 n n1, put p v1 n = Some n1 -> put p v2 n1 = put p v2 n.
Proof.
  induction p as [|s p IH]; intros v1 v2 n n1 H; cbn [put] in *.
  - reflexivity.
  - destruct s as [k|i].
    + assert (Hmap : forall es,
               match find_idx es k with
               | Some i => match nth_error es i with
                           | Some (k', c) => option_map (fun c' => Map (upd_nth es i (fun _ => (k', c')))) (put p v1 c)
                           | None => None
                           end
               | None => option_map (fun c' => Map (es ++ [(k, c')])) (put p v1 null_node)
               end = Some n1 ->
               put (SKey k :: p) v2 n1 =
               match find_idx es k with
               | Some i => match nth_error es i with
                           | Some (k', c) => option_map (fun c' => Map (upd_nth es i (fun _ => (k', c')))) (put p v2 c)
                           | None => None
                           end
               | None => option_map (fun c' => Map (es ++ [(k, c')])) (put p v2 null_node)
               end).
      { intros es He. destruct (find_idx es k) as [i|] eqn:Ef.
        - destruct (nth_error es i) as [[k' c]|] eqn:En; [|discriminate].
          destruct (put p v1 c) as [c1|] eqn:Ep; [|discriminate]. injection He as <-.
          cbn [put]. rewrite (find_idx_keys _ es k (keys_upd_nth es i k' c c1 En)), Ef.
          rewrite nth_upd_nth_same, En. cbn [option_map].
          rewrite (IH _ _ _ _ Ep). destruct (put p v2 c); cbn; [|reflexivity].
          rewrite upd_nth_upd_nth. reflexivity.
        - destruct (put p v1 null_node) as [c1|] eqn:Ep; [|discriminate]. injection He as <-.
          cbn [put]. rewrite (find_idx_app_new _ _ _ Ef), nth_app_last.
          rewrite (IH _ _ _ _ Ep). destruct (put p v2 null_node); cbn; [|reflexivity].
          f_equal. f_equal.
          clear. induction es as [|x es IHes]; cbn; [reflexivity|]. f_equal. exact IHes. }
      destruct n as [[] tv|items|es]; try discriminate; [apply (Hmap []) | apply (Hmap es)]; assumption.
    + assert (Hseq : forall items,
               match nth_error (pad_to items (S i - length items)) i with
               | Some (k, c) => option_map (fun c' => Seq (upd_nth (pad_to items (S i - length items)) i (fun _ => (k, c')))) (put p v1 c)
               | None => None
               end = Some n1 ->
               put (SIdx i :: p) v2 n1 =
               match nth_error (pad_to items (S i - length items)) i with
               | Some (k, c) => option_map (fun c' => Seq (upd_nth (pad_to items (S i - length items)) i (fun _ => (k, c')))) (put p v2 c)
               | None => None
               end).
      { intros items He. set (items' := pad_to items (S i - length items)) in *.
        destruct (nth_error items' i) as [[k c]|] eqn:En; [|discriminate].
        destruct (put p v1 c) as [c1|] eqn:Ep; [|discriminate]. injection He as <-.
        cbn [put].
        assert (Hi : (i < length items')%nat) by (apply nth_error_Some; congruence).
        rewrite length_upd_nth. replace (S i - length items')%nat with O by lia. rewrite pad_to_0.
        rewrite nth_upd_nth_same, En. cbn [option_map].
        rewrite (IH _ _ _ _ Ep). destruct (put p v2 c); cbn; [|reflexivity].
        rewrite upd_nth_upd_nth. reflexivity. }
      destruct n as [[] tv|items|es]; try discriminate; [apply (Hseq []) | apply (Hseq items)]; assumption.
Qed.

(* ---------- frame: a path that is neither a prefix nor an extension of p reads the same ---------- *)
Lemma pstep_eqb_eq a b : pstep_eqb a b = true <-> a = b.
Proof.
  destruct a, b; cbn; split; intro H; try discriminate.
  - apply str_eqb_eq in H. congruence.
  - injection H as ->. apply str_eqb_refl.
  - apply Nat.eqb_eq in H. congruence.
  - injection H as ->. apply Nat.eqb_refl.
Qed.

Lemma find_idx_distinct es k1 k2 i j :
  find_idx es k1 = Some i -> find_idx es k2 = Some j -> str_eqb k1 k2 = false -> i <> j.
Proof.
  intros H1 H2 Hk ->.
  destruct (find_idx_some _ _ _ H1) as (ka & ca & Ha & Hka).
  destruct (find_idx_some _ _ _ H2) as (kb & cb & Hb & Hkb).
  rewrite Ha in Hb. injection Hb as <- <-.
  apply str_eqb_eq in Hka, Hkb. subst. rewrite str_eqb_refl in Hk. discriminate.
Qed.

Theorem put_frame p : forall q v n n' w,
  put p v n = Some n' -> incomparable p q = true -> get q n = Some w -> get q n' = Some w.
Proof.
  induction p as [|a p IH]; intros q v n n' w Hp Hi Hg; [discriminate|].
  destruct q as [|b q]; [discriminate|]. cbn [incomparable] in Hi.
  destruct a as [k|i].
  - (* a key step: n is a map (a null has nothing to read) *)
    destruct n as [[] tv|items|es]; cbn [put] in Hp; try discriminate;
      try (destruct b; cbn [get] in Hg; discriminate).
    destruct b as [k2|j]; [|cbn [get] in Hg; discriminate].
    cbn [get] in Hg.
    destruct (find_idx es k2) as [j|] eqn:Ej; [|discriminate].
    destruct (nth_error es j) as [[kj cj]|] eqn:Enj; [|discriminate].
    cbn [pstep_eqb] in Hi.
    destruct (find_idx es k) as [i|] eqn:Ef.
    + destruct (nth_error es i) as [[k' c]|] eqn:En; [|discriminate].
      destruct (put p v c) as [c'|] eqn:Ep; [|discriminate]. injection Hp as <-.
      cbn [get]. rewrite (find_idx_keys _ es k2 (keys_upd_nth es i k' c c' En)), Ej.
      destruct (str_eqb k k2) eqn:Ek.
      * apply str_eqb_eq in Ek. subst k2. rewrite Ef in Ej. injection Ej as <-.
        rewrite nth_upd_nth_same, En. cbn. rewrite En in Enj. injection Enj as <- <-.
        eapply IH; eassumption.
      * rewrite nth_upd_nth_other by (eapply find_idx_distinct; eassumption). rewrite Enj. assumption.
    + destruct (put p v null_node) as [c'|] eqn:Ep; [|discriminate]. injection Hp as <-.
      cbn [get]. rewrite (find_idx_app_found _ _ _ _ Ej).
      rewrite nth_error_app1 by (apply nth_error_Some; congruence). rewrite Enj. assumption.
  - (* an index step: n is a sequence *)
    destruct n as [[] tv|items|es]; cbn [put] in Hp; try discriminate;
      try (destruct b; cbn [get] in Hg; discriminate).
    destruct b as [k2|j]; [cbn [get] in Hg; discriminate|].
    cbn [get] in Hg.
    destruct (nth_error items j) as [[kj cj]|] eqn:Enj; [|discriminate].
    assert (Hj : (j < length items)%nat) by (apply nth_error_Some; congruence).
    set (items' := pad_to items (S i - length items)) in *.
    destruct (nth_error items' i) as [[k c]|] eqn:En; [|discriminate].
    destruct (put p v c) as [c'|] eqn:Ep; [|discriminate]. injection Hp as <-.
    cbn [get pstep_eqb] in *.
    destruct (Nat.eqb i j) eqn:Eij.
    + apply Nat.eqb_eq in Eij. subst j. rewrite nth_upd_nth_same, En. cbn.
      unfold items' in En. rewrite nth_pad_to_old in En by assumption. rewrite En in Enj. injection Enj as <- <-.
      eapply IH; eassumption.
    + apply Nat.eqb_neq in Eij. rewrite nth_upd_nth_other by assumption.
      unfold items'. rewrite nth_pad_to_old by assumption. rewrite Enj. assumption.
Qed.

(* padding: indices created on the way are null *)
Theorem put_pads_with_null i v items n' :
  put [SIdx i] v (Seq items) = Some n' ->
  forall j, (length items <= j < i)%nat -> get [SIdx j] n' = Some null_node.
Proof.
  cbn [put]. set (items' := pad_to items (S i - length items)).
  destruct (nth_error items' i) as [[k c]|] eqn:En; [|discriminate].
  cbn [put option_map]. intros H j Hj. injection H as <-. cbn [get].
  rewrite nth_upd_nth_other by lia.
  destruct (nth_pad_to_new items (S i - length items) j) as [kk Hk]; [lia|].
  unfold items'. rewrite Hk. reflexivity.
Qed.

(* creation: a missing key under a map (or null) is created, and reading it back gives v *)
Theorem put_creates_path p v : forall n n', put p v n = Some n' -> get p n' = Some v.
Proof. apply put_get. Qed.
