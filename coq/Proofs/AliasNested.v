(* Proofs/AliasNested.v — C13 phase 2: explode is idempotent; on the hereditary
   domain merge_simple_doc the exploded document is the spec resolution
   (any position of the merge key, merge lists of any length, nested merges). *)
From Coq Require Import List NArith Arith Bool Lia Permutation.
From YQ Require Import Base.Str Spec.YamlMergeSpec Model.Alias Proofs.AliasProofs.
Import ListNotations.
Local Open Scope nat_scope.

(* ================================================================== *)
(* 1. clean trees are fixed points of explode                          *)
(* ================================================================== *)
Lemma clean_plain_strip t : clean t = true -> plain t = true /\ strip_anchors t = t.
Proof.
  induction t as [a s|a l IH|a es IH|t IH] using node_ind'; cbn [clean plain strip_anchors]; intros H; try discriminate.
  - apply negb_true_iff in H. subst. split; reflexivity.
  - apply andb_true_iff in H as [Ha H]. apply negb_true_iff in Ha. subst a.
    rewrite forallb_forall in H. rewrite Forall_forall in IH. split.
    + apply forallb_forall. intros x Hx. apply IH; [exact Hx | apply H, Hx].
    + f_equal. rewrite <- (map_id l) at 2. apply map_ext_in. intros x Hx. apply IH; [exact Hx | apply H, Hx].
  - apply andb_true_iff in H as [Ha H]. apply negb_true_iff in Ha. subst a.
    rewrite forallb_forall in H. rewrite Forall_forall in IH. split.
    + apply forallb_forall. intros [k v] Hx. specialize (H _ Hx). cbn [fst snd] in *.
      apply andb_true_iff in H as [H1 H2]. rewrite H1. cbn. apply (IH (k, v)); assumption.
    + f_equal. rewrite <- (map_id es) at 2. apply map_ext_in. intros [k v] Hx. cbn [fst snd]. f_equal.
      specialize (H _ Hx). cbn [fst snd] in H. apply andb_true_iff in H as [_ H2]. apply (IH (k, v)); assumption.
Qed.

Theorem explode_clean_id fuel t t' : clean t = true -> explode fuel t = ROk t' -> t' = t.
Proof.
  intros Hc H. destruct (clean_plain_strip t Hc) as [Hp Hs].
  rewrite (explode_plain fuel t t' Hp H). exact Hs.
Qed.

(* explode (explode d) = explode d, whenever both runs return *)
Theorem explode_idempotent f1 f2 d d' d'' :
  explode f1 d = ROk d' -> explode f2 d' = ROk d'' -> d'' = d'.
Proof. intros H1 H2. eapply explode_clean_id; [eapply explode_clean, H1 | exact H2]. Qed.

(* ================================================================== *)
(* 2. reconstructAliasedMap, for an arbitrary child explode [rec]      *)
(* ================================================================== *)
Lemma rbind_assoc {A B C : Type} (o : res A) (f : A -> res B) (g : B -> res C) :
  rbind (rbind o f) g = rbind o (fun x => rbind (f x) g).
Proof. destruct o; reflexivity. Qed.

Lemma filter_nil_forall {A : Type} (p : A -> bool) l : filter p l = [] -> forall x, In x l -> p x = false.
Proof.
  induction l as [|a r IH]; intros H x Hx; [destruct Hx|]. cbn [filter] in H.
  destruct (p a) eqn:E; [discriminate|]. destruct Hx as [<-|Hx]; [exact E | apply IH; assumption].
Qed.

Section ExplodeGen.
  Variable rec : node -> res node.

  (* the result of [rec] where it returns one *)
  Definition recv (v : node) : node := match rec v with ROk v' => v' | _ => v end.

  Lemma recv_ok v v' : rec v = ROk v' -> recv v = v'.
  Proof. unfold recv. intros ->. reflexivity. Qed.

  Lemma override_entry_lookup_gen texts k0 v0 start acc acc' :
    override_entry rec texts k0 v0 start acc = ROk acc' ->
    forall k,
      lookup_entry k acc' =
        if str_eqb k k0 then
          (if has_key k0 acc then Some (recv v0)
           else if later_has texts (start + 2) k0 then None else Some (recv v0))
        else lookup_entry k acc.
  Proof.
    intros H k. unfold override_entry in H. apply rbind_ok in H as (v' & Hv & H).
    rewrite (recv_ok _ _ Hv).
    destruct (has_key k0 acc) eqn:Eh.
    - injection H as <-. apply lookup_replace_first, Eh.
    - destruct (later_has texts (start + 2) k0) eqn:El; injection H as <-.
      + destruct (str_eqb k k0) eqn:E; [|reflexivity]. apply str_eqb_eq in E. subst. apply has_key_lookup, Eh.
      + apply lookup_app_single, Eh.
  Qed.

  Lemma recon_app texts r1 : forall r2 i acc,
    recon rec texts (r1 ++ r2) i acc = rbind (recon rec texts r1 i acc) (recon rec texts r2 (i + length r1)).
  Proof.
    induction r1 as [|[k v] r IH]; intros r2 i acc; cbn [app recon length].
    - cbn [rbind]. rewrite Nat.add_0_r. reflexivity.
    - rewrite rbind_assoc. destruct (if is_merge k then _ else _) as [a| | |]; cbn [rbind]; try reflexivity.
      rewrite IH. replace (S i + length r) with (i + S (length r)) by lia. reflexivity.
  Qed.

  (* a run of explicit entries es[i .. i+|r|) whose keys do not occur again later in es *)
  Lemma recon_explicit_seg es r : forall pre post i acc acc',
    es = pre ++ r ++ post -> length pre = i ->
    (forall kv, In kv r -> is_merge (fst kv) = false) ->
    NoDup (keys (r ++ post)) ->
    recon rec (flat_texts es) r i acc = ROk acc' ->
    forall k, lookup_entry k acc' =
              match lookup_entry k r with Some v => Some (recv v) | None => lookup_entry k acc end.
  Proof.
    induction r as [|[k0 v0] r' IH]; intros pre post i acc acc' Hes Hlen Hm Hn H k; cbn [recon] in H.
    - injection H as <-. reflexivity.
    - pose proof (Hm (k0, v0) (or_introl eq_refl)) as Hk0. cbn [fst] in Hk0. rewrite Hk0 in H.
      cbn [app keys map fst] in Hn. inversion Hn as [|? ? Hnotin Hn']; subst x l.
      apply rbind_ok in H as (acc1 & H1 & H).
      pose proof (override_entry_lookup_gen _ _ _ _ _ _ H1) as Hl.
      assert (Hnl : later_has (flat_texts es) (2 * i + 2) k0 = false).
      { replace (2 * i + 2) with (2 * S i) by lia. rewrite later_has_even.
        assert (Hsk : skipn (S i) es = r' ++ post).
        { rewrite Hes, skipn_app. rewrite <- Hlen.
          replace (S (length pre) - length pre) with 1 by lia.
          rewrite skipn_all2 by lia. reflexivity. }
        rewrite Hsk. destruct (existsb _ (r' ++ post)) eqn:Ex; [|reflexivity].
        exfalso. apply existsb_exists in Ex as ([k1 v1] & Hin & Hk1). cbn [fst] in Hk1. apply str_eqb_eq in Hk1. subst k1.
        apply Hnotin. apply in_map_iff. exists (k0, v1). split; [reflexivity | exact Hin]. }
      rewrite (IH (pre ++ [(k0, v0)]) post (S i) acc1 acc'
                  ltac:(rewrite <- app_assoc; exact Hes) ltac:(rewrite app_length; cbn; lia)
                  ltac:(intros kv Hkv; apply Hm; right; exact Hkv) Hn' H k).
      cbn [lookup_entry]. rewrite (Hl k), Hnl.
      destruct (str_eqb k k0) eqn:E.
      + apply str_eqb_eq in E. subst k.
        rewrite lookup_entry_none by (intro Hin; apply Hnotin; unfold keys; rewrite map_app; apply in_or_app; left; exact Hin).
        destruct (has_key k0 acc); reflexivity.
      + reflexivity.
  Qed.

  (* the merge phase, followed for one key k *)
  Variable texts : list (option str).
  Variable k : str.

  Lemma override_all_k_gen tes : forall start acc acc',
    NoDup (keys tes) ->
    (In k (keys tes) -> lookup_entry k acc = None /\ forall n, later_has texts n k = false) ->
    override_all rec texts tes start acc = ROk acc' ->
    lookup_entry k acc' = match lookup_entry k tes with Some v => Some (recv v) | None => lookup_entry k acc end.
  Proof.
    induction tes as [|[k0 v0] r IH]; intros start acc acc' Hn Hk H; cbn [override_all] in H.
    - injection H as <-. reflexivity.
    - cbn [keys map fst] in Hn, Hk. inversion Hn as [|? ? Hnotin Hn']; subst.
      apply rbind_ok in H as (acc1 & H1 & H).
      pose proof (override_entry_lookup_gen _ _ _ _ _ _ H1 k) as Hl.
      cbn [lookup_entry]. destruct (str_eqb k k0) eqn:E.
      + apply str_eqb_eq in E. subst k0. destruct (Hk (or_introl eq_refl)) as [Hnone Hlater].
        apply has_key_lookup in Hnone. rewrite Hnone, Hlater in Hl.
        rewrite (IH _ _ _ Hn' ltac:(intro Hin; exfalso; exact (Hnotin Hin)) H).
        rewrite (lookup_entry_none _ _ Hnotin). exact Hl.
      + rewrite <- Hl. eapply IH; [exact Hn' | | exact H].
        intros Hin. rewrite Hl. apply Hk. right. exact Hin.
  Qed.

  (* the entries of the exploded target *)
  Definition src_entries (t : node) : entries := match recv t with Mp _ tes => tes | _ => [] end.

  Lemma apply_alias_k_gen t j acc acc' :
    NoDup (keys (src_entries t)) ->
    (In k (keys (src_entries t)) -> lookup_entry k acc = None /\ forall n, later_has texts n k = false) ->
    apply_alias rec texts (Al t) j acc = ROk acc' ->
    lookup_entry k acc' = match lookup_entry k (src_entries t) with Some v => Some (recv v) | None => lookup_entry k acc end.
  Proof.
    intros Hn Hk H. cbn [apply_alias] in H. apply rbind_ok in H as (t' & Ht & H).
    unfold src_entries in *. rewrite (recv_ok _ _ Ht) in *.
    destruct t' as [a s|a l|a tes|t0]; try discriminate.
    eapply override_all_k_gen; eassumption.
  Qed.

  Definition provides (jt : nat * node) : bool := existsb (str_eqb k) (keys (src_entries (snd jt))).

  Lemma provides_in jt : provides jt = true <-> In k (keys (src_entries (snd jt))).
  Proof.
    unfold provides. rewrite existsb_exists. split.
    - intros (x & Hx & E). apply str_eqb_eq in E. subst. exact Hx.
    - intros H. exists k. split; [exact H | apply str_eqb_refl].
  Qed.

  Lemma apply_seq_rev_k_gen (L : list (nat * node)) : forall acc acc',
    (forall jt, In jt L -> NoDup (keys (src_entries (snd jt)))) ->
    length (filter provides L) <= 1 ->
    ((exists jt, In jt L /\ In k (keys (src_entries (snd jt)))) ->
       lookup_entry k acc = None /\ forall n, later_has texts n k = false) ->
    apply_seq_rev rec texts (map (fun jt => (fst jt, Al (snd jt))) L) acc = ROk acc' ->
    lookup_entry k acc' =
      match lookup_first k (map (fun jt => src_entries (snd jt)) L) with Some v => Some (recv v) | None => lookup_entry k acc end.
  Proof.
    induction L as [|[j t] r IH]; intros acc acc' Hn Hd Hk H; cbn [map apply_seq_rev fst snd lookup_first] in *.
    - injection H as <-. reflexivity.
    - apply rbind_ok in H as (acc1 & H1 & H).
      assert (Hhead : In k (keys (src_entries t)) -> forall jt, In jt r -> ~ In k (keys (src_entries (snd jt)))).
      { intros Hin jt Hjt Hkj. cbn [filter] in Hd. apply (provides_in (j, t)) in Hin. rewrite Hin in Hd.
        cbn [length] in Hd. assert (Hnil : filter provides r = []) by (destruct (filter provides r); [reflexivity | cbn in Hd; lia]).
        apply provides_in in Hkj. rewrite (filter_nil_forall _ _ Hnil jt Hjt) in Hkj. discriminate. }
      assert (Htail : length (filter provides r) <= 1).
      { cbn [filter] in Hd. destruct (provides (j, t)); cbn [length] in Hd; lia. }
      apply apply_alias_k_gen in H1;
        [| apply (Hn (j, t)); left; reflexivity
         | intros Hin; apply Hk; exists (j, t); split; [left; reflexivity | exact Hin]].
      apply IH in H; [| intros jt Hjt; apply Hn; right; exact Hjt | exact Htail |].
      + rewrite H, H1. destruct (lookup_entry k (src_entries t)) as [v|] eqn:Es; [|reflexivity].
        rewrite lookup_first_none; [reflexivity|].
        intro Hin. apply in_flat_map in Hin as (s & Hs & Hks). apply in_map_iff in Hs as (jt & <- & Hjt).
        exact (Hhead (lookup_entry_in _ _ _ Es) jt Hjt Hks).
      + intros (jt & Hjt & Hkjt). destruct (Hk (ex_intro _ jt (conj (or_intror Hjt) Hkjt))) as [Hnone Hl]. split; [|exact Hl].
        rewrite H1. rewrite lookup_entry_none; [exact Hnone|].
        intro Hks. exact (Hhead Hks jt Hjt Hkjt).
  Qed.
End ExplodeGen.

(* ================================================================== *)
(* 3. small facts about the boolean domain tests and lookups           *)
(* ================================================================== *)
Lemma mem_in k l : mem k l = true <-> In k l.
Proof.
  unfold mem. rewrite existsb_exists. split.
  - intros (x & Hx & E). apply str_eqb_eq in E. subst. exact Hx.
  - intros H. exists k. split; [exact H | apply str_eqb_refl].
Qed.

Lemma mem_false k l : mem k l = false <-> ~ In k l.
Proof.
  rewrite <- mem_in. destruct (mem k l); split; intros H; try congruence; try discriminate;
    try (exfalso; apply H; reflexivity).
Qed.

Lemma nodupb_NoDup l : nodupb l = true -> NoDup l.
Proof.
  induction l as [|k r IH]; intros H; [constructor|].
  cbn [nodupb] in H. apply andb_true_iff in H as [H1 H2]. apply negb_true_iff in H1.
  constructor; [apply mem_false, H1 | apply IH, H2].
Qed.

Lemma disjoint_filter_nil k a r : In k a -> forallb (disjointb a) r = true -> filter (mem k) r = [].
Proof.
  intros E. induction r as [|b r' IH]; intros H; [reflexivity|].
  cbn [forallb] in H. apply andb_true_iff in H as [Hab H]. cbn [filter].
  unfold disjointb in Hab. rewrite forallb_forall in Hab. specialize (Hab k E). apply negb_true_iff in Hab.
  rewrite Hab. apply IH, H.
Qed.

Lemma pairwise_disjoint_count k ls : pairwise_disjointb ls = true -> length (filter (mem k) ls) <= 1.
Proof.
  induction ls as [|a r IH]; intros H; [cbn; lia|].
  cbn [pairwise_disjointb] in H. apply andb_true_iff in H as [H1 H2]. cbn [filter].
  destruct (mem k a) eqn:E; [|apply IH, H2].
  apply mem_in in E. rewrite (disjoint_filter_nil k a r E H1). cbn. lia.
Qed.

Lemma all_some_Forall2 {A B : Type} (f : A -> option B) l r :
  all_some (map f l) = Some r -> Forall2 (fun a b => f a = Some b) l r.
Proof.
  revert r. induction l as [|a t IH]; intros r H; cbn [map all_some] in H.
  - injection H as <-. constructor.
  - destruct (f a) as [b|] eqn:E; [|discriminate].
    destruct (all_some (map f t)) as [t'|]; [|discriminate]. injection H as <-.
    constructor; [exact E | apply IH; reflexivity].
Qed.

Lemma filter_count_le {A B : Type} (p : A -> bool) (q : B -> bool) (R : A -> B -> Prop) l r :
  Forall2 R l r -> (forall a b, R a b -> p a = true -> q b = true) ->
  length (filter p l) <= length (filter q r).
Proof.
  intros HF Himp. induction HF as [|a b l r Hab HF IH]; [cbn; lia|].
  cbn [filter]. destruct (p a) eqn:E.
  - rewrite (Himp a b Hab E). cbn [length]. lia.
  - destruct (q b); cbn [length]; lia.
Qed.

Lemma lookup_first_all_none k X : (forall s, In s X -> lookup_entry k s = None) -> lookup_first k X = None.
Proof.
  induction X as [|s r IH]; intros H; [reflexivity|]. cbn [lookup_first].
  rewrite (H s (or_introl eq_refl)). apply IH. intros s' Hs'. apply H. right. exact Hs'.
Qed.

Lemma lookup_first_unique k X1 s X2 :
  (forall s', In s' (X1 ++ X2) -> lookup_entry k s' = None) ->
  lookup_first k (X1 ++ s :: X2) = lookup_entry k s.
Proof.
  intros H. rewrite lookup_first_app. rewrite lookup_first_all_none by (intros s' Hs'; apply H, in_or_app; left; exact Hs').
  cbn [lookup_first]. destruct (lookup_entry k s); [reflexivity|].
  apply lookup_first_all_none. intros s' Hs'. apply H, in_or_app. right. exact Hs'.
Qed.

Lemma vlookup_concat_all_none k (X : list (list (str * value))) :
  (forall s, In s X -> vlookup k s = None) -> vlookup k (concat X) = None.
Proof.
  induction X as [|s r IH]; intros H; [reflexivity|]. cbn [concat]. rewrite vlookup_app.
  rewrite (H s (or_introl eq_refl)). apply IH. intros s' Hs'. apply H. right. exact Hs'.
Qed.

Lemma vlookup_concat_unique k X1 s (X2 : list (list (str * value))) :
  (forall s', In s' (X1 ++ X2) -> vlookup k s' = None) ->
  vlookup k (concat (X1 ++ s :: X2)) = vlookup k s.
Proof.
  intros H. rewrite concat_app, vlookup_app.
  rewrite vlookup_concat_all_none by (intros s' Hs'; apply H, in_or_app; left; exact Hs').
  cbn [concat]. rewrite vlookup_app. destruct (vlookup k s); [reflexivity|].
  apply vlookup_concat_all_none. intros s' Hs'. apply H, in_or_app. right. exact Hs'.
Qed.

Lemma vlookup_valued k es : vlookup k (map entry_value es) = option_map value_of (lookup_entry k es).
Proof. apply vlookup_entry_value. Qed.

Lemma value_of_map a es : value_of (Mp a es) = VM (map entry_value es).
Proof. reflexivity. Qed.

Lemma vlookup_in k (es : list (str * value)) v : vlookup k es = Some v -> In k (map fst es).
Proof.
  induction es as [|[k' v'] r IH]; cbn [vlookup map fst]; [discriminate|].
  destruct (str_eqb k k') eqn:E; intros H.
  - apply str_eqb_eq in E. subst. left. reflexivity.
  - right. apply IH, H.
Qed.

Lemma vlookup_none_notin k (es : list (str * value)) : vlookup k es = None -> ~ In k (map fst es).
Proof.
  induction es as [|[k' v'] r IH]; cbn [vlookup map fst]; [intros _ []|].
  destruct (str_eqb k k') eqn:E; intros H; [discriminate|].
  intros [Hk|Hk]; [subst; rewrite str_eqb_refl in E; discriminate | exact (IH H Hk)].
Qed.

(* splitting a map at its merge key *)
Lemma before_merge_split es pre mv :
  before_merge es = Some (pre, mv) ->
  exists k post, es = pre ++ (k, mv) :: post /\ is_merge k = true /\ (forall kv, In kv pre -> is_merge (fst kv) = false).
Proof.
  revert pre. induction es as [|[k v] r IH]; intros pre H; cbn [before_merge] in H; [discriminate|].
  destruct (is_merge k) eqn:E.
  - injection H as <- <-. exists k, r. split; [reflexivity|]. split; [exact E | intros kv []].
  - destruct (before_merge r) as [[pre' mv']|] eqn:Er; [|discriminate]. injection H as <- <-.
    destruct (IH pre' eq_refl) as (k' & post & -> & Hk' & Hpre). exists k', post.
    split; [reflexivity|]. split; [exact Hk'|]. intros kv [<-|Hkv]; [exact E | apply Hpre, Hkv].
Qed.

Lemma before_merge_none es : before_merge es = None -> has_merge es = false.
Proof.
  induction es as [|[k v] r IH]; intros H; [reflexivity|]. cbn [before_merge] in H.
  destruct (is_merge k) eqn:E; [discriminate|].
  destruct (before_merge r) as [[? ?]|]; [discriminate|].
  unfold has_merge. cbn [existsb fst]. rewrite E. apply IH. reflexivity.
Qed.

Lemma is_merge_eq k : is_merge k = true -> k = merge_key.
Proof. unfold is_merge. apply str_eqb_eq. Qed.

Lemma alias_targets_items items ts : all_some (map alias_target items) = Some ts -> items = map Al ts.
Proof.
  revert ts. induction items as [|x r IH]; intros ts H; cbn [map all_some] in H.
  - injection H as <-. reflexivity.
  - destruct x as [a s|a l|a es|t]; cbn [alias_target] in H; try discriminate.
    destruct (all_some (map alias_target r)) as [ts'|]; [|discriminate]. injection H as <-.
    cbn [map]. f_equal. apply IH. reflexivity.
Qed.

(* success of the phases implies success of the child explodes *)
Section ExplodeOk.
  Variable rec : node -> res node.

  Lemma override_entry_ok texts k0 v0 start acc acc' :
    override_entry rec texts k0 v0 start acc = ROk acc' -> exists v', rec v0 = ROk v'.
  Proof. unfold override_entry. intros H. apply rbind_ok in H as (v' & Hv & _). exists v'. exact Hv. Qed.

  Lemma recon_explicit_ok texts r : forall i acc acc',
    (forall kv, In kv r -> is_merge (fst kv) = false) ->
    recon rec texts r i acc = ROk acc' -> forall kv, In kv r -> exists v', rec (snd kv) = ROk v'.
  Proof.
    induction r as [|[k0 v0] r' IH]; intros i acc acc' Hm H kv Hkv; [destruct Hkv|].
    cbn [recon] in H. pose proof (Hm (k0, v0) (or_introl eq_refl)) as Hk0. cbn [fst] in Hk0. rewrite Hk0 in H.
    apply rbind_ok in H as (acc1 & H1 & H). destruct Hkv as [<-|Hkv].
    - eapply override_entry_ok, H1.
    - eapply IH; [intros kv' Hkv'; apply Hm; right; exact Hkv' | exact H | exact Hkv].
  Qed.

  Lemma apply_alias_ok texts t j acc acc' :
    apply_alias rec texts (Al t) j acc = ROk acc' -> exists a tes, rec t = ROk (Mp a tes).
  Proof.
    cbn [apply_alias]. intros H. apply rbind_ok in H as (t' & Ht & H).
    destruct t' as [a s|a l|a tes|t0]; try discriminate. exists a, tes. exact Ht.
  Qed.

  Lemma apply_seq_rev_ok texts (L : list (nat * node)) : forall acc acc',
    apply_seq_rev rec texts (map (fun jt => (fst jt, Al (snd jt))) L) acc = ROk acc' ->
    forall jt, In jt L -> exists a tes, rec (snd jt) = ROk (Mp a tes).
  Proof.
    induction L as [|[j t] r IH]; intros acc acc' H jt Hjt; [destruct Hjt|].
    cbn [map apply_seq_rev fst snd] in H. apply rbind_ok in H as (acc1 & H1 & H).
    destruct Hjt as [<-|Hjt]; [eapply apply_alias_ok, H1 | eapply IH; eassumption].
  Qed.
End ExplodeOk.

(* the spec side of one map *)
Lemma spec_explicit_lookup (rs : node -> option value) k X ex :
  all_some (map (fun kv => option_map (fun v => (fst kv, v)) (rs (snd kv))) X) = Some ex ->
  vlookup k ex = match lookup_entry k X with Some v => rs v | None => None end
  /\ (forall v, lookup_entry k X = Some v -> exists x, rs v = Some x).
Proof.
  revert ex. induction X as [|[k' v'] r IH]; intros ex H; cbn [map all_some fst snd] in H.
  - injection H as <-. split; [reflexivity | discriminate].
  - destruct (rs v') as [x|] eqn:Ex; cbn [option_map] in H; [|discriminate].
    destruct (all_some _) as [ex'|] eqn:E; [|discriminate]. injection H as <-.
    destruct (IH ex' eq_refl) as [IH1 IH2]. cbn [vlookup lookup_entry].
    destruct (str_eqb k k'); [split; [symmetry; exact Ex | intros v Hv; injection Hv as <-; exists x; exact Ex] | split; assumption].
Qed.

Lemma spec_merge_sources (rs : node -> option value) mv ts ms :
  merge_targets mv = Some ts -> merge_sources rs mv = Some ms ->
  exists vss, Forall2 (fun t ves => rs t = Some (VM ves)) ts vss /\ ms = concat vss.
Proof.
  intros Ht Hm. destruct mv as [a s|a items|a es|t]; cbn [merge_targets] in Ht; try discriminate.
  - apply alias_targets_items in Ht. subst items. cbn [merge_sources] in Hm.
    destruct (all_some (map (source_entries rs) (map Al ts))) as [vss|] eqn:E; cbn [option_map] in Hm; [|discriminate].
    injection Hm as <-. exists vss. split; [|reflexivity].
    rewrite map_map in E. apply all_some_Forall2 in E.
    clear - E. induction E as [|t ves l r H E IHE]; constructor; [|exact IHE].
    cbn [source_entries] in H. destruct (rs t) as [[s|l0|es]|]; try discriminate. injection H as <-. reflexivity.
  - injection Ht as <-. cbn [merge_sources source_entries] in Hm.
    destruct (rs t) as [[s|l|es]|] eqn:E; try discriminate. injection Hm as <-.
    exists [es]. split; [constructor; [exact E | constructor] | cbn; rewrite app_nil_r; reflexivity].
Qed.

(* ================================================================== *)
(* 4. one map with a merge key, children given by induction            *)
(* ================================================================== *)
Lemma filter_rev' {A : Type} (f : A -> bool) (l : list A) : filter f (rev l) = rev (filter f l).
Proof.
  induction l as [|a l IH]; [reflexivity|].
  cbn [rev filter]. rewrite filter_app, IH. cbn [filter].
  destruct (f a); cbn [rev]; [reflexivity | apply app_nil_r].
Qed.

Lemma filter_length_map_snd {A B : Type} (p : B -> bool) (L : list (A * B)) :
  length (filter (fun jt => p (snd jt)) L) = length (filter p (map snd L)).
Proof. induction L as [|[a b] r IH]; [reflexivity|]. cbn [filter map snd]. destruct (p b); cbn [length]; rewrite IH; reflexivity. Qed.

Lemma filter_length_rev {A : Type} (p : A -> bool) l : length (filter p (rev l)) = length (filter p l).
Proof. rewrite filter_rev', rev_length. reflexivity. Qed.

Lemma orel_some_r {A B : Type} (R : A -> B -> Prop) o y : orel R o (Some y) -> exists x, o = Some x /\ R x y.
Proof. intros H. inversion H; subst. eexists; split; [reflexivity | assumption]. Qed.

Lemma orel_some_l {A B : Type} (R : A -> B -> Prop) x o : orel R (Some x) o -> exists y, o = Some y /\ R x y.
Proof. intros H. inversion H; subst. eexists; split; [reflexivity | assumption]. Qed.

Lemma Forall2_impl_in {A B : Type} (R Q : A -> B -> Prop) l r :
  Forall2 R l r -> (forall a b, In a l -> R a b -> Q a b) -> Forall2 Q l r.
Proof.
  induction 1 as [|a b l r Hab HF IHF]; intros H; constructor.
  - apply H; [left; reflexivity | exact Hab].
  - apply IHF. intros a' b' Hin HR. apply H; [right; exact Hin | exact HR].
Qed.

Section MapLevel.
  Variable rec : node -> res node.
  Variable rs : node -> option value.
  Variable dm : node -> bool.
  Hypothesis IH : forall t t' v, dm t = true -> rec t = ROk t' -> rs t = Some v -> veq (value_of t') v.
  Hypothesis Hclean : forall t t', rec t = ROk t' -> clean t' = true.
  Hypothesis Hid : forall t t', clean t = true -> rec t = ROk t' -> t' = t.
  Hypothesis Hnd : forall t a tes, dm t = true -> rec t = ROk (Mp a tes) -> NoDup (keys tes).

  Lemma recv_clean v : clean v = true -> recv rec v = v.
  Proof. intros Hc. unfold recv. destruct (rec v) as [v'| | |] eqn:E; try reflexivity. eapply Hid; eassumption. Qed.

  (* what is known about one merged target after a successful run *)
  Definition target_ok (k : str) (t : node) (ves : list (str * value)) : Prop :=
    exists a tes, rec t = ROk (Mp a tes) /\ src_entries rec t = tes /\ NoDup (keys tes)
                  /\ entries_clean tes = true
                  /\ orel veq (vlookup k (map entry_value tes)) (vlookup k ves).

  Lemma target_facts k t ves :
    dm t = true -> rs t = Some (VM ves) -> (exists a tes, rec t = ROk (Mp a tes)) -> target_ok k t ves.
  Proof.
    intros Hd Hr (a & tes & Ht). exists a, tes. split; [exact Ht|].
    split; [unfold src_entries; rewrite (recv_ok _ _ _ Ht); reflexivity|].
    split; [eapply Hnd; eassumption|].
    pose proof (Hclean _ _ Ht) as Hc. rewrite clean_map in Hc. apply andb_true_iff in Hc as [_ Hc].
    split; [exact Hc|].
    pose proof (IH _ _ _ Hd Ht Hr) as Hv. rewrite value_of_map in Hv. inversion Hv as [| |? ? Hall]; subst. apply Hall.
  Qed.

  Lemma entries_clean_lookup k tes v : entries_clean tes = true -> lookup_entry k tes = Some v ->
    clean v = true /\ is_merge k = false.
  Proof.
    induction tes as [|[k' v'] r IHt]; cbn [lookup_entry]; intros Hc H; [discriminate|].
    unfold entries_clean in Hc. cbn [forallb] in Hc. apply andb_true_iff in Hc as [Hkv Hc].
    destruct (str_eqb k k') eqn:E.
    - injection H as <-. apply str_eqb_eq in E. subst k'. unfold entry_clean in Hkv. cbn [fst snd] in Hkv.
      apply andb_true_iff in Hkv as [H1 H2]. apply negb_true_iff in H1. split; assumption.
    - apply IHt; assumption.
  Qed.

  Theorem map_merge_level a es es' v :
    map_ok dm rs es = true -> has_merge es = true ->
    recon rec (flat_texts es) es 0 [] = ROk es' ->
    resolve_step rs (Mp a es) = Some v ->
    veq (VM (map entry_value es')) v.
  Proof.
    intros Hok Hhm Hrecon Hres.
    unfold map_ok in Hok. apply andb_true_iff in Hok as [Hok Hbm]. apply andb_true_iff in Hok as [Hnodup Hdm].
    apply nodupb_NoDup in Hnodup.
    destruct (before_merge es) as [[pre mv]|] eqn:Ebm;
      [|apply before_merge_none in Ebm; congruence].
    destruct (before_merge_split _ _ _ Ebm) as (mk & post & Hes & Hmk & Hpre).
    apply is_merge_eq in Hmk. subst mk.
    destruct (merge_targets mv) as [ts|] eqn:Ets; [|discriminate].
    apply andb_true_iff in Hbm as [Hbm Hrk]. apply andb_true_iff in Hbm as [Hmp Hdts].
    destruct (all_some (map (resolved_keys rs) ts)) as [rks|] eqn:Erks; [|discriminate].
    apply andb_true_iff in Hrk as [Hpd Hprek].
    (* keys *)
    assert (Hkeys : keys es = keys pre ++ merge_key :: keys post).
    { rewrite Hes. unfold keys. rewrite map_app. reflexivity. }
    rewrite Hkeys in Hnodup.
    assert (Hpost : forall kv, In kv post -> is_merge (fst kv) = false).
    { intros [k0 v0] Hin. cbn [fst]. destruct (is_merge k0) eqn:E; [|reflexivity]. exfalso.
      apply is_merge_eq in E. subst k0. apply NoDup_app_r in Hnodup. inversion Hnodup as [|? ? Hn _]; subst.
      apply Hn. apply in_map_iff. exists (merge_key, v0). split; [reflexivity | exact Hin]. }
    assert (Hnd_post : NoDup (keys post)).
    { apply NoDup_app_r in Hnodup. inversion Hnodup; assumption. }
    (* the spec *)
    cbn [resolve_step] in Hres. rewrite Hes in Hres. rewrite !filter_app in Hres. cbn [filter fst] in Hres.
    assert (Hmkt : is_merge merge_key = true) by reflexivity. rewrite Hmkt in Hres. cbn [negb] in Hres.
    assert (Ffn : forall X : entries, (forall kv, In kv X -> is_merge (fst kv) = false) ->
              filter (fun kv => negb (is_merge (fst kv))) X = X /\ filter (fun kv => is_merge (fst kv)) X = []).
    { intros X HX. induction X as [|kv X' IHX]; [split; reflexivity|]. cbn [filter].
      rewrite (HX kv (or_introl eq_refl)). cbn [negb].
      destruct (IHX (fun kv' Hkv' => HX kv' (or_intror Hkv'))) as [-> ->]. split; reflexivity. }
    destruct (Ffn pre Hpre) as [Fp1 Fp2]. destruct (Ffn post Hpost) as [Fq1 Fq2].
    rewrite Fp1, Fp2, Fq1, Fq2 in Hres. cbn [app map all_some snd] in Hres.
    destruct (all_some (map _ (pre ++ post))) as [ex|] eqn:Eex; [|discriminate].
    destruct (merge_sources rs mv) as [ms|] eqn:Ems; [|discriminate].
    injection Hres as <-. cbn [concat]. rewrite app_nil_r.
    destruct (spec_merge_sources rs mv ts ms Ets Ems) as (vss & Hvss & ->).
    (* the run *)
    rewrite Hes in Hrecon at 2. rewrite recon_app in Hrecon. apply rbind_ok in Hrecon as (acc1 & Hp1 & Hrecon).
    cbn [recon] in Hrecon. rewrite Hmkt in Hrecon. apply rbind_ok in Hrecon as (acc2 & Hp2 & Hp3).
    rewrite Nat.add_0_l in Hp2, Hp3.
    assert (F1 : forall k, lookup_entry k acc1 = match lookup_entry k pre with Some x => Some (recv rec x) | None => None end).
    { intros k. eapply (recon_explicit_seg rec es pre [] ((merge_key, mv) :: post) 0 [] acc1);
        [rewrite Hes; reflexivity | reflexivity | exact Hpre | | exact Hp1].
      unfold keys in *. rewrite map_app. exact Hnodup. }
    assert (F3 : forall k, lookup_entry k es' = match lookup_entry k post with Some x => Some (recv rec x) | None => lookup_entry k acc2 end).
    { intros k. eapply (recon_explicit_seg rec es post (pre ++ [(merge_key, mv)]) [] (S (length pre)) acc2 es');
        [rewrite Hes, <- app_assoc, app_nil_r; reflexivity | rewrite app_length; cbn; lia | exact Hpost | rewrite app_nil_r; exact Hnd_post | exact Hp3]. }
    assert (Ok1 : forall kv, In kv pre -> exists v', rec (snd kv) = ROk v') by (eapply recon_explicit_ok; eassumption).
    assert (Ok3 : forall kv, In kv post -> exists v', rec (snd kv) = ROk v') by (eapply recon_explicit_ok; eassumption).
    (* the processing list of the merge phase *)
    assert (HL : exists L : list (nat * node),
              (map snd L = ts \/ map snd L = rev ts) /\
              (forall acc acc', (match mv with
                                | Sq _ items => apply_seq_rev rec (flat_texts es) (rev (indexed 0 items)) acc
                                | _ => apply_alias rec (flat_texts es) mv (2 * length pre) acc
                                end) = ROk acc' ->
                 apply_seq_rev rec (flat_texts es) (map (fun jt => (fst jt, Al (snd jt))) L) acc = ROk acc')).
    { destruct mv as [a0 s|a0 items|a0 es0|t]; cbn [merge_targets] in Ets; try discriminate.
      - apply alias_targets_items in Ets. subst items. exists (rev (indexed 0 ts)). split.
        + right. rewrite map_rev, indexed_snd. reflexivity.
        + intros acc acc' H. rewrite indexed_map, <- map_rev in H. exact H.
      - injection Ets as <-. exists [(2 * length pre, t)]. split; [left; reflexivity|].
        intros acc acc' H. cbn [map apply_seq_rev fst snd]. rewrite H. reflexivity. }
    destruct HL as (L & HLts & HLrun). specialize (HLrun _ _ Hp2).
    assert (HinL : forall t, In t (map snd L) <-> In t ts).
    { intros t. destruct HLts as [->| ->]; [reflexivity | symmetry; apply in_rev]. }
    (* every target: facts *)
    assert (Hvss_in : forall t, In t ts -> exists ves, In ves vss /\ rs t = Some (VM ves)).
    { clear - Hvss. induction Hvss as [|t0 ves0 l r H0 HF IHF]; intros t Hin; [destruct Hin|].
      destruct Hin as [<-|Hin]; [exists ves0; split; [left; reflexivity | exact H0]|].
      destruct (IHF t Hin) as (ves & Hv & Hr). exists ves. split; [right; exact Hv | exact Hr]. }
    assert (Htgt : forall k t, In t ts -> exists ves, In ves vss /\ rs t = Some (VM ves) /\ target_ok k t ves).
    { intros k t Hin. destruct (Hvss_in t Hin) as (ves & Hv & Hr). exists ves. split; [exact Hv|]. split; [exact Hr|].
      apply target_facts; [rewrite forallb_forall in Hdts; apply Hdts, Hin | exact Hr|].
      apply HinL in Hin. apply in_map_iff in Hin as (jt & <- & Hjt). eapply apply_seq_rev_ok; eassumption. }
    constructor. intros k.
    rewrite vlookup_valued, vlookup_app.
    destruct (spec_explicit_lookup rs k (pre ++ post) ex Eex) as [Hex Hexok]. rewrite Hex.
    rewrite lookup_entry_app in Hex, Hexok |- *. rewrite (F3 k).
    (* case: k written after the merge key *)
    destruct (lookup_entry k post) as [vq|] eqn:Eq.
    { assert (lookup_entry k pre = None) as Hpn.
      { apply lookup_entry_none. intro Hin. eapply NoDup_app_disj; [exact Hnodup | exact Hin|].
        right. eapply lookup_entry_in, Eq. }
      rewrite Hpn in *. destruct (Hexok vq eq_refl) as (x & Hx). rewrite Hx. cbn [option_map]. constructor.
      assert (Hinq : In (k, vq) post).
      { clear - Eq. induction post as [|[k' v'] r IHr]; cbn [lookup_entry] in Eq; [discriminate|].
        destruct (str_eqb k k') eqn:E; [injection Eq as <-; apply str_eqb_eq in E; subst; left; reflexivity | right; apply IHr, Eq]. }
      destruct (Ok3 _ Hinq) as (v' & Hv'). cbn [snd] in Hv'. rewrite (recv_ok _ _ _ Hv').
      eapply IH; [| exact Hv' | exact Hx].
      rewrite forallb_forall in Hdm.
      assert (Hinq_es : In (k, vq) es) by (rewrite Hes; apply in_or_app; right; right; exact Hinq).
      pose proof (Hdm _ Hinq_es) as Hd. cbn [fst snd] in Hd. pose proof (Hpost _ Hinq) as Hf. cbn [fst] in Hf.
      rewrite Hf in Hd. exact Hd. }
    (* k is not written after the merge key: what the merge phase left *)
    set (provE := fun t => existsb (str_eqb k) (keys (src_entries rec t))).
    assert (HprovS : forall t ves, In t ts -> rs t = Some (VM ves) -> provE t = true -> mem k (map fst ves) = true).
    { intros t ves Hin Hr Hp. destruct (Htgt k t Hin) as (ves' & _ & Hr' & (a' & tes & _ & Hse & _ & _ & Hor)).
      rewrite Hr in Hr'. injection Hr' as <-. unfold provE in Hp. rewrite Hse in Hp.
      apply mem_in. fold (mem k (keys tes)) in Hp. apply mem_in in Hp.
      apply lookup_entry_some_of_in in Hp as (x & Hx). rewrite vlookup_valued, Hx in Hor. cbn [option_map] in Hor.
      apply orel_some_l in Hor as (w & Hr2 & _). eapply vlookup_in, Hr2. }
    assert (Hcount : length (filter (provides rec k) L) <= 1).
    { transitivity (length (filter provE (map snd L))).
      { rewrite <- filter_length_map_snd. apply Nat.eq_le_incl. reflexivity. }
      assert (Hc : length (filter provE ts) <= 1).
      { transitivity (length (filter (mem k) rks)); [|apply pairwise_disjoint_count, Hpd].
        apply all_some_Forall2 in Erks.
        apply (filter_count_le provE (mem k) (fun t rk => resolved_keys rs t = Some rk /\ In t ts)).
        - eapply Forall2_impl_in; [exact Erks|]. intros t rk Hin Hrk. split; assumption.
        - intros t rk [Hrk Hin] Hp. unfold resolved_keys in Hrk.
          destruct (rs t) as [[s|l|ves]|] eqn:Er; try discriminate. injection Hrk as <-.
          eapply HprovS; eassumption. }
      destruct HLts as [->| ->]; [exact Hc | rewrite filter_length_rev; exact Hc]. }
    assert (Hnoprov_pre : forall x, lookup_entry k pre = Some x -> forall t, In t ts -> provE t = false).
    { intros x Hx t Hin. destruct (provE t) eqn:Ep; [|reflexivity]. exfalso.
      destruct (Hvss_in t Hin) as (ves & _ & Hr). pose proof (HprovS t ves Hin Hr Ep) as Hm.
      rewrite forallb_forall in Hprek. specialize (Hprek k (lookup_entry_in _ _ _ Hx)).
      rewrite forallb_forall in Hprek.
      assert (Hrkin : In (map fst ves) rks).
      { apply all_some_Forall2 in Erks. clear - Erks Hin Hr. induction Erks as [|t0 rk0 l r H0 HF IHF]; [destruct Hin|].
        destruct Hin as [<-|Hin]; [left; unfold resolved_keys in H0; rewrite Hr in H0; injection H0 as <-; reflexivity | right; apply IHF, Hin]. }
      specialize (Hprek _ Hrkin). rewrite Hm in Hprek. discriminate. }
    assert (F2 : lookup_entry k acc2 =
                 match lookup_first k (map (fun jt => src_entries rec (snd jt)) L) with
                 | Some x => Some (recv rec x) | None => lookup_entry k acc1 end).
    { eapply apply_seq_rev_k_gen; [| exact Hcount | | exact HLrun].
      - intros jt Hjt. assert (Hin : In (snd jt) ts) by (apply HinL, in_map, Hjt).
        destruct (Htgt k _ Hin) as (ves & _ & _ & (a' & tes & _ & Hse & Hn & _)). rewrite Hse. exact Hn.
      - intros (jt & Hjt & Hkj). assert (Hin : In (snd jt) ts) by (apply HinL, in_map, Hjt).
        assert (Hp : provE (snd jt) = true).
        { unfold provE. apply existsb_exists. exists k. split; [exact Hkj | apply str_eqb_refl]. }
        assert (Hpre_none : lookup_entry k pre = None).
        { destruct (lookup_entry k pre) as [x|] eqn:Ex; [|reflexivity].
          rewrite (Hnoprov_pre x eq_refl _ Hin) in Hp. discriminate. }
        split; [rewrite F1, Hpre_none; reflexivity|].
        intros n. destruct (later_has (flat_texts es) n k) eqn:El; [|reflexivity]. exfalso.
        apply later_has_sound in El. rewrite Hkeys in El. apply in_app_or in El as [El|[El|El]].
        + apply lookup_entry_some_of_in in El as (x & Hx). congruence.
        + subst k. destruct (Htgt merge_key _ Hin) as (ves & _ & _ & (a' & tes & _ & Hse & _ & Hcl & _)).
          rewrite Hse in Hkj. apply lookup_entry_some_of_in in Hkj as (x & Hx).
          destruct (entries_clean_lookup _ _ _ Hcl Hx) as [_ Hf]. discriminate.
        + apply lookup_entry_some_of_in in El as (x & Hx). congruence. }
    rewrite F2, F1.
    (* is there a providing target? *)
    destruct (lookup_first k (map (fun jt => src_entries rec (snd jt)) L)) as [x|] eqn:Elf.
    - (* yes: it is the only one, on both sides *)
      assert (Hex_t : exists jt, In jt L /\ lookup_entry k (src_entries rec (snd jt)) = Some x).
      { clear - Elf. induction L as [|jt r IHL]; cbn [map lookup_first] in Elf; [discriminate|].
        destruct (lookup_entry k (src_entries rec (snd jt))) as [y|] eqn:Ey.
        - injection Elf as <-. exists jt. split; [left; reflexivity | exact Ey].
        - destruct (IHL Elf) as (jt' & Hin & Hl). exists jt'. split; [right; exact Hin | exact Hl]. }
      destruct Hex_t as (jt & Hjt & Hlx). set (t := snd jt) in *.
      assert (Hin : In t ts) by (apply HinL, in_map, Hjt).
      assert (Hpt : provE t = true).
      { unfold provE. apply existsb_exists. exists k. split; [eapply lookup_entry_in, Hlx | apply str_eqb_refl]. }
      assert (Hpre_none : lookup_entry k pre = None).
      { destruct (lookup_entry k pre) as [y|] eqn:Ey; [|reflexivity]. rewrite (Hnoprov_pre y eq_refl _ Hin) in Hpt. discriminate. }
      rewrite Hpre_none in Hex |- *. cbn [option_map].
      destruct (Htgt k t Hin) as (ves & Hves & Hr & (a' & tes & _ & Hse & _ & Hcl & Hor)).
      rewrite Hse in Hlx. destruct (entries_clean_lookup _ _ _ Hcl Hlx) as [Hcx _].
      rewrite (recv_clean x Hcx).
      rewrite vlookup_valued, Hlx in Hor. cbn [option_map] in Hor.
      (* the spec finds the same single provider *)
      assert (Hc : length (filter provE ts) <= 1).
      { pose proof Hcount as Hc0. unfold provides in Hc0.
        change (fun jt : nat * node => existsb (str_eqb k) (keys (src_entries rec (snd jt)))) with (fun jt : nat * node => provE (snd jt)) in Hc0.
        rewrite filter_length_map_snd in Hc0. destruct HLts as [E|E]; rewrite E in Hc0; [exact Hc0 | rewrite filter_length_rev in Hc0; exact Hc0]. }
      assert (Hal : Forall2 (fun t' ves' => rs t' = Some (VM ves') /\ (provE t' = false -> vlookup k ves' = None)) ts vss).
      { eapply Forall2_impl_in; [exact Hvss|]. intros t0 ves0 Hin0 H0.
        split; [exact H0|]. intros Hp.
        destruct (Htgt k t0 Hin0) as (ves2 & _ & Hr2 & (a2 & tes2 & _ & Hse2 & _ & _ & Hor2)).
        rewrite H0 in Hr2. injection Hr2 as <-. unfold provE in Hp. rewrite Hse2 in Hp.
        destruct (vlookup k ves0) as [y|] eqn:Ey; [|reflexivity]. exfalso.
        apply orel_some_r in Hor2 as (w & Hl2 & _). rewrite vlookup_valued in Hl2.
        destruct (lookup_entry k tes2) as [z|] eqn:Ez; [|discriminate].
        assert (existsb (str_eqb k) (keys tes2) = true); [|congruence].
        apply existsb_exists. exists k. split; [eapply lookup_entry_in, Ez | apply str_eqb_refl]. }
      assert (Hspec : vlookup k (concat vss) = vlookup k ves).
      { clear - Hal Hc Hin Hpt Hr.
        revert Hc Hin. induction Hal as [|t0 ves0 l r [H0 H0n] HF IHF]; intros Hc Hin; [destruct Hin|].
        cbn [concat]. rewrite vlookup_app. cbn [filter] in Hc.
        assert (Hrest : (forall t', In t' l -> provE t' = false) -> vlookup k (concat r) = None).
        { intros Hall. apply vlookup_concat_all_none. clear - HF Hall.
          induction HF as [|t1 ves1 l r [H1 H1n] HF IHF]; intros s Hs; [destruct Hs|].
          destruct Hs as [<-|Hs]; [apply H1n, Hall; left; reflexivity | apply IHF; [intros t' Ht'; apply Hall; right; exact Ht' | exact Hs]]. }
        destruct (provE t0) eqn:E0.
        - cbn [length] in Hc. assert (Hnil : filter provE l = []) by (destruct (filter provE l); [reflexivity | cbn in Hc; lia]).
          destruct Hin as [<-|Hin].
          + rewrite Hr in H0. injection H0 as <-.
            rewrite Hrest by (intros t' Ht'; eapply filter_nil_forall; eassumption). destruct (vlookup k ves); reflexivity.
          + rewrite (filter_nil_forall _ _ Hnil _ Hin) in Hpt. discriminate.
        - rewrite (H0n eq_refl). destruct Hin as [<-|Hin]; [congruence|]. apply IHF; assumption. }
      rewrite Hspec. exact Hor.
    - (* no target provides k *)
      assert (Hnone : forall t, In t ts -> provE t = false).
      { intros t Hin. apply HinL in Hin. apply in_map_iff in Hin as (jt & <- & Hjt).
        destruct (provE (snd jt)) eqn:Ep; [|reflexivity]. exfalso.
        unfold provE in Ep. apply existsb_exists in Ep as (y & Hy & E). apply str_eqb_eq in E. subst y.
        apply lookup_entry_some_of_in in Hy as (z & Hz).
        assert (lookup_entry k (src_entries rec (snd jt)) = None); [|congruence].
        clear - Elf Hjt. induction L as [|jt0 r IHL]; [destruct Hjt|]. cbn [map lookup_first] in Elf.
        destruct (lookup_entry k (src_entries rec (snd jt0))) eqn:E0; [discriminate|].
        destruct Hjt as [<-|Hjt]; [exact E0 | apply IHL; assumption]. }
      assert (Hspec : vlookup k (concat vss) = None).
      { apply vlookup_concat_all_none. intros ves Hv.
        assert (Hback : exists t', In t' ts /\ rs t' = Some (VM ves)).
        { clear - Hvss Hv. induction Hvss as [|t0 ves0 l r H0 HF IHF]; [destruct Hv|].
          destruct Hv as [<-|Hv]; [exists t0; split; [left; reflexivity | exact H0]|].
          destruct (IHF Hv) as (t' & Ht' & Hr'). exists t'. split; [right; exact Ht' | exact Hr']. }
        destruct Hback as (t' & Ht' & Hr').
        destruct (Htgt k t' Ht') as (ves2 & _ & Hr2 & (a2 & tes2 & _ & Hse2 & _ & _ & Hor2)).
        rewrite Hr' in Hr2. injection Hr2 as <-.
        pose proof (Hnone t' Ht') as Hp. unfold provE in Hp. rewrite Hse2 in Hp.
        destruct (vlookup k ves) as [y|] eqn:Ey; [|reflexivity]. exfalso.
        apply orel_some_r in Hor2 as (w & Hl2 & _). rewrite vlookup_valued in Hl2.
        destruct (lookup_entry k tes2) as [z|] eqn:Ez; [|discriminate].
        assert (existsb (str_eqb k) (keys tes2) = true); [|congruence].
        apply existsb_exists. exists k. split; [eapply lookup_entry_in, Ez | apply str_eqb_refl]. }
      rewrite Hspec.
      destruct (lookup_entry k pre) as [vp|] eqn:Ep.
      + destruct (Hexok vp eq_refl) as (x & Hx). rewrite Hx. cbn [option_map]. constructor.
        assert (Hinp : In (k, vp) pre).
        { clear - Ep. induction pre as [|[k' v'] r IHr]; cbn [lookup_entry] in Ep; [discriminate|].
          destruct (str_eqb k k') eqn:E; [injection Ep as <-; apply str_eqb_eq in E; subst; left; reflexivity | right; apply IHr, Ep]. }
        destruct (Ok1 _ Hinp) as (v' & Hv'). cbn [snd] in Hv'. rewrite (recv_ok _ _ _ Hv').
        eapply IH; [| exact Hv' | exact Hx].
        rewrite forallb_forall in Hdm.
        assert (Hinp_es : In (k, vp) es) by (rewrite Hes; apply in_or_app; left; exact Hinp).
        pose proof (Hdm _ Hinp_es) as Hd. cbn [fst snd] in Hd. pose proof (Hpre _ Hinp) as Hf. cbn [fst] in Hf.
        rewrite Hf in Hd. exact Hd.
      + cbn [option_map]. constructor.
  Qed.
End MapLevel.

(* ================================================================== *)
(* 5. an exploded map has no repeated key                              *)
(* ================================================================== *)
Lemma keys_replace_first k v acc : keys (replace_first k v acc) = keys acc.
Proof.
  induction acc as [|[k' v'] r IH]; [reflexivity|]. cbn [replace_first].
  destruct (str_eqb k k'); cbn [keys map fst]; [reflexivity | f_equal; exact IH].
Qed.

Lemma has_key_in k acc : has_key k acc = false -> ~ In k (keys acc).
Proof.
  intros H Hin. apply has_key_lookup in H. apply lookup_entry_some_of_in in Hin as (v & Hv). congruence.
Qed.

Lemma NoDup_snoc {A : Type} (l : list A) x : NoDup l -> ~ In x l -> NoDup (l ++ [x]).
Proof.
  induction l as [|a r IH]; intros Hn Hx; cbn [app]; [constructor; [intros [] | constructor]|].
  inversion Hn as [|? ? Ha Hr]; subst. constructor.
  - intro Hin. apply in_app_or in Hin as [Hin|[<-|[]]]; [exact (Ha Hin) | apply Hx; left; reflexivity].
  - apply IH; [exact Hr | intro Hin; apply Hx; right; exact Hin].
Qed.

Section NoDupStep.
  Variable rec : node -> res node.

  Lemma override_entry_nodup texts key v start acc acc' :
    NoDup (keys acc) -> override_entry rec texts key v start acc = ROk acc' -> NoDup (keys acc').
  Proof.
    intros Hn H. unfold override_entry in H. apply rbind_ok in H as (v' & _ & H).
    destruct (has_key key acc) eqn:Eh.
    - injection H as <-. rewrite keys_replace_first. exact Hn.
    - destruct (later_has texts (start + 2) key); injection H as <-; [exact Hn|].
      unfold keys. rewrite map_app. cbn [map fst]. apply NoDup_snoc; [exact Hn | apply has_key_in, Eh].
  Qed.

  Lemma override_all_nodup texts tes : forall start acc acc',
    NoDup (keys acc) -> override_all rec texts tes start acc = ROk acc' -> NoDup (keys acc').
  Proof.
    induction tes as [|[k v] r IH]; intros start acc acc' Hn H; cbn [override_all] in H.
    - injection H as <-. exact Hn.
    - apply rbind_ok in H as (acc1 & H1 & H). eapply IH; [|exact H]. eapply override_entry_nodup; eassumption.
  Qed.

  Lemma apply_alias_nodup texts item idx acc acc' :
    NoDup (keys acc) -> apply_alias rec texts item idx acc = ROk acc' -> NoDup (keys acc').
  Proof.
    intros Hn H. destruct item as [a s|a l|a es|t]; cbn [apply_alias] in H; try (injection H as <-; exact Hn).
    apply rbind_ok in H as (t' & _ & H). destruct t' as [a s|a l|a tes|t']; try discriminate.
    eapply override_all_nodup; eassumption.
  Qed.

  Lemma apply_seq_rev_nodup texts ritems : forall acc acc',
    NoDup (keys acc) -> apply_seq_rev rec texts ritems acc = ROk acc' -> NoDup (keys acc').
  Proof.
    induction ritems as [|[j item] r IH]; intros acc acc' Hn H; cbn [apply_seq_rev] in H.
    - injection H as <-. exact Hn.
    - apply rbind_ok in H as (acc1 & H1 & H). eapply IH; [|exact H]. eapply apply_alias_nodup; eassumption.
  Qed.

  Lemma recon_nodup texts es : forall i acc acc',
    NoDup (keys acc) -> recon rec texts es i acc = ROk acc' -> NoDup (keys acc').
  Proof.
    induction es as [|[k v] r IH]; intros i acc acc' Hn H; cbn [recon] in H.
    - injection H as <-. exact Hn.
    - apply rbind_ok in H as (acc1 & H1 & H). eapply IH; [|exact H].
      destruct (is_merge k).
      + destruct v as [a s|a l|a es'|t]; try (eapply apply_alias_nodup; eassumption).
        eapply apply_seq_rev_nodup; eassumption.
      + eapply override_entry_nodup; eassumption.
  Qed.

  Lemma map_entries_keys es es' : map_entries rec es = ROk es' -> keys es' = keys es.
  Proof.
    revert es'. induction es as [|[k v] r IH]; intros es' H; cbn [map_entries] in H.
    - injection H as <-. reflexivity.
    - apply rbind_ok in H as (v' & _ & H). apply rbind_ok in H as (r' & Hr & H). injection H as <-.
      cbn [keys map fst]. f_equal. apply IH, Hr.
  Qed.
End NoDupStep.

(* ================================================================== *)
(* 6. the exploded document is the spec resolution, on the domain      *)
(* ================================================================== *)
Lemma has_merge_false_all es : has_merge es = false -> forall kv, In kv es -> is_merge (fst kv) = false.
Proof.
  unfold has_merge. intros H kv Hin. destruct (is_merge (fst kv)) eqn:E; [|reflexivity].
  assert (existsb (fun kv => is_merge (fst kv)) es = true); [|congruence].
  apply existsb_exists. exists kv. split; assumption.
Qed.

Section PlainMap.
  Variable rec : node -> res node.
  Variable rs : node -> option value.
  Variable dm : node -> bool.
  Hypothesis IH : forall t t' v, dm t = true -> rec t = ROk t' -> rs t = Some v -> veq (value_of t') v.

  Lemma map_entries_veq es : forall es' ex,
    (forall kv, In kv es -> dm (snd kv) = true) ->
    map_entries rec es = ROk es' ->
    all_some (map (fun kv => option_map (fun v => (fst kv, v)) (rs (snd kv))) es) = Some ex ->
    forall k, orel veq (vlookup k (map entry_value es')) (vlookup k ex).
  Proof.
    induction es as [|[k0 v0] r IHr]; intros es' ex Hd Hm Hs k; cbn [map_entries map all_some fst snd] in Hm, Hs.
    - injection Hm as <-. injection Hs as <-. constructor.
    - apply rbind_ok in Hm as (v' & Hv & Hm). apply rbind_ok in Hm as (r' & Hr & Hm). injection Hm as <-.
      destruct (rs v0) as [x|] eqn:Ex; cbn [option_map] in Hs; [|discriminate].
      destruct (all_some _) as [ex'|] eqn:E; [|discriminate]. injection Hs as <-.
      cbn [map entry_value vlookup fst snd]. destruct (str_eqb k k0).
      + constructor. eapply IH; [apply (Hd (k0, v0)); left; reflexivity | exact Hv | exact Ex].
      + eapply IHr; [intros kv Hkv; apply Hd; right; exact Hkv | exact Hr | reflexivity].
  Qed.

  Lemma map_res_veq l : forall l' lv,
    forallb dm l = true -> map_res rec l = ROk l' -> all_some (map rs l) = Some lv ->
    Forall2 veq (map value_of l') lv.
  Proof.
    induction l as [|x r IHr]; intros l' lv Hd Hm Hs; cbn [map_res map all_some forallb] in Hd, Hm, Hs.
    - injection Hm as <-. injection Hs as <-. constructor.
    - apply andb_true_iff in Hd as [Hdx Hdr].
      apply rbind_ok in Hm as (x' & Hx & Hm). apply rbind_ok in Hm as (r' & Hr & Hm). injection Hm as <-.
      destruct (rs x) as [vx|] eqn:Ex; [|discriminate].
      destruct (all_some (map rs r)) as [lv'|] eqn:E; [|discriminate]. injection Hs as <-.
      cbn [map]. constructor; [eapply IH; eassumption | eapply IHr; [exact Hdr | exact Hr | reflexivity]].
  Qed.
End PlainMap.

Theorem explode_resolves fe : forall fs d, merge_simple_doc fs d = true ->
  (forall d' v, explode fe d = ROk d' -> resolve fs d = Some v -> veq (value_of d') v)
  /\ (forall a tes, explode fe d = ROk (Mp a tes) -> NoDup (keys tes)).
Proof.
  induction fe as [|f IHf]; intros fs d Hd; [split; intros; discriminate|].
  destruct fs as [|g]; [discriminate|].
  assert (IH1 : forall t t' v, merge_simple_doc g t = true -> explode f t = ROk t' -> resolve g t = Some v -> veq (value_of t') v)
    by (intros t t' v Ht; apply (IHf g t Ht)).
  assert (IH2 : forall t a tes, merge_simple_doc g t = true -> explode f t = ROk (Mp a tes) -> NoDup (keys tes))
    by (intros t a tes Ht; apply (IHf g t Ht)).
  cbn [merge_simple_doc explode resolve] in *.
  destruct d as [a s|a l|a es|t]; cbn [dom_step explode_step resolve_step] in *.
  - split; [|discriminate]. intros d' v H1 H2. injection H1 as <-. injection H2 as <-. constructor.
  - split; [|intros a0 tes H; apply rbind_ok in H as (l' & _ & H); discriminate].
    intros d' v H1 H2. apply rbind_ok in H1 as (l' & Hl & H1). injection H1 as <-.
    destruct (all_some (map (resolve g) l)) as [lv|] eqn:E; cbn [option_map] in H2; [|discriminate]. injection H2 as <-.
    cbn [value_of]. constructor. eapply map_res_veq; eassumption.
  - destruct (has_merge es) eqn:Hm.
    + split.
      * intros d' v H1 H2. apply rbind_ok in H1 as (es' & He & H1). injection H1 as <-.
        rewrite value_of_map.
        exact (map_merge_level (explode f) (resolve g) (merge_simple_doc g) IH1 (explode_clean f) (explode_clean_id f) IH2
                 a es es' v Hd Hm He H2).
      * intros a0 tes H. apply rbind_ok in H as (es' & He & H). injection H as _ <-.
        eapply recon_nodup; [|exact He]. constructor.
    + pose proof Hd as Hok. unfold map_ok in Hok. apply andb_true_iff in Hok as [Hok _]. apply andb_true_iff in Hok as [Hnodup Hdm].
      split.
      * intros d' v H1 H2. apply rbind_ok in H1 as (es' & He & H1). injection H1 as <-.
        pose proof (has_merge_false_all _ Hm) as Hall.
        assert (F1 : filter (fun kv => negb (is_merge (fst kv))) es = es).
        { clear - Hall. induction es as [|kv r IHr]; [reflexivity|]. cbn [filter]. rewrite (Hall kv (or_introl eq_refl)). cbn [negb].
          f_equal. apply IHr. intros kv' H. apply Hall. right. exact H. }
        assert (F2 : filter (fun kv => is_merge (fst kv)) es = []).
        { clear - Hall. induction es as [|kv r IHr]; [reflexivity|]. cbn [filter]. rewrite (Hall kv (or_introl eq_refl)).
          apply IHr. intros kv' H. apply Hall. right. exact H. }
        rewrite F1, F2 in H2. cbn [map all_some concat] in H2.
        destruct (all_some _) as [ex|] eqn:E; [|discriminate]. injection H2 as <-. rewrite app_nil_r.
        rewrite value_of_map. constructor.
        eapply (map_entries_veq (explode f) (resolve g) (merge_simple_doc g) IH1); [| exact He | exact E].
        intros kv Hkv. rewrite forallb_forall in Hdm. specialize (Hdm kv Hkv). rewrite (Hall kv Hkv) in Hdm. exact Hdm.
      * intros a0 tes H. apply rbind_ok in H as (es' & He & H). injection H as _ <-.
        rewrite (map_entries_keys _ _ _ He). apply nodupb_NoDup, Hnodup.
  - split; [intros d' v H1 H2; exact (IH1 t d' v Hd H1 H2) | intros a0 tes H; exact (IH2 t a0 tes Hd H)].
Qed.

(* the JSON conversion (explode, then encode) of a document of the domain is its spec resolution *)
Theorem explode_is_resolve fe fs d d' v :
  merge_simple_doc fs d = true -> explode fe d = ROk d' -> resolve fs d = Some v -> veq (value_of d') v.
Proof. intros Hd. apply (explode_resolves fe fs d Hd). Qed.

(* ================================================================== *)
(* 7. route 1: traversal of the un-exploded document finds the node    *)
(*    whose resolution is the spec's value                             *)
(* ================================================================== *)
Lemma resolve_no_merge_key f : forall t vs, resolve f t = Some (VM vs) -> forall k, In k (map fst vs) -> is_merge k = false.
Proof.
  induction f as [|f IH]; intros t vs H k Hk; [discriminate|]. cbn [resolve] in H.
  destruct t as [a s|a l|a es|t]; cbn [resolve_step] in H.
  - discriminate.
  - destruct (all_some (map (resolve f) l)); discriminate.
  - destruct (all_some (map _ (filter (fun kv => negb (is_merge (fst kv))) es))) as [ex|] eqn:Eex; [|discriminate].
    destruct (all_some (map _ (filter (fun kv => is_merge (fst kv)) es))) as [ms|] eqn:Ems; [|discriminate].
    injection H as <-. rewrite map_app in Hk. apply in_app_or in Hk as [Hk|Hk].
    + apply all_some_Forall2 in Eex.
      assert (Hkeys : forall kv b, In kv (filter (fun kv => negb (is_merge (fst kv))) es) ->
                option_map (fun v => (fst kv, v)) (resolve f (snd kv)) = Some b -> is_merge (fst b) = false).
      { intros kv b Hin Hb. apply filter_In in Hin as [_ Hn]. apply negb_true_iff in Hn.
        destruct (resolve f (snd kv)); [|discriminate]. injection Hb as <-. exact Hn. }
      clear - Eex Hk Hkeys. induction Eex as [|kv b l r H0 HF IHF]; [destruct Hk|].
      cbn [map] in Hk. destruct Hk as [<-|Hk].
      * eapply Hkeys; [left; reflexivity | exact H0].
      * apply IHF; [exact Hk | intros kv' b' Hin; apply Hkeys; right; exact Hin].
    + apply in_map_iff in Hk as ([k' x] & <- & Hin). cbn [fst]. apply in_concat in Hin as (s & Hs & Hin).
      apply all_some_Forall2 in Ems.
      assert (Hsrc : forall item es0, source_entries (resolve f) item = Some es0 -> forall k0, In k0 (map fst es0) -> is_merge k0 = false).
      { intros item es0 H0 k0 Hk0. destruct item as [a0 s0|a0 l0|a0 es1|t0]; cbn [source_entries] in H0; try discriminate.
        destruct (resolve f t0) as [[s1|l1|es2]|] eqn:E; try discriminate. injection H0 as <-. eapply IH; eassumption. }
      assert (Hms : forall (kv : str * node) b, merge_sources (resolve f) (snd kv) = Some b -> forall k0, In k0 (map fst b) -> is_merge k0 = false).
      { intros kv b Hb k0 Hk0. destruct (snd kv) as [a0 s0|a0 items|a0 es1|t0]; cbn [merge_sources] in Hb;
          try (eapply Hsrc; eassumption).
        destruct (all_some (map (source_entries (resolve f)) items)) as [bs|] eqn:Eb; cbn [option_map] in Hb; [|discriminate].
        injection Hb as <-. apply all_some_Forall2 in Eb.
        apply in_map_iff in Hk0 as ([k1 x1] & <- & Hin1). cbn [fst]. apply in_concat in Hin1 as (s1 & Hs1 & Hin1).
        clear - Eb Hs1 Hin1 Hsrc. induction Eb as [|it b0 l r H0 HF IHF]; [destruct Hs1|].
        destruct Hs1 as [<-|Hs1]; [eapply Hsrc; [exact H0 | apply in_map_iff; exists (k1, x1); split; [reflexivity | exact Hin1]] | apply IHF, Hs1]. }
      clear - Ems Hs Hin Hms. induction Ems as [|kv b l r H0 HF IHF]; [destruct Hs|].
      destruct Hs as [<-|Hs]; [eapply Hms; [exact H0 | apply in_map_iff; exists (k', x); split; [reflexivity | exact Hin]] | apply IHF, Hs].
  - eapply IH; eassumption.
Qed.

Lemma tlook_step_app rec k a : forall b acc,
  tlook_step rec k (a ++ b) acc = rbind (tlook_step rec k a acc) (tlook_step rec k b).
Proof.
  induction a as [|[k' v] r IH]; intros b acc; cbn [app tlook_step]; [reflexivity|].
  destruct (is_merge k' && negb (is_merge k)).
  - rewrite rbind_assoc. destruct (tmerge rec k v acc); cbn [rbind]; try reflexivity. apply IH.
  - destruct (str_eqb k' k); apply IH.
Qed.

Lemma tlook_step_explicit rec k X :
  (forall kv, In kv X -> is_merge (fst kv) = false) -> NoDup (keys X) -> forall acc,
  tlook_step rec k X acc = ROk (match lookup_entry k X with Some v => Some v | None => acc end).
Proof.
  induction X as [|[k' v] r IH]; intros Hm Hn acc; cbn [tlook_step lookup_entry]; [reflexivity|].
  pose proof (Hm (k', v) (or_introl eq_refl)) as Hk'. cbn [fst] in Hk'. rewrite Hk'. cbn [andb].
  cbn [keys map fst] in Hn. inversion Hn as [|? ? Hnotin Hn']; subst.
  rewrite (str_eqb_sym k' k). destruct (str_eqb k k') eqn:E.
  - apply str_eqb_eq in E. subst k'. rewrite IH by (try assumption; intros kv Hkv; apply Hm; right; exact Hkv).
    rewrite (lookup_entry_none _ _ Hnotin). reflexivity.
  - apply IH; [intros kv Hkv; apply Hm; right; exact Hkv | assumption].
Qed.

(* the traversal found a node whose resolution is x *)
Definition found (o : option node) (x : value) : Prop :=
  exists n g, o = Some n /\ merge_simple_doc g n = true /\ resolve g n = Some x.

Definition look_ok (o acc : option node) (ox : option value) : Prop :=
  match ox with Some x => found o x | None => o = acc end.

Section LookLevel.
  Variable rs : node -> option value.
  Variable dm : node -> bool.
  Hypothesis HE : forall v x, dm v = true -> rs v = Some x -> exists g, merge_simple_doc g v = true /\ resolve g v = Some x.
  Hypothesis HT : forall a tes ves, dm (Mp a tes) = true -> rs (Mp a tes) = Some (VM ves) ->
      forall F k acc o, is_merge k = false -> tlook F k tes acc = ROk o -> look_ok o acc (vlookup k ves).

  Lemma merge_phase_look F k : is_merge k = false -> forall ts vss,
    Forall2 (fun t ves => rs t = Some (VM ves) /\ dm t = true /\ is_mp t = true) ts vss ->
    length (filter (fun ves => mem k (map fst ves)) vss) <= 1 ->
    forall acc o, tmerge_list (tlook F) k (map Al ts) acc = ROk o -> look_ok o acc (vlookup k (concat vss)).
  Proof.
    intros Hk ts vss HF. induction HF as [|t0 ves0 l r (Hr0 & Hd0 & Hm0) HF IHF]; intros Hc acc o H.
    - cbn in H. injection H as <-. reflexivity.
    - cbn [map tmerge_list] in H. apply rbind_ok in H as (o0 & H0 & H).
      destruct t0 as [a0 s0|a0 l0|a0 tes0|t0']; try discriminate. cbn [tmerge] in H0.
      pose proof (HT a0 tes0 ves0 Hd0 Hr0 F k acc o0 Hk H0) as L0.
      cbn [filter] in Hc. cbn [concat]. rewrite vlookup_app.
      destruct (vlookup k ves0) as [x|] eqn:E0.
      + assert (mem k (map fst ves0) = true) as Hm by (apply mem_in; eapply vlookup_in, E0).
        rewrite Hm in Hc. cbn [length] in Hc.
        assert (Hnil : filter (fun ves => mem k (map fst ves)) r = []) by (destruct (filter _ r); [reflexivity | cbn in Hc; lia]).
        assert (Hrest : vlookup k (concat r) = None).
        { apply vlookup_concat_all_none. intros s Hs. pose proof (filter_nil_forall _ _ Hnil s Hs) as Hf.
          destruct (vlookup k s) as [y|] eqn:Ey; [|reflexivity]. apply vlookup_in, mem_in in Ey. congruence. }
        assert (Hc' : length (filter (fun ves => mem k (map fst ves)) r) <= 1) by (rewrite Hnil; cbn; lia).
        specialize (IHF Hc' o0 o H). rewrite Hrest in IHF. cbn [look_ok] in IHF. subst o. exact L0.
      + cbn [look_ok] in L0. subst o0.
        assert (Hc' : length (filter (fun ves => mem k (map fst ves)) r) <= 1).
        { destruct (mem k (map fst ves0)); cbn [length] in Hc; lia. }
        exact (IHF Hc' acc o H).
  Qed.

  Theorem tlook_level a es vs :
    map_ok dm rs es = true -> resolve_step rs (Mp a es) = Some (VM vs) ->
    forall F k acc o, is_merge k = false -> tlook F k es acc = ROk o -> look_ok o acc (vlookup k vs).
  Proof.
    intros Hok Hres F k acc o Hk Hlook.
    destruct F as [|F]; cbn [tlook] in Hlook; [discriminate|].
    unfold map_ok in Hok. apply andb_true_iff in Hok as [Hok Hbm]. apply andb_true_iff in Hok as [Hnodup Hdm].
    apply nodupb_NoDup in Hnodup. rewrite forallb_forall in Hdm.
    assert (Hexp : forall (X : entries) ex, (forall kv, In kv X -> In kv es) -> (forall kv, In kv X -> is_merge (fst kv) = false) ->
              all_some (map (fun kv => option_map (fun v => (fst kv, v)) (rs (snd kv))) X) = Some ex ->
              forall v, lookup_entry k X = Some v -> exists x, vlookup k ex = Some x /\ found (Some v) x).
    { intros X ex Hsub Hnm Hex v Hv. destruct (spec_explicit_lookup rs k X ex Hex) as [H1 H2].
      destruct (H2 v Hv) as (x & Hx). exists x. rewrite H1, Hv. split; [exact Hx|].
      assert (Hin : In (k, v) X).
      { clear - Hv. induction X as [|[k' v'] r IHr]; cbn [lookup_entry] in Hv; [discriminate|].
        destruct (str_eqb k k') eqn:E; [injection Hv as <-; apply str_eqb_eq in E; subst; left; reflexivity | right; apply IHr, Hv]. }
      pose proof (Hdm _ (Hsub _ Hin)) as Hd. pose proof (Hnm _ Hin) as Hf. cbn [fst snd] in Hd, Hf. rewrite Hf in Hd.
      destruct (HE v x Hd Hx) as (g & Hg1 & Hg2). exists v, g. repeat split; assumption. }
    cbn [resolve_step] in Hres.
    destruct (before_merge es) as [[pre mv]|] eqn:Ebm.
    - destruct (before_merge_split _ _ _ Ebm) as (mk & post & Hes & Hmk & Hpre).
      apply is_merge_eq in Hmk. subst mk.
      destruct (merge_targets mv) as [ts|] eqn:Ets; [|discriminate].
      apply andb_true_iff in Hbm as [Hbm Hrk]. apply andb_true_iff in Hbm as [Hmp Hdts].
      destruct (all_some (map (resolved_keys rs) ts)) as [rks|] eqn:Erks; [|discriminate].
      apply andb_true_iff in Hrk as [Hpd Hprek].
      assert (Hkeys : keys es = keys pre ++ merge_key :: keys post).
      { rewrite Hes. unfold keys. rewrite map_app. reflexivity. }
      rewrite Hkeys in Hnodup.
      assert (Hpost : forall kv, In kv post -> is_merge (fst kv) = false).
      { intros [k0 v0] Hin. cbn [fst]. destruct (is_merge k0) eqn:E; [|reflexivity]. exfalso.
        apply is_merge_eq in E. subst k0. apply NoDup_app_r in Hnodup. inversion Hnodup as [|? ? Hn _]; subst.
        apply Hn. apply in_map_iff. exists (merge_key, v0). split; [reflexivity | exact Hin]. }
      assert (Hnd_post : NoDup (keys post)) by (apply NoDup_app_r in Hnodup; inversion Hnodup; assumption).
      assert (Hnd_pre : NoDup (keys pre)) by (eapply NoDup_app_l, Hnodup).
      rewrite Hes in Hres. rewrite !filter_app in Hres. cbn [filter fst] in Hres.
      assert (Hmkt : is_merge merge_key = true) by reflexivity. rewrite Hmkt in Hres. cbn [negb] in Hres.
      assert (Ffn : forall X : entries, (forall kv, In kv X -> is_merge (fst kv) = false) ->
                filter (fun kv => negb (is_merge (fst kv))) X = X /\ filter (fun kv => is_merge (fst kv)) X = []).
      { intros X HX. induction X as [|kv X' IHX]; [split; reflexivity|]. cbn [filter].
        rewrite (HX kv (or_introl eq_refl)). cbn [negb].
        destruct (IHX (fun kv' Hkv' => HX kv' (or_intror Hkv'))) as [-> ->]. split; reflexivity. }
      destruct (Ffn pre Hpre) as [Fp1 Fp2]. destruct (Ffn post Hpost) as [Fq1 Fq2].
      rewrite Fp1, Fp2, Fq1, Fq2 in Hres. cbn [app map all_some snd] in Hres.
      destruct (all_some (map _ (pre ++ post))) as [ex|] eqn:Eex; [|discriminate].
      destruct (merge_sources rs mv) as [ms|] eqn:Ems; [|discriminate].
      injection Hres as <-. cbn [concat]. rewrite app_nil_r.
      destruct (spec_merge_sources rs mv ts ms Ets Ems) as (vss & Hvss & ->).
      (* the traversal *)
      rewrite Hes in Hlook. rewrite tlook_step_app in Hlook. apply rbind_ok in Hlook as (o1 & H1 & Hlook).
      rewrite (tlook_step_explicit _ _ _ Hpre Hnd_pre) in H1. injection H1 as <-.
      cbn [tlook_step] in Hlook. rewrite Hmkt, Hk in Hlook. cbn [andb negb] in Hlook.
      apply rbind_ok in Hlook as (o2 & H2 & H3).
      rewrite (tlook_step_explicit _ _ _ Hpost Hnd_post) in H3. injection H3 as <-.
      (* targets *)
      assert (Hal : Forall2 (fun t ves => rs t = Some (VM ves) /\ dm t = true /\ is_mp t = true) ts vss).
      { eapply Forall2_impl_in; [exact Hvss|]. intros t ves Hin Hr. rewrite forallb_forall in Hmp, Hdts.
        split; [exact Hr|]. split; [apply Hdts, Hin | apply Hmp, Hin]. }
      assert (Hrks : rks = map (map fst) vss).
      { apply all_some_Forall2 in Erks. clear - Erks Hvss. revert rks Erks.
        induction Hvss as [|t ves l r Hr HF IHF]; intros rks Erks; inversion Erks as [|? rk ? rks' Hrk HF']; subst; [reflexivity|].
        cbn [map]. unfold resolved_keys in Hrk. rewrite Hr in Hrk. injection Hrk as <-. f_equal. apply IHF, HF'. }
      assert (Hcount : length (filter (fun ves => mem k (map fst ves)) vss) <= 1).
      { pose proof (pairwise_disjoint_count k rks Hpd) as Hc. rewrite Hrks in Hc.
        clear - Hc. induction vss as [|ves r IHr]; [cbn; lia|]. cbn [map filter] in *.
        destruct (mem k (map fst ves)); cbn [length] in *; [|apply IHr, Hc].
        assert (length (filter (mem k) (map (map fst) r)) = length (filter (fun ves => mem k (map fst ves)) r)) as <-; [|exact Hc].
        clear. induction r as [|x r IHr]; [reflexivity|]. cbn [map filter]. destruct (mem k (map fst x)); cbn [length]; rewrite IHr; reflexivity. }
      assert (L2 : look_ok o2 (match lookup_entry k pre with Some v => Some v | None => acc end) (vlookup k (concat vss))).
      { destruct mv as [a0 s|a0 items|a0 es0|t]; cbn [merge_targets] in Ets; try discriminate.
        - apply alias_targets_items in Ets. subst items. rewrite tmerge_seq in H2.
          eapply merge_phase_look; eassumption.
        - injection Ets as <-. inversion Hal as [|? ves0 ? ? (Hr0 & Hd0 & Hm0) HF0]; subst. inversion HF0; subst.
          cbn [concat]. rewrite app_nil_r.
          destruct t as [a1 s1|a1 l1|a1 tes1|t1]; try discriminate. cbn [tmerge] in H2.
          eapply HT; eassumption. }
      rewrite vlookup_app.
      destruct (spec_explicit_lookup rs k (pre ++ post) ex Eex) as [Hex _]. rewrite lookup_entry_app in Hex.
      assert (Hsub_all : forall kv, In kv (pre ++ post) -> In kv es).
      { intros kv Hin. rewrite Hes. apply in_app_or in Hin as [Hin|Hin]; apply in_or_app; [left | right; right]; exact Hin. }
      assert (Hnm_all : forall kv, In kv (pre ++ post) -> is_merge (fst kv) = false).
      { intros kv Hin. apply in_app_or in Hin as [Hin|Hin]; [apply Hpre | apply Hpost]; exact Hin. }
      destruct (lookup_entry k post) as [vq|] eqn:Eq.
      + assert (Hpn : lookup_entry k pre = None).
        { apply lookup_entry_none. intro Hin. eapply NoDup_app_disj; [exact Hnodup | exact Hin|].
          right. eapply lookup_entry_in, Eq. }
        destruct (Hexp (pre ++ post) ex Hsub_all Hnm_all Eex vq) as (x & Hx & Hf).
        { rewrite lookup_entry_app, Hpn. exact Eq. }
        rewrite Hx. exact Hf.
      + destruct (lookup_entry k pre) as [vp|] eqn:Ep.
        * destruct (Hexp (pre ++ post) ex Hsub_all Hnm_all Eex vp) as (x & Hx & Hf).
          { rewrite lookup_entry_app, Ep. reflexivity. }
          rewrite Hx.
          (* no merged map provides k *)
          assert (Hnone : vlookup k (concat vss) = None).
          { apply vlookup_concat_all_none. intros ves Hv.
            destruct (vlookup k ves) as [y|] eqn:Ey; [|reflexivity]. exfalso.
            rewrite forallb_forall in Hprek. specialize (Hprek k (lookup_entry_in _ _ _ Ep)). rewrite forallb_forall in Hprek.
            assert (In (map fst ves) rks) by (rewrite Hrks; apply in_map, Hv).
            specialize (Hprek _ H). apply negb_true_iff in Hprek. apply vlookup_in, mem_in in Ey. congruence. }
          rewrite Hnone in L2. cbn [look_ok] in L2. subst o2. exact Hf.
        * rewrite Hex. exact L2.
    - (* no merge key *)
      pose proof (before_merge_none _ Ebm) as Hhm. pose proof (has_merge_false_all _ Hhm) as Hall.
      assert (F1 : filter (fun kv => negb (is_merge (fst kv))) es = es).
      { clear - Hall. induction es as [|kv r IHr]; [reflexivity|]. cbn [filter]. rewrite (Hall kv (or_introl eq_refl)). cbn [negb].
        f_equal. apply IHr. intros kv' H. apply Hall. right. exact H. }
      assert (F2 : filter (fun kv => is_merge (fst kv)) es = []).
      { clear - Hall. induction es as [|kv r IHr]; [reflexivity|]. cbn [filter]. rewrite (Hall kv (or_introl eq_refl)).
        apply IHr. intros kv' H. apply Hall. right. exact H. }
      rewrite F1, F2 in Hres. cbn [map all_some concat] in Hres.
      destruct (all_some _) as [ex|] eqn:Eex; [|discriminate]. injection Hres as <-. rewrite app_nil_r.
      rewrite (tlook_step_explicit _ _ _ Hall Hnodup) in Hlook. injection Hlook as <-.
      destruct (lookup_entry k es) as [v|] eqn:Ev.
      + destruct (Hexp es ex (fun kv H => H) Hall Eex v Ev) as (x & Hx & Hf). rewrite Hx. exact Hf.
      + destruct (spec_explicit_lookup rs k es ex Eex) as [H1 _]. rewrite H1, Ev. reflexivity.
  Qed.
End LookLevel.

Theorem tlook_domain f : forall a es vs,
  merge_simple_doc (S f) (Mp a es) = true -> resolve (S f) (Mp a es) = Some (VM vs) ->
  forall F k acc o, is_merge k = false -> tlook F k es acc = ROk o -> look_ok o acc (vlookup k vs).
Proof.
  induction f as [|f IHf]; intros a es vs Hd Hr; cbn [merge_simple_doc dom_step resolve] in Hd, Hr.
  - eapply (tlook_level (resolve 0) (merge_simple_doc 0)); [| | exact Hd | exact Hr]; intros; discriminate.
  - eapply (tlook_level (resolve (S f)) (merge_simple_doc (S f))); [| | exact Hd | exact Hr].
    + intros v x Hv Hx. exists (S f). split; assumption.
    + intros a0 tes ves Hd0 Hr0. eapply IHf; eassumption.
Qed.

Lemma resolve_step_map_inv rs a es v : resolve_step rs (Mp a es) = Some v -> exists vs, v = VM vs.
Proof.
  cbn [resolve_step]. destruct (all_some _); [|discriminate]. destruct (all_some _); [|discriminate].
  intros H. injection H as <-. eexists. reflexivity.
Qed.

Lemma follow_domain d : forall f v, merge_simple_doc f d = true -> resolve f d = Some v ->
  exists g, merge_simple_doc g (follow d) = true /\ resolve g (follow d) = Some v /\ (forall t, follow d <> Al t).
Proof.
  induction d as [a s|a l _|a es _|t IH] using node_ind'; intros f v Hd Hr; cbn [follow].
  - exists f. repeat split; try assumption. discriminate.
  - exists f. repeat split; try assumption. discriminate.
  - exists f. repeat split; try assumption. discriminate.
  - destruct f as [|f]; [discriminate|]. cbn [merge_simple_doc dom_step resolve resolve_step] in Hd, Hr. eapply IH; eassumption.
Qed.

Lemma nth_aligned (rs : node -> option value) (dm : node -> bool) l : forall lv i x,
  forallb dm l = true -> all_some (map rs l) = Some lv -> nth_error lv i = Some x ->
  exists n, nth_error l i = Some n /\ dm n = true /\ rs n = Some x.
Proof.
  induction l as [|y r IH]; intros lv i x Hd Hs Hn; cbn [map all_some forallb] in Hd, Hs.
  - injection Hs as <-. destruct i; discriminate.
  - apply andb_true_iff in Hd as [Hdy Hdr]. destruct (rs y) as [vy|] eqn:Ey; [|discriminate].
    destruct (all_some (map rs r)) as [lv'|] eqn:E; [|discriminate]. injection Hs as <-.
    destruct i as [|i]; cbn [nth_error] in Hn |- *.
    + injection Hn as <-. exists y. repeat split; assumption.
    + eapply IH; [exact Hdr | reflexivity | exact Hn].
Qed.

(* route 1, all paths: the node reached is the one whose resolution the spec reads at that path *)
Theorem traverse_domain p : forall d f v F r x,
  merge_simple_doc f d = true -> resolve f d = Some v ->
  traverse F d p = ROk r -> vget p v = Some x ->
  exists n g, r = TNode n /\ merge_simple_doc g n = true /\ resolve g n = Some x.
Proof.
  induction p as [|s p IH]; intros d f v F r x Hd Hr Ht Hg.
  - cbn in Ht, Hg. injection Ht as <-. injection Hg as <-. exists d, f. repeat split; assumption.
  - cbn [traverse] in Ht. apply rbind_ok in Ht as (r1 & Hs & Ht).
    destruct (follow_domain d f v Hd Hr) as (g & Hdg & Hrg & Hnal).
    unfold traverse_step in Hs.
    destruct g as [|g]; [discriminate|].
    destruct (follow d) as [a0 s0|a0 l|a0 es|t0] eqn:Ef; [| | |exfalso; exact (Hnal t0 eq_refl)].
    + (* scalar: the spec has nothing below it *)
      cbn [resolve resolve_step] in Hrg. injection Hrg as <-. destruct s; cbn in Hg; discriminate.
    + cbn [resolve resolve_step merge_simple_doc dom_step] in Hrg, Hdg.
      destruct (all_some (map (resolve g) l)) as [lv|] eqn:E; cbn [option_map] in Hrg; [|discriminate]. injection Hrg as <-.
      destruct s as [k|i]; cbn [vget] in Hg; [discriminate|].
      destruct (nth_error lv i) as [x1|] eqn:En; [|discriminate].
      destruct (nth_aligned (resolve g) (merge_simple_doc g) l lv i x1 Hdg E En) as (n1 & Hn1 & Hd1 & Hr1).
      injection Hs as <-. rewrite Hn1 in Ht. eapply IH; eassumption.
    + pose proof Hrg as Hrg'. cbn [resolve] in Hrg'. destruct (resolve_step_map_inv _ _ _ _ Hrg') as (vs & ->).
      destruct s as [k|i]; cbn [vget] in Hg; [|discriminate].
      destruct (vlookup k vs) as [x1|] eqn:El; [|discriminate].
      assert (Hk : is_merge k = false) by (eapply resolve_no_merge_key; [exact Hrg | eapply vlookup_in, El]).
      apply rbind_ok in Hs as (o & Ho & Hs). injection Hs as <-.
      pose proof (tlook_domain g a0 es vs Hdg Hrg F k None o Hk Ho) as L. rewrite El in L.
      destruct L as (n1 & g1 & -> & Hd1 & Hr1). eapply IH; eassumption.
Qed.

(* ================================================================== *)
(* 8. the routes against the spec, all documents of the domain, all paths *)
(* ================================================================== *)
Lemma Forall2_nth {A B : Type} (R : A -> B -> Prop) l r : Forall2 R l r -> forall i y, nth_error r i = Some y ->
  exists x, nth_error l i = Some x /\ R x y.
Proof.
  induction 1 as [|a b l r Hab HF IHF]; intros i y Hn; [destruct i; discriminate|].
  destruct i as [|i]; cbn [nth_error] in *; [injection Hn as <-; exists a; split; [reflexivity | exact Hab] | apply IHF, Hn].
Qed.

Lemma vget_veq p : forall v1 v2 x, veq v1 v2 -> vget p v2 = Some x -> exists x1, vget p v1 = Some x1 /\ veq x1 x.
Proof.
  induction p as [|s p IH]; intros v1 v2 x Hv Hg.
  - cbn in Hg. injection Hg as <-. exists v1. split; [reflexivity | exact Hv].
  - destruct s as [k|i]; cbn [vget] in Hg.
    + destruct v2 as [s2|l2|es2]; try discriminate. inversion Hv as [| |es1 ? Hall]; subst.
      destruct (vlookup k es2) as [y|] eqn:E; [|discriminate].
      specialize (Hall k). rewrite E in Hall. apply orel_some_r in Hall as (y1 & Hy1 & Hyy).
      cbn [vget]. rewrite Hy1. eapply IH; eassumption.
    + destruct v2 as [s2|l2|es2]; try discriminate. inversion Hv as [|l1 ? HF|]; subst.
      destruct (nth_error l2 i) as [y|] eqn:E; [|discriminate].
      destruct (Forall2_nth _ _ _ HF i y E) as (y1 & Hy1 & Hyy).
      cbn [vget]. rewrite Hy1. eapply IH; eassumption.
Qed.

Theorem routes_agree_on_domain fs d v p x :
  merge_simple_doc fs d = true -> resolve fs d = Some v -> vget p v = Some x ->
  (* route 1: traversal of the un-exploded document, then the printer's explode of the result *)
  (forall F r, traverse F d p = ROk r ->
     exists n, r = TNode n /\ forall fe n', explode fe n = ROk n' -> veq (value_of n') x)
  (* routes 2 / 3: the exploded document, read at the same path *)
  /\ (forall fe d', explode fe d = ROk d' -> exists x1, vget p (value_of d') = Some x1 /\ veq x1 x).
Proof.
  intros Hd Hr Hg. split.
  - intros F r Ht. destruct (traverse_domain p d fs v F r x Hd Hr Ht Hg) as (n & g & -> & Hdn & Hrn).
    exists n. split; [reflexivity|]. intros fe n' He. eapply explode_is_resolve; eassumption.
  - intros fe d' He. eapply vget_veq; [eapply explode_is_resolve; eassumption | exact Hg].
Qed.

(* ================================================================== *)
(* 9. route 2 literally: the model's traverse on the exploded tree     *)
(* ================================================================== *)
Lemma NoDup_nodupb l : NoDup l -> nodupb l = true.
Proof.
  induction 1 as [|k r Hn _ IH]; [reflexivity|]. cbn [nodupb]. rewrite IH, andb_true_r.
  apply negb_true_iff. apply mem_false. exact Hn.
Qed.

Lemma Forall_replace_first (P : node -> Prop) k v acc :
  P v -> Forall (fun kv => P (snd kv)) acc -> Forall (fun kv => P (snd kv)) (replace_first k v acc).
Proof.
  intros Hv. induction acc as [|[k' v'] r IH]; intros H; [constructor|]. cbn [replace_first].
  inversion H as [|? ? Hh Ht]; subst. destruct (str_eqb k k'); constructor; try assumption. apply IH, Ht.
Qed.

(* values of the accumulator keep a property P that every child explode establishes *)
Section ValuesInv.
  Variable rec : node -> res node.
  Variables (P Q T : node -> Prop).
  Hypothesis HQ : forall v v', Q v -> rec v = ROk v' -> P v'.
  Hypothesis HT : forall t a tes, T t -> rec t = ROk (Mp a tes) -> Forall (fun kv => Q (snd kv)) tes.

  Definition allP (acc : entries) : Prop := Forall (fun kv => P (snd kv)) acc.

  Lemma override_entry_inv texts key v start acc acc' :
    Q v -> allP acc -> override_entry rec texts key v start acc = ROk acc' -> allP acc'.
  Proof.
    intros Hq Ha H. unfold override_entry in H. apply rbind_ok in H as (v' & Hv & H).
    pose proof (HQ _ _ Hq Hv) as Hp.
    destruct (has_key key acc).
    - injection H as <-. apply Forall_replace_first; assumption.
    - destruct (later_has texts (start + 2) key); injection H as <-; [exact Ha|].
      unfold allP. apply Forall_app. split; [exact Ha | constructor; [exact Hp | constructor]].
  Qed.

  Lemma override_all_inv texts tes : forall start acc acc',
    Forall (fun kv => Q (snd kv)) tes -> allP acc -> override_all rec texts tes start acc = ROk acc' -> allP acc'.
  Proof.
    induction tes as [|[k v] r IH]; intros start acc acc' Hq Ha H; cbn [override_all] in H.
    - injection H as <-. exact Ha.
    - inversion Hq as [|? ? Hv Hr]; subst. apply rbind_ok in H as (acc1 & H1 & H).
      eapply IH; [exact Hr | | exact H]. eapply override_entry_inv; eassumption.
  Qed.

  Definition Titem (x : node) : Prop := match x with Al t => T t | _ => True end.

  Lemma apply_alias_inv texts item idx acc acc' :
    Titem item -> allP acc -> apply_alias rec texts item idx acc = ROk acc' -> allP acc'.
  Proof.
    intros Ht Ha H. destruct item as [a s|a l|a es|t]; cbn [apply_alias] in H; try (injection H as <-; exact Ha).
    apply rbind_ok in H as (t' & Hr & H). destruct t' as [a s|a l|a tes|t']; try discriminate.
    eapply override_all_inv; [eapply HT; eassumption | exact Ha | exact H].
  Qed.

  Lemma apply_seq_rev_inv texts ritems : forall acc acc',
    Forall (fun ji => Titem (snd ji)) ritems -> allP acc -> apply_seq_rev rec texts ritems acc = ROk acc' -> allP acc'.
  Proof.
    induction ritems as [|[j item] r IH]; intros acc acc' Ht Ha H; cbn [apply_seq_rev] in H.
    - injection H as <-. exact Ha.
    - inversion Ht as [|? ? Hh Hr]; subst. apply rbind_ok in H as (acc1 & H1 & H).
      eapply IH; [exact Hr | | exact H]. eapply apply_alias_inv; eassumption.
  Qed.

  Definition Tvalue (v : node) : Prop :=
    match v with
    | Sq _ items => Forall Titem items
    | _ => Titem v
    end.

  Lemma indexed_Forall {A : Type} (R : A -> Prop) l : forall i, Forall R l -> Forall (fun ji => R (snd ji)) (indexed i l).
  Proof. induction l as [|a r IH]; intros i H; cbn [indexed]; [constructor|]. inversion H; subst. constructor; [assumption | apply IH; assumption]. Qed.

  Lemma recon_inv texts es : forall i acc acc',
    Forall (fun kv => if is_merge (fst kv) then Tvalue (snd kv) else Q (snd kv)) es ->
    allP acc -> recon rec texts es i acc = ROk acc' -> allP acc'.
  Proof.
    induction es as [|[k v] r IH]; intros i acc acc' He Ha H; cbn [recon] in H.
    - injection H as <-. exact Ha.
    - inversion He as [|? ? Hh Hr]; subst. cbn [fst snd] in Hh.
      apply rbind_ok in H as (acc1 & H1 & H). eapply IH; [exact Hr | | exact H].
      destruct (is_merge k).
      + destruct v as [a s|a l|a es'|t]; cbn [Tvalue] in Hh; try (eapply apply_alias_inv; eassumption).
        eapply apply_seq_rev_inv; [|exact Ha | exact H1]. apply Forall_rev. apply indexed_Forall. exact Hh.
      + eapply override_entry_inv; eassumption.
  Qed.
End ValuesInv.

Lemma nodup_tree_map a es : nodup_tree (Mp a es) = nodupb (keys es) && forallb (fun kv => nodup_tree (snd kv)) es.
Proof. reflexivity. Qed.

Theorem explode_nodup_tree fe : forall fs d d', merge_simple_doc fs d = true -> explode fe d = ROk d' -> nodup_tree d' = true.
Proof.
  induction fe as [|f IHf]; intros fs d d' Hd H; [discriminate|].
  destruct fs as [|g]; [discriminate|].
  cbn [merge_simple_doc explode] in *.
  destruct d as [a s|a l|a es|t]; cbn [dom_step explode_step] in *.
  - injection H as <-. reflexivity.
  - apply rbind_ok in H as (l' & Hl & H). injection H as <-. cbn [nodup_tree].
    clear - IHf Hd Hl. revert l' Hl. induction l as [|x r IHr]; intros l' Hl; cbn [map_res forallb] in Hd, Hl.
    + injection Hl as <-. reflexivity.
    + apply andb_true_iff in Hd as [Hx Hr]. apply rbind_ok in Hl as (x' & Ex & Hl). apply rbind_ok in Hl as (r' & Er & Hl).
      injection Hl as <-. cbn [forallb]. rewrite (IHf g x x' Hx Ex), (IHr Hr r' Er). reflexivity.
  - pose proof Hd as Hok. unfold map_ok in Hok. apply andb_true_iff in Hok as [Hok Hbm]. apply andb_true_iff in Hok as [Hnodup Hdm].
    rewrite forallb_forall in Hdm.
    destruct (has_merge es) eqn:Hm; apply rbind_ok in H as (es' & He & H); injection H as <-; rewrite nodup_tree_map.
    + (* reconstructed map *)
      assert (Hn : NoDup (keys es')) by (eapply recon_nodup; [|exact He]; constructor).
      rewrite (NoDup_nodupb _ Hn). cbn [andb].
      set (P := fun v => nodup_tree v = true).
      set (Q := fun v => merge_simple_doc g v = true \/ (clean v = true /\ nodup_tree v = true)).
      set (T := fun t => merge_simple_doc g t = true).
      assert (HQ : forall v v', Q v -> explode f v = ROk v' -> P v').
      { intros v v' [Hq|[Hc Hq]] Hv; [eapply IHf; eassumption|]. rewrite (explode_clean_id _ _ _ Hc Hv). exact Hq. }
      assert (HT : forall t a0 tes, T t -> explode f t = ROk (Mp a0 tes) -> Forall (fun kv => Q (snd kv)) tes).
      { intros t a0 tes Ht Hr. pose proof (IHf g t _ Ht Hr) as Hnt. pose proof (explode_clean _ _ _ Hr) as Hc.
        rewrite nodup_tree_map in Hnt. apply andb_true_iff in Hnt as [_ Hnt]. rewrite clean_map in Hc. apply andb_true_iff in Hc as [_ Hc].
        rewrite forallb_forall in Hnt. unfold entries_clean in Hc. rewrite forallb_forall in Hc.
        apply Forall_forall. intros kv Hkv. right. split; [|apply Hnt, Hkv].
        specialize (Hc kv Hkv). unfold entry_clean in Hc. apply andb_true_iff in Hc as [_ Hc]. exact Hc. }
      assert (Hall : allP P es').
      { eapply (recon_inv (explode f) P Q T HQ HT); [| constructor | exact He].
        apply Forall_forall. intros [k v] Hkv. cbn [fst snd]. destruct (is_merge k) eqn:Ek.
        - (* the merge value: its targets are in the domain *)
          destruct (before_merge es) as [[pre mv]|] eqn:Ebm; [|apply before_merge_none in Ebm; congruence].
          destruct (before_merge_split _ _ _ Ebm) as (mk & post & Hes & Hmk & Hpre).
          assert (v = mv) as ->.
          { (* the merge key occurs once *)
            apply nodupb_NoDup in Hnodup. apply is_merge_eq in Ek, Hmk. subst k mk.
            rewrite Hes in Hkv, Hnodup. unfold keys in Hnodup. rewrite map_app in Hnodup. cbn [map fst] in Hnodup.
            apply in_app_or in Hkv as [Hkv|[Hkv|Hkv]].
            - pose proof (Hpre _ Hkv) as Hf. cbn in Hf. discriminate.
            - injection Hkv as <-. reflexivity.
            - exfalso. apply NoDup_app_r in Hnodup. inversion Hnodup as [|? ? Hnn _]; subst. apply Hnn.
              apply in_map_iff. exists (merge_key, v). split; [reflexivity | exact Hkv]. }
          destruct (merge_targets mv) as [ts|] eqn:Ets; [|discriminate].
          apply andb_true_iff in Hbm as [Hbm _]. apply andb_true_iff in Hbm as [_ Hdts]. rewrite forallb_forall in Hdts.
          destruct mv as [a0 s|a0 items|a0 es0|t]; cbn [merge_targets] in Ets; try discriminate; cbn [Tvalue Titem].
          + apply alias_targets_items in Ets. subst items. apply Forall_forall. intros x Hx.
            apply in_map_iff in Hx as (t & <- & Ht). cbn [Titem]. apply Hdts, Ht.
          + injection Ets as <-. apply Hdts. left. reflexivity.
        - left. pose proof (Hdm _ Hkv) as Hd0. cbn [fst snd] in Hd0. rewrite Ek in Hd0. exact Hd0. }
      apply forallb_forall. intros kv Hkv. unfold allP in Hall. rewrite Forall_forall in Hall. apply Hall, Hkv.
    + rewrite (map_entries_keys _ _ _ He), Hnodup. cbn [andb].
      pose proof (has_merge_false_all _ Hm) as Hall.
      clear - IHf Hdm Hall He. revert es' He. induction es as [|[k v] r IHr]; intros es' He; cbn [map_entries] in He.
      * injection He as <-. reflexivity.
      * apply rbind_ok in He as (v' & Ev & He). apply rbind_ok in He as (r' & Er & He). injection He as <-.
        cbn [forallb snd].
        pose proof (Hdm (k, v) (or_introl eq_refl)) as Hd0. pose proof (Hall (k, v) (or_introl eq_refl)) as Hf. cbn [fst snd] in Hd0, Hf.
        rewrite Hf in Hd0. rewrite (IHf g v v' Hd0 Ev). cbn [andb].
        apply IHr; [intros kv Hkv; apply Hdm; right; exact Hkv | intros kv Hkv; apply Hall; right; exact Hkv | exact Er].
  - eapply IHf; eassumption.
Qed.

(* on a tree without aliases and merge keys whose maps have distinct keys, the model's traverse reads the value *)
Lemma in_of_lookup k es v : lookup_entry k es = Some v -> In (k, v) es.
Proof.
  induction es as [|[k' v'] r IH]; cbn [lookup_entry]; [discriminate|].
  destruct (str_eqb k k') eqn:E; intros H; [injection H as <-; apply str_eqb_eq in E; subst; left; reflexivity | right; apply IH, H].
Qed.

Theorem traverse_clean p : forall d F r x,
  clean d = true -> nodup_tree d = true -> traverse F d p = ROk r -> vget p (value_of d) = Some x ->
  exists n, r = TNode n /\ value_of n = x.
Proof.
  induction p as [|s p IH]; intros d F r x Hc Hn Ht Hg.
  - cbn in Ht, Hg. injection Ht as <-. injection Hg as <-. exists d. split; reflexivity.
  - cbn [traverse] in Ht. apply rbind_ok in Ht as (r1 & Hs & Ht). unfold traverse_step in Hs.
    destruct d as [a0 s0|a0 l|a0 es|t0]; cbn [follow value_of clean nodup_tree] in *; try discriminate.
    + destruct s; cbn in Hg; discriminate.
    + destruct s as [k|i]; cbn [vget] in Hg; [discriminate|].
      rewrite nth_error_map in Hg. destruct (nth_error l i) as [n1|] eqn:En; cbn [option_map] in Hg; [|discriminate].
      injection Hs as <-. apply andb_true_iff in Hc as [_ Hc]. rewrite forallb_forall in Hc, Hn.
      apply nth_error_In in En. eapply IH; [apply Hc, En | apply Hn, En | exact Ht | exact Hg].
    + destruct s as [k|i]; cbn [vget] in Hg; [|discriminate].
      fold entry_value in Hg. rewrite vlookup_valued in Hg.
      destruct (lookup_entry k es) as [v1|] eqn:El; cbn [option_map] in Hg; [|discriminate].
      apply rbind_ok in Hs as (o & Ho & Hs). injection Hs as <-.
      apply andb_true_iff in Hc as [_ Hc]. apply andb_true_iff in Hn as [Hnk Hn].
      destruct F as [|F]; cbn [tlook] in Ho; [discriminate|].
      rewrite tlook_step_explicit in Ho.
      * injection Ho as <-. rewrite El in Ht. pose proof (in_of_lookup _ _ _ El) as Hin.
        rewrite forallb_forall in Hc, Hn. specialize (Hc _ Hin). specialize (Hn _ Hin). cbn [fst snd] in Hc, Hn.
        apply andb_true_iff in Hc as [_ Hc]. eapply IH; eassumption.
      * intros kv Hkv. rewrite forallb_forall in Hc. specialize (Hc _ Hkv). apply andb_true_iff in Hc as [Hm _].
        apply negb_true_iff in Hm. exact Hm.
      * apply nodupb_NoDup, Hnk.
Qed.

(* route 2 as the model runs it: explode the document, then traverse the exploded tree *)
Theorem route2_on_domain fs d v p x fe d' F r :
  merge_simple_doc fs d = true -> resolve fs d = Some v -> vget p v = Some x ->
  explode fe d = ROk d' -> traverse F d' p = ROk r ->
  exists n, r = TNode n /\ veq (value_of n) x.
Proof.
  intros Hd Hr Hg He Ht.
  destruct (vget_veq p (value_of d') v x (explode_is_resolve fe fs d d' v Hd He Hr) Hg) as (x1 & Hx1 & Hv).
  destruct (traverse_clean p d' F r x1 (explode_clean _ _ _ He) (explode_nodup_tree fe fs d d' Hd He) Ht Hx1) as (n & -> & <-).
  exists n. split; [reflexivity | exact Hv].
Qed.

Theorem three_routes_on_domain fs d v p x :
  merge_simple_doc fs d = true -> resolve fs d = Some v -> vget p v = Some x ->
  (forall F r, traverse F d p = ROk r ->
     exists n, r = TNode n /\ forall fe n', explode fe n = ROk n' -> veq (value_of n') x)
  /\ (forall fe d' F r, explode fe d = ROk d' -> traverse F d' p = ROk r -> exists n, r = TNode n /\ veq (value_of n) x)
  /\ (forall fe d', explode fe d = ROk d' -> exists x1, vget p (value_of d') = Some x1 /\ veq x1 x).
Proof.
  intros Hd Hr Hg. destruct (routes_agree_on_domain fs d v p x Hd Hr Hg) as [H1 H3].
  split; [exact H1|]. split; [|exact H3].
  intros fe d' F r He Ht. eapply route2_on_domain; eassumption.
Qed.
