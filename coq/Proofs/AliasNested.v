(* Proofs/AliasNested.v — C13 phase 2: explode is idempotent; on the hereditary
   domain merge_simple_doc the exploded document is the spec resolution
   (any position of the merge key, merge lists of any length, nested merges). *)
From Coq Require Import List NArith Arith Bool Lia Permutation.
From YQ Require Import Base.Str Spec.YamlMergeSpec Model.Alias Proofs.AliasProofs.
Import ListNotations.
Local Open Scope nat_scope.

(* ================================================================== *)
(* 1. clean trees are fixed points of explode                          *)
(* ================================================================== *)
Lemma clean_plain_strip t : clean t = true -> plain t = true /\ strip_anchors t = t.
Proof.
  induction t as [a s|a l IH|a es IH|t IH] using node_ind'; cbn [clean plain strip_anchors]; intros H; try discriminate.
  - apply negb_true_iff in H. subst. split; reflexivity.
  - apply andb_true_iff in H as [Ha H]. apply negb_true_iff in Ha. subst a.
    rewrite forallb_forall in H. rewrite Forall_forall in IH. split.
    + apply forallb_forall. intros x Hx. apply IH; [exact Hx | apply H, Hx].
    + f_equal. rewrite <- (map_id l) at 2. apply map_ext_in. intros x Hx. apply IH; [exact Hx | apply H, Hx].
  - apply andb_true_iff in H as [Ha H]. apply negb_true_iff in Ha. subst a.
    rewrite forallb_forall in H. rewrite Forall_forall in IH. split.
    + apply forallb_forall. intros [k v] Hx. specialize (H _ Hx). cbn [fst snd] in *.
      apply andb_true_iff in H as [H1 H2]. rewrite H1. cbn. apply (IH (k, v)); assumption.
    + f_equal. rewrite <- (map_id es) at 2. apply map_ext_in. intros [k v] Hx. cbn [fst snd]. f_equal.
      specialize (H _ Hx). cbn [fst snd] in H. apply andb_true_iff in H as [_ H2]. apply (IH (k, v)); assumption.
Qed.

Theorem explode_clean_id fuel t t' : clean t = true -> explode fuel t = ROk t' -> t' = t.
Proof.
  intros Hc H. destruct (clean_plain_strip t Hc) as [Hp Hs].
  rewrite (explode_plain fuel t t' Hp H). exact Hs.
Qed.

(* explode (explode d) = explode d, whenever both runs return *)
Theorem explode_idempotent f1 f2 d d' d'' :
  explode f1 d = ROk d' -> explode f2 d' = ROk d'' -> d'' = d'.
Proof. intros H1 H2. eapply explode_clean_id; [eapply explode_clean, H1 | exact H2]. Qed.

(* ================================================================== *)
(* 2. reconstructAliasedMap, for an arbitrary child explode [rec]      *)
(* ================================================================== *)
Lemma rbind_assoc {A B C : Type} (o : res A) (f : A -> res B) (g : B -> res C) :
  rbind (rbind o f) g = rbind o (fun x => rbind (f x) g).
Proof. destruct o; reflexivity. Qed.

Lemma filter_nil_forall {A : Type} (p : A -> bool) l : filter p l = [] -> forall x, In x l -> p x = false.
Proof.
  induction l as [|a r IH]; intros H x Hx; [destruct Hx|]. cbn [filter] in H.
  destruct (p a) eqn:E; [discriminate|]. destruct Hx as [<-|Hx]; [exact E | apply IH; assumption].
Qed.

Section ExplodeGen.
  Variable rec : node -> res node.

  (* the result of [rec] where it returns one *)
  Definition recv (v : node) : node := match rec v with ROk v' => v' | _ => v end.

  Lemma recv_ok v v' : rec v = ROk v' -> recv v = v'.
  Proof. unfold recv. intros ->. reflexivity. Qed.

  Lemma override_entry_lookup_gen texts k0 v0 start acc acc' :
    override_entry rec texts k0 v0 start acc = ROk acc' ->
    forall k,
      lookup_entry k acc' =
        if str_eqb k k0 then
          (if has_key k0 acc then Some (recv v0)
           else if later_has texts (start + 2) k0 then None else Some (recv v0))
        else lookup_entry k acc.
  Proof.
    intros H k. unfold override_entry in H. apply rbind_ok in H as (v' & Hv & H).
    rewrite (recv_ok _ _ Hv).
    destruct (has_key k0 acc) eqn:Eh.
    - injection H as <-. apply lookup_replace_first, Eh.
    - destruct (later_has texts (start + 2) k0) eqn:El; injection H as <-.
      + destruct (str_eqb k k0) eqn:E; [|reflexivity]. apply str_eqb_eq in E. subst. apply has_key_lookup, Eh.
      + apply lookup_app_single, Eh.
  Qed.

  Lemma recon_app texts r1 : forall r2 i acc,
    recon rec texts (r1 ++ r2) i acc = rbind (recon rec texts r1 i acc) (recon rec texts r2 (i + length r1)).
  Proof.
    induction r1 as [|[k v] r IH]; intros r2 i acc; cbn [app recon length].
    - cbn [rbind]. rewrite Nat.add_0_r. reflexivity.
    - rewrite rbind_assoc. destruct (if is_merge k then _ else _) as [a| | |]; cbn [rbind]; try reflexivity.
      rewrite IH. replace (S i + length r) with (i + S (length r)) by lia. reflexivity.
  Qed.

  (* a run of explicit entries es[i .. i+|r|) whose keys do not occur again later in es *)
  Lemma recon_explicit_seg es r : forall pre post i acc acc',
    es = pre ++ r ++ post -> length pre = i ->
    (forall kv, In kv r -> is_merge (fst kv) = false) ->
    NoDup (keys (r ++ post)) ->
    recon rec (flat_texts es) r i acc = ROk acc' ->
    forall k, lookup_entry k acc' =
              match lookup_entry k r with Some v => Some (recv v) | None => lookup_entry k acc end.
  Proof.
    induction r as [|[k0 v0] r' IH]; intros pre post i acc acc' Hes Hlen Hm Hn H k; cbn [recon] in H.
    - injection H as <-. reflexivity.
    - pose proof (Hm (k0, v0) (or_introl eq_refl)) as Hk0. cbn [fst] in Hk0. rewrite Hk0 in H.
      cbn [app keys map fst] in Hn. inversion Hn as [|? ? Hnotin Hn']; subst x l.
      apply rbind_ok in H as (acc1 & H1 & H).
      pose proof (override_entry_lookup_gen _ _ _ _ _ _ H1) as Hl.
      assert (Hnl : later_has (flat_texts es) (2 * i + 2) k0 = false).
      { replace (2 * i + 2) with (2 * S i) by lia. rewrite later_has_even.
        assert (Hsk : skipn (S i) es = r' ++ post).
        { rewrite Hes, skipn_app. rewrite <- Hlen.
          replace (S (length pre) - length pre) with 1 by lia.
          rewrite skipn_all2 by lia. reflexivity. }
        rewrite Hsk. destruct (existsb _ (r' ++ post)) eqn:Ex; [|reflexivity].
        exfalso. apply existsb_exists in Ex as ([k1 v1] & Hin & Hk1). cbn [fst] in Hk1. apply str_eqb_eq in Hk1. subst k1.
        apply Hnotin. apply in_map_iff. exists (k0, v1). split; [reflexivity | exact Hin]. }
      rewrite (IH (pre ++ [(k0, v0)]) post (S i) acc1 acc'
                  ltac:(rewrite <- app_assoc; exact Hes) ltac:(rewrite app_length; cbn; lia)
                  ltac:(intros kv Hkv; apply Hm; right; exact Hkv) Hn' H k).
      cbn [lookup_entry]. rewrite (Hl k), Hnl.
      destruct (str_eqb k k0) eqn:E.
      + apply str_eqb_eq in E. subst k.
        rewrite lookup_entry_none by (intro Hin; apply Hnotin; unfold keys; rewrite map_app; apply in_or_app; left; exact Hin).
        destruct (has_key k0 acc); reflexivity.
      + reflexivity.
  Qed.

  (* the merge phase, followed for one key k *)
  Variable texts : list (option str).
  Variable k : str.

  Lemma override_all_k_gen tes : forall start acc acc',
    NoDup (keys tes) ->
    (In k (keys tes) -> lookup_entry k acc = None /\ forall n, later_has texts n k = false) ->
    override_all rec texts tes start acc = ROk acc' ->
    lookup_entry k acc' = match lookup_entry k tes with Some v => Some (recv v) | None => lookup_entry k acc end.
  Proof.
    induction tes as [|[k0 v0] r IH]; intros start acc acc' Hn Hk H; cbn [override_all] in H.
    - injection H as <-. reflexivity.
    - cbn [keys map fst] in Hn, Hk. inversion Hn as [|? ? Hnotin Hn']; subst.
      apply rbind_ok in H as (acc1 & H1 & H).
      pose proof (override_entry_lookup_gen _ _ _ _ _ _ H1 k) as Hl.
      cbn [lookup_entry]. destruct (str_eqb k k0) eqn:E.
      + apply str_eqb_eq in E. subst k0. destruct (Hk (or_introl eq_refl)) as [Hnone Hlater].
        apply has_key_lookup in Hnone. rewrite Hnone, Hlater in Hl.
        rewrite (IH _ _ _ Hn' ltac:(intro Hin; exfalso; exact (Hnotin Hin)) H).
        rewrite (lookup_entry_none _ _ Hnotin). exact Hl.
      + rewrite <- Hl. eapply IH; [exact Hn' | | exact H].
        intros Hin. rewrite Hl. apply Hk. right. exact Hin.
  Qed.

  (* the entries of the exploded target *)
  Definition src_entries (t : node) : entries := match recv t with Mp _ tes => tes | _ => [] end.

  Lemma apply_alias_k_gen t j acc acc' :
    NoDup (keys (src_entries t)) ->
    (In k (keys (src_entries t)) -> lookup_entry k acc = None /\ forall n, later_has texts n k = false) ->
    apply_alias rec texts (Al t) j acc = ROk acc' ->
    lookup_entry k acc' = match lookup_entry k (src_entries t) with Some v => Some (recv v) | None => lookup_entry k acc end.
  Proof.
    intros Hn Hk H. cbn [apply_alias] in H. apply rbind_ok in H as (t' & Ht & H).
    unfold src_entries in *. rewrite (recv_ok _ _ Ht) in *.
    destruct t' as [a s|a l|a tes|t0]; try discriminate.
    eapply override_all_k_gen; eassumption.
  Qed.

  Definition provides (jt : nat * node) : bool := existsb (str_eqb k) (keys (src_entries (snd jt))).

  Lemma provides_in jt : provides jt = true <-> In k (keys (src_entries (snd jt))).
  Proof.
    unfold provides. rewrite existsb_exists. split.
    - intros (x & Hx & E). apply str_eqb_eq in E. subst. exact Hx.
    - intros H. exists k. split; [exact H | apply str_eqb_refl].
  Qed.

  Lemma apply_seq_rev_k_gen (L : list (nat * node)) : forall acc acc',
    (forall jt, In jt L -> NoDup (keys (src_entries (snd jt)))) ->
    length (filter provides L) <= 1 ->
    ((exists jt, In jt L /\ In k (keys (src_entries (snd jt)))) ->
       lookup_entry k acc = None /\ forall n, later_has texts n k = false) ->
    apply_seq_rev rec texts (map (fun jt => (fst jt, Al (snd jt))) L) acc = ROk acc' ->
    lookup_entry k acc' =
      match lookup_first k (map (fun jt => src_entries (snd jt)) L) with Some v => Some (recv v) | None => lookup_entry k acc end.
  Proof.
    induction L as [|[j t] r IH]; intros acc acc' Hn Hd Hk H; cbn [map apply_seq_rev fst snd lookup_first] in *.
    - injection H as <-. reflexivity.
    - apply rbind_ok in H as (acc1 & H1 & H).
      assert (Hhead : In k (keys (src_entries t)) -> forall jt, In jt r -> ~ In k (keys (src_entries (snd jt)))).
      { intros Hin jt Hjt Hkj. cbn [filter] in Hd. apply (provides_in (j, t)) in Hin. rewrite Hin in Hd.
        cbn [length] in Hd. assert (Hnil : filter provides r = []) by (destruct (filter provides r); [reflexivity | cbn in Hd; lia]).
        apply provides_in in Hkj. rewrite (filter_nil_forall _ _ Hnil jt Hjt) in Hkj. discriminate. }
      assert (Htail : length (filter provides r) <= 1).
      { cbn [filter] in Hd. destruct (provides (j, t)); cbn [length] in Hd; lia. }
      apply apply_alias_k_gen in H1;
        [| apply (Hn (j, t)); left; reflexivity
         | intros Hin; apply Hk; exists (j, t); split; [left; reflexivity | exact Hin]].
      apply IH in H; [| intros jt Hjt; apply Hn; right; exact Hjt | exact Htail |].
      + rewrite H, H1. destruct (lookup_entry k (src_entries t)) as [v|] eqn:Es; [|reflexivity].
        rewrite lookup_first_none; [reflexivity|].
        intro Hin. apply in_flat_map in Hin as (s & Hs & Hks). apply in_map_iff in Hs as (jt & <- & Hjt).
        exact (Hhead (lookup_entry_in _ _ _ Es) jt Hjt Hks).
      + intros (jt & Hjt & Hkjt). destruct (Hk (ex_intro _ jt (conj (or_intror Hjt) Hkjt))) as [Hnone Hl]. split; [|exact Hl].
        rewrite H1. rewrite lookup_entry_none; [exact Hnone|].
        intro Hks. exact (Hhead Hks jt Hjt Hkjt).
  Qed.
End ExplodeGen.

(* ================================================================== *)
(* 3. small facts about the boolean domain tests and lookups           *)
(* ================================================================== *)
Lemma mem_in k l : mem k l = true <-> In k l.
Proof.
  unfold mem. rewrite existsb_exists. split.
  - intros (x & Hx & E). apply str_eqb_eq in E. subst. exact Hx.
  - intros H. exists k. split; [exact H | apply str_eqb_refl].
Qed.

Lemma mem_false k l : mem k l = false <-> ~ In k l.
Proof.
  rewrite <- mem_in. destruct (mem k l); split; intros H; try congruence; try discriminate;
    try (exfalso; apply H; reflexivity).
Qed.

Lemma nodupb_NoDup l : nodupb l = true -> NoDup l.
Proof.
  induction l as [|k r IH]; intros H; [constructor|].
  cbn [nodupb] in H. apply andb_true_iff in H as [H1 H2]. apply negb_true_iff in H1.
  constructor; [apply mem_false, H1 | apply IH, H2].
Qed.

Lemma disjoint_filter_nil k a r : In k a -> forallb (disjointb a) r = true -> filter (mem k) r = [].
Proof.
  intros E. induction r as [|b r' IH]; intros H; [reflexivity|].
  cbn [forallb] in H. apply andb_true_iff in H as [Hab H]. cbn [filter].
  unfold disjointb in Hab. rewrite forallb_forall in Hab. specialize (Hab k E). apply negb_true_iff in Hab.
  rewrite Hab. apply IH, H.
Qed.

Lemma pairwise_disjoint_count k ls : pairwise_disjointb ls = true -> length (filter (mem k) ls) <= 1.
Proof.
  induction ls as [|a r IH]; intros H; [cbn; lia|].
  cbn [pairwise_disjointb] in H. apply andb_true_iff in H as [H1 H2]. cbn [filter].
  destruct (mem k a) eqn:E; [|apply IH, H2].
  apply mem_in in E. rewrite (disjoint_filter_nil k a r E H1). cbn. lia.
Qed.

Lemma all_some_Forall2 {A B : Type} (f : A -> option B) l r :
  all_some (map f l) = Some r -> Forall2 (fun a b => f a = Some b) l r.
Proof.
  revert r. induction l as [|a t IH]; intros r H; cbn [map all_some] in H.
  - injection H as <-. constructor.
  - destruct (f a) as [b|] eqn:E; [|discriminate].
    destruct (all_some (map f t)) as [t'|]; [|discriminate]. injection H as <-.
    constructor; [exact E | apply IH; reflexivity].
Qed.

Lemma filter_count_le {A B : Type} (p : A -> bool) (q : B -> bool) (R : A -> B -> Prop) l r :
  Forall2 R l r -> (forall a b, R a b -> p a = true -> q b = true) ->
  length (filter p l) <= length (filter q r).
Proof.
  intros HF Himp. induction HF as [|a b l r Hab HF IH]; [cbn; lia|].
  cbn [filter]. destruct (p a) eqn:E.
  - rewrite (Himp a b Hab E). cbn [length]. lia.
  - destruct (q b); cbn [length]; lia.
Qed.

Lemma lookup_first_all_none k X : (forall s, In s X -> lookup_entry k s = None) -> lookup_first k X = None.
Proof.
  induction X as [|s r IH]; intros H; [reflexivity|]. cbn [lookup_first].
  rewrite (H s (or_introl eq_refl)). apply IH. intros s' Hs'. apply H. right. exact Hs'.
Qed.

Lemma lookup_first_unique k X1 s X2 :
  (forall s', In s' (X1 ++ X2) -> lookup_entry k s' = None) ->
  lookup_first k (X1 ++ s :: X2) = lookup_entry k s.
Proof.
  intros H. rewrite lookup_first_app. rewrite lookup_first_all_none by (intros s' Hs'; apply H, in_or_app; left; exact Hs').
  cbn [lookup_first]. destruct (lookup_entry k s); [reflexivity|].
  apply lookup_first_all_none. intros s' Hs'. apply H, in_or_app. right. exact Hs'.
Qed.

Lemma vlookup_concat_all_none k (X : list (list (str * value))) :
  (forall s, In s X -> vlookup k s = None) -> vlookup k (concat X) = None.
Proof.
  induction X as [|s r IH]; intros H; [reflexivity|]. cbn [concat]. rewrite vlookup_app.
  rewrite (H s (or_introl eq_refl)). apply IH. intros s' Hs'. apply H. right. exact Hs'.
Qed.

Lemma vlookup_concat_unique k X1 s (X2 : list (list (str * value))) :
  (forall s', In s' (X1 ++ X2) -> vlookup k s' = None) ->
  vlookup k (concat (X1 ++ s :: X2)) = vlookup k s.
Proof.
  intros H. rewrite concat_app, vlookup_app.
  rewrite vlookup_concat_all_none by (intros s' Hs'; apply H, in_or_app; left; exact Hs').
  cbn [concat]. rewrite vlookup_app. destruct (vlookup k s); [reflexivity|].
  apply vlookup_concat_all_none. intros s' Hs'. apply H, in_or_app. right. exact Hs'.
Qed.

Lemma vlookup_valued k es : vlookup k (map entry_value es) = option_map value_of (lookup_entry k es).
Proof. apply vlookup_entry_value. Qed.

Lemma value_of_map a es : value_of (Mp a es) = VM (map entry_value es).
Proof. reflexivity. Qed.

Lemma vlookup_in k (es : list (str * value)) v : vlookup k es = Some v -> In k (map fst es).
Proof.
  induction es as [|[k' v'] r IH]; cbn [vlookup map fst]; [discriminate|].
  destruct (str_eqb k k') eqn:E; intros H.
  - apply str_eqb_eq in E. subst. left. reflexivity.
  - right. apply IH, H.
Qed.

Lemma vlookup_none_notin k (es : list (str * value)) : vlookup k es = None -> ~ In k (map fst es).
Proof.
  induction es as [|[k' v'] r IH]; cbn [vlookup map fst]; [intros _ []|].
  destruct (str_eqb k k') eqn:E; intros H; [discriminate|].
  intros [Hk|Hk]; [subst; rewrite str_eqb_refl in E; discriminate | exact (IH H Hk)].
Qed.

(* splitting a map at its merge key *)
Lemma before_merge_split es pre mv :
  before_merge es = Some (pre, mv) ->
  exists k post, es = pre ++ (k, mv) :: post /\ is_merge k = true /\ (forall kv, In kv pre -> is_merge (fst kv) = false).
Proof.
  revert pre. induction es as [|[k v] r IH]; intros pre H; cbn [before_merge] in H; [discriminate|].
  destruct (is_merge k) eqn:E.
  - injection H as <- <-. exists k, r. split; [reflexivity|]. split; [exact E | intros kv []].
  - destruct (before_merge r) as [[pre' mv']|] eqn:Er; [|discriminate]. injection H as <- <-.
    destruct (IH pre' eq_refl) as (k' & post & -> & Hk' & Hpre). exists k', post.
    split; [reflexivity|]. split; [exact Hk'|]. intros kv [<-|Hkv]; [exact E | apply Hpre, Hkv].
Qed.

Lemma before_merge_none es : before_merge es = None -> has_merge es = false.
Proof.
  induction es as [|[k v] r IH]; intros H; [reflexivity|]. cbn [before_merge] in H.
  destruct (is_merge k) eqn:E; [discriminate|].
  destruct (before_merge r) as [[? ?]|]; [discriminate|].
  unfold has_merge. cbn [existsb fst]. rewrite E. apply IH. reflexivity.
Qed.

Lemma is_merge_eq k : is_merge k = true -> k = merge_key.
Proof. unfold is_merge. apply str_eqb_eq. Qed.

Lemma alias_targets_items items ts : all_some (map alias_target items) = Some ts -> items = map Al ts.
Proof.
  revert ts. induction items as [|x r IH]; intros ts H; cbn [map all_some] in H.
  - injection H as <-. reflexivity.
  - destruct x as [a s|a l|a es|t]; cbn [alias_target] in H; try discriminate.
    destruct (all_some (map alias_target r)) as [ts'|]; [|discriminate]. injection H as <-.
    cbn [map]. f_equal. apply IH. reflexivity.
Qed.

(* success of the phases implies success of the child explodes *)
Section ExplodeOk.
  Variable rec : node -> res node.

  Lemma override_entry_ok texts k0 v0 start acc acc' :
    override_entry rec texts k0 v0 start acc = ROk acc' -> exists v', rec v0 = ROk v'.
  Proof. unfold override_entry. intros H. apply rbind_ok in H as (v' & Hv & _). exists v'. exact Hv. Qed.

  Lemma recon_explicit_ok texts r : forall i acc acc',
    (forall kv, In kv r -> is_merge (fst kv) = false) ->
    recon rec texts r i acc = ROk acc' -> forall kv, In kv r -> exists v', rec (snd kv) = ROk v'.
  Proof.
    induction r as [|[k0 v0] r' IH]; intros i acc acc' Hm H kv Hkv; [destruct Hkv|].
    cbn [recon] in H. pose proof (Hm (k0, v0) (or_introl eq_refl)) as Hk0. cbn [fst] in Hk0. rewrite Hk0 in H.
    apply rbind_ok in H as (acc1 & H1 & H). destruct Hkv as [<-|Hkv].
    - eapply override_entry_ok, H1.
    - eapply IH; [intros kv' Hkv'; apply Hm; right; exact Hkv' | exact H | exact Hkv].
  Qed.

  Lemma apply_alias_ok texts t j acc acc' :
    apply_alias rec texts (Al t) j acc = ROk acc' -> exists a tes, rec t = ROk (Mp a tes).
  Proof.
    cbn [apply_alias]. intros H. apply rbind_ok in H as (t' & Ht & H).
    destruct t' as [a s|a l|a tes|t0]; try discriminate. exists a, tes. exact Ht.
  Qed.

  Lemma apply_seq_rev_ok texts (L : list (nat * node)) : forall acc acc',
    apply_seq_rev rec texts (map (fun jt => (fst jt, Al (snd jt))) L) acc = ROk acc' ->
    forall jt, In jt L -> exists a tes, rec (snd jt) = ROk (Mp a tes).
  Proof.
    induction L as [|[j t] r IH]; intros acc acc' H jt Hjt; [destruct Hjt|].
    cbn [map apply_seq_rev fst snd] in H. apply rbind_ok in H as (acc1 & H1 & H).
    destruct Hjt as [<-|Hjt]; [eapply apply_alias_ok, H1 | eapply IH; eassumption].
  Qed.
End ExplodeOk.

(* the spec side of one map *)
Lemma spec_explicit_lookup (rs : node -> option value) k X ex :
  all_some (map (fun kv => option_map (fun v => (fst kv, v)) (rs (snd kv))) X) = Some ex ->
  vlookup k ex = match lookup_entry k X with Some v => rs v | None => None end
  /\ (forall v, lookup_entry k X = Some v -> exists x, rs v = Some x).
Proof.
  revert ex. induction X as [|[k' v'] r IH]; intros ex H; cbn [map all_some fst snd] in H.
  - injection H as <-. split; [reflexivity | discriminate].
  - destruct (rs v') as [x|] eqn:Ex; cbn [option_map] in H; [|discriminate].
    destruct (all_some _) as [ex'|] eqn:E; [|discriminate]. injection H as <-.
    destruct (IH ex' eq_refl) as [IH1 IH2]. cbn [vlookup lookup_entry].
    destruct (str_eqb k k'); [split; [symmetry; exact Ex | intros v Hv; injection Hv as <-; exists x; exact Ex] | split; assumption].
Qed.

Lemma spec_merge_sources (rs : node -> option value) mv ts ms :
  merge_targets mv = Some ts -> merge_sources rs mv = Some ms ->
  exists vss, Forall2 (fun t ves => rs t = Some (VM ves)) ts vss /\ ms = concat vss.
Proof.
  intros Ht Hm. destruct mv as [a s|a items|a es|t]; cbn [merge_targets] in Ht; try discriminate.
  - apply alias_targets_items in Ht. subst items. cbn [merge_sources] in Hm.
    destruct (all_some (map (source_entries rs) (map Al ts))) as [vss|] eqn:E; cbn [option_map] in Hm; [|discriminate].
    injection Hm as <-. exists vss. split; [|reflexivity].
    rewrite map_map in E. apply all_some_Forall2 in E.
    clear - E. induction E as [|t ves l r H E IHE]; constructor; [|exact IHE].
    cbn [source_entries] in H. destruct (rs t) as [[s|l0|es]|]; try discriminate. injection H as <-. reflexivity.
  - injection Ht as <-. cbn [merge_sources source_entries] in Hm.
    destruct (rs t) as [[s|l|es]|] eqn:E; try discriminate. injection Hm as <-.
    exists [es]. split; [constructor; [exact E | constructor] | cbn; rewrite app_nil_r; reflexivity].
Qed.
