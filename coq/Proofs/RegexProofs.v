(* Proofs/RegexProofs.v — facts about the backtracking matcher of Base/Regex.v *)
From Coq Require Import Arith Lia.
From YQ Require Import Base.Str Base.Regex.
Open Scope N_scope.

(* ---- what a successful match hands to its continuation ---- *)
Definition hands_suffix {A} (ma : str -> (str -> option A) -> option A) (strict : bool) : Prop :=
  forall s k x, ma s k = Some x ->
  exists rest, k rest = Some x /\ (length rest <= length s)%nat /\ (strict = true -> (length rest < length s)%nat).

Lemma star_sound {A} (ma : str -> (str -> option A) -> option A) :
  hands_suffix ma false ->
  forall n s k x, star ma k n s = Some x ->
  exists rest, k rest = Some x /\ (length rest <= length s)%nat.
Proof.
  intros Hma. induction n as [|n IH]; intros s k x H; cbn [star] in H; [discriminate|].
  destruct (ma s (fun s' => if Nat.ltb (length s') (length s) then star ma k n s' else None)) as [y|] eqn:E.
  - injection H as ->. apply Hma in E as (rest & Hk & Hle & _).
    destruct (Nat.ltb (length rest) (length s)) eqn:Hlt; [|discriminate].
    apply IH in Hk as (rest' & Hk' & Hle'). exists rest'. split; [exact Hk'|]. lia.
  - exists s. split; [exact H | lia].
Qed.

Lemma mt_sound {A} (r : regex) :
  forall s (k : str -> option A) x, mt r s k = Some x ->
  exists rest, k rest = Some x /\ (length rest <= length s)%nat /\
               (nullable r = false -> (length rest < length s)%nat).
Proof.
  induction r as [|c|rs|a IHa b IHb|a IHa b IHb|a IHa|a IHa|a IHa]; intros s k x H; cbn [mt nullable] in *.
  - exists s. split; [exact H|]. split; [lia | discriminate].
  - destruct s as [|y s]; [discriminate|]. destruct (y =? c); [|discriminate].
    exists s. split; [exact H|]. cbn [length]. split; [lia | intros _; lia].
  - destruct s as [|y s]; [discriminate|]. destruct (in_ranges y rs); [|discriminate].
    exists s. split; [exact H|]. cbn [length]. split; [lia | intros _; lia].
  - apply IHa in H as (r1 & H1 & Hle1 & Hs1). apply IHb in H1 as (r2 & H2 & Hle2 & Hs2).
    exists r2. split; [exact H2|]. split; [lia|].
    intro Hn. apply andb_false_iff in Hn as [Hn|Hn]; [specialize (Hs1 Hn) | specialize (Hs2 Hn)]; lia.
  - destruct (mt a s k) as [y|] eqn:E.
    + injection H as ->. apply IHa in E as (r1 & H1 & Hle1 & Hs1).
      exists r1. split; [exact H1|]. split; [lia|]. intro Hn. apply orb_false_iff in Hn as [Hn _]. auto.
    + apply IHb in H as (r1 & H1 & Hle1 & Hs1).
      exists r1. split; [exact H1|]. split; [lia|]. intro Hn. apply orb_false_iff in Hn as [_ Hn]. auto.
  - apply star_sound in H.
    + destruct H as (rest & Hk & Hle). exists rest. split; [exact Hk|]. split; [exact Hle | discriminate].
    + intros s0 k0 x0 H0. apply IHa in H0 as (rest & Hk & Hle & _). exists rest. split; [exact Hk|]. split; [exact Hle | discriminate].
  - apply IHa in H as (r1 & H1 & Hle1 & Hs1). apply star_sound in H1.
    + destruct H1 as (rest & Hk & Hle). exists rest. split; [exact Hk|]. split; [lia|].
      intro Hn. specialize (Hs1 Hn). lia.
    + intros s0 k0 x0 H0. apply IHa in H0 as (rest & Hk & Hle & _). exists rest. split; [exact Hk|]. split; [exact Hle | discriminate].
  - destruct (mt a s k) as [y|] eqn:E.
    + injection H as ->. apply IHa in E as (r1 & H1 & Hle1 & _).
      exists r1. split; [exact H1|]. split; [lia | discriminate].
    + exists s. split; [exact H|]. split; [lia | discriminate].
Qed.

Lemma match_rest_shorter r s rest :
  match_rest r s = Some rest -> (length rest <= length s)%nat /\ (nullable r = false -> (length rest < length s)%nat).
Proof.
  unfold match_rest. intro H. apply mt_sound in H as (rest' & Hk & Hle & Hs). injection Hk as ->. split; assumption.
Qed.

(* ---- first-character analysis ---- *)
Lemma star_no_first {A} (ma : str -> (str -> option A) -> option A) (nul : bool) c s :
  (forall k, ma (c :: s) k = if nul then k (c :: s) else None) ->
  forall k n, star ma k (S n) (c :: s) = k (c :: s).
Proof.
  intros Hma k n. cbn [star]. rewrite Hma. destruct nul.
  - rewrite Nat.ltb_irrefl. reflexivity.
  - reflexivity.
Qed.

Lemma mt_no_first {A} (r : regex) c :
  first_may r c = false ->
  forall s (k : str -> option A), mt r (c :: s) k = if nullable r then k (c :: s) else None.
Proof.
  induction r as [|x|rs|a IHa b IHb|a IHa b IHb|a IHa|a IHa|a IHa]; intros Hf s k; cbn [mt nullable first_may] in *.
  - reflexivity.
  - rewrite N.eqb_sym. rewrite Hf. reflexivity.
  - rewrite Hf. reflexivity.
  - apply orb_false_iff in Hf as [Hfa Hfb]. rewrite (IHa Hfa).
    destruct (nullable a); [|reflexivity]. cbn [andb] in *. apply IHb. exact Hfb.
  - apply orb_false_iff in Hf as [Hfa Hfb]. rewrite (IHa Hfa), (IHb Hfb).
    destruct (nullable a), (nullable b); cbn [orb]; try reflexivity; destruct (k (c :: s)); reflexivity.
  - apply (star_no_first _ (nullable a)). intro k0. apply IHa. exact Hf.
  - rewrite (IHa Hf). destruct (nullable a); [|reflexivity].
    apply (star_no_first _ true). intro k0. rewrite (IHa Hf). reflexivity.
  - rewrite (IHa Hf). destruct (nullable a); destruct (k (c :: s)); reflexivity.
Qed.

Lemma mt_nil_nonnullable {A} (r : regex) :
  nullable r = false -> forall (k : str -> option A), mt r [] k = None.
Proof.
  intros Hn k. destruct (mt r [] k) as [x|] eqn:E; [|reflexivity].
  apply mt_sound in E as (rest & _ & _ & Hs). specialize (Hs Hn). cbn [length] in Hs. lia.
Qed.

(* a rule that matches starts with a character of its first set *)
Lemma match_first r c s rest :
  nullable r = false -> match_rest r (c :: s) = Some rest -> first_may r c = true.
Proof.
  intros Hn H. destruct (first_may r c) eqn:E; [reflexivity|].
  unfold match_rest in H. rewrite (mt_no_first r c E) in H. rewrite Hn in H. discriminate.
Qed.

(* ---- leading layout under  W* X  and  W+ ---- *)
Lemma ws_star_skip {A} W X c s (k : str -> option A) :
  in_ranges c W = true -> first_may X c = false -> nullable X = false ->
  mt (RSeq (RStar (RClass W)) X) (c :: s) k = mt (RSeq (RStar (RClass W)) X) s k.
Proof.
  intros Hc Hf Hn. cbn [mt star length]. rewrite Hc. rewrite (proj2 (Nat.ltb_lt _ _) (Nat.lt_succ_diag_r _)).
  rewrite (mt_no_first X c Hf). rewrite Hn.
  match goal with |- match ?t with _ => _ end = _ => destruct t; reflexivity end.
Qed.

Fixpoint drop_class (W : ranges) (s : str) : str :=
  match s with
  | x :: s' => if in_ranges x W then drop_class W s' else s
  | [] => []
  end.

Lemma star_class_accept W : forall n s, (length s < n)%nat ->
  star (fun s' k' => mt (RClass W) s' k') (fun rest => Some rest) n s = Some (drop_class W s).
Proof.
  induction n as [|n IH]; intros s Hn; [lia|].
  cbn [star mt]. destruct s as [|x s]; [reflexivity|].
  cbn [drop_class]. destruct (in_ranges x W); [|reflexivity].
  cbn [length] in *. rewrite (proj2 (Nat.ltb_lt _ _) (Nat.lt_succ_diag_r _)).
  rewrite IH by lia. reflexivity.
Qed.

Lemma ws_plus_match W c s :
  in_ranges c W = true -> match_rest (RPlus (RClass W)) (c :: s) = Some (drop_class W s).
Proof.
  intro Hc. unfold match_rest. cbn [mt]. rewrite Hc. apply star_class_accept. lia.
Qed.

Lemma drop_class_length W s : (length (drop_class W s) <= length s)%nat.
Proof. induction s as [|x s IH]; cbn [drop_class length]; [lia|]. destruct (in_ranges x W); cbn [length]; lia. Qed.
