(* Proofs/RegexProofs.v — facts about the backtracking matcher of Base/Regex.v *)
From Coq Require Import Arith Lia.
From YQ Require Import Base.Str Base.Regex.
Open Scope N_scope.

(* ---- what a successful match hands to its continuation ---- *)
Definition hands_suffix {A} (ma : str -> (str -> option A) -> option A) (strict : bool) : Prop :=
  forall s k x, ma s k = Some x ->
  exists rest, k rest = Some x /\ (length rest <= length s)%nat /\ (strict = true -> (length rest < length s)%nat).

Lemma star_sound {A} (ma : str -> (str -> option A) -> option A) :
  hands_suffix ma false ->
  forall n s k x, star ma k n s = Some x ->
  exists rest, k rest = Some x /\ (length rest <= length s)%nat.
Proof.
  intros Hma. induction n as [|n IH]; intros s k x H; cbn [star] in H; [discriminate|].
  destruct (ma s (fun s' => if Nat.ltb (length s') (length s) then star ma k n s' else None)) as [y|] eqn:E.
  - injection H as ->. apply Hma in E as (rest & Hk & Hle & _).
    destruct (Nat.ltb (length rest) (length s)) eqn:Hlt; [|discriminate].
    apply IH in Hk as (rest' & Hk' & Hle'). exists rest'. split; [exact Hk'|]. lia.
  - exists s. split; [exact H | lia].
Qed.

Lemma mt_sound {A} (r : regex) :
  forall s (k : str -> option A) x, mt r s k = Some x ->
  exists rest, k rest = Some x /\ (length rest <= length s)%nat /\
               (nullable r = false -> (length rest < length s)%nat).
Proof.
  induction r as [|c|rs|a IHa b IHb|a IHa b IHb|a IHa|a IHa|a IHa]; intros s k x H; cbn [mt nullable] in *.
  - exists s. split; [exact H|]. split; [lia | discriminate].
  - destruct s as [|y s]; [discriminate|]. destruct (y =? c); [|discriminate].
    exists s. split; [exact H|]. cbn [length]. split; [lia | intros _; lia].
  - destruct s as [|y s]; [discriminate|]. destruct (in_ranges y rs); [|discriminate].
    exists s. split; [exact H|]. cbn [length]. split; [lia | intros _; lia].
  - apply IHa in H as (r1 & H1 & Hle1 & Hs1). apply IHb in H1 as (r2 & H2 & Hle2 & Hs2).
    exists r2. split; [exact H2|]. split; [lia|].
    intro Hn. apply andb_false_iff in Hn as [Hn|Hn]; [specialize (Hs1 Hn) | specialize (Hs2 Hn)]; lia.
  - destruct (mt a s k) as [y|] eqn:E.
    + injection H as ->. apply IHa in E as (r1 & H1 & Hle1 & Hs1).
      exists r1. split; [exact H1|]. split; [lia|]. intro Hn. apply orb_false_iff in Hn as [Hn _]. auto.
    + apply IHb in H as (r1 & H1 & Hle1 & Hs1).
      exists r1. split; [exact H1|]. split; [lia|]. intro Hn. apply orb_false_iff in Hn as [_ Hn]. auto.
  - apply star_sound in H.
    + destruct H as (rest & Hk & Hle). exists rest. split; [exact Hk|]. split; [exact Hle | discriminate].
    + intros s0 k0 x0 H0. apply IHa in H0 as (rest & Hk & Hle & _). exists rest. split; [exact Hk|]. split; [exact Hle | discriminate].
  - apply IHa in H as (r1 & H1 & Hle1 & Hs1). apply star_sound in H1.
    + destruct H1 as (rest & Hk & Hle). exists rest. split; [exact Hk|]. split; [lia|].
      intro Hn. specialize (Hs1 Hn). lia.
    + intros s0 k0 x0 H0. apply IHa in H0 as (rest & Hk & Hle & _). exists rest. split; [exact Hk|]. split; [exact Hle | discriminate].
  - destruct (mt a s k) as [y|] eqn:E.
    + injection H as ->. apply IHa in E as (r1 & H1 & Hle1 & _).
      exists r1. split; [exact H1|]. split; [lia | discriminate].
    + exists s. split; [exact H|]. split; [lia | discriminate].
Qed.

Lemma match_rest_shorter r s rest :
  match_rest r s = Some rest -> (length rest <= length s)%nat /\ (nullable r = false -> (length rest < length s)%nat).
Proof.
  unfold match_rest. intro H. apply mt_sound in H as (rest' & Hk & Hle & Hs). injection Hk as ->. split; assumption.
Qed.

(* ---- first-character analysis ---- *)
Lemma star_no_first {A} (ma : str -> (str -> option A) -> option A) (nul : bool) c s :
  (forall k, ma (c :: s) k = if nul then k (c :: s) else None) ->
  forall k n, star ma k (S n) (c :: s) = k (c :: s).
Proof.
  intros Hma k n. cbn [star]. rewrite Hma. destruct nul.
  - rewrite Nat.ltb_irrefl. reflexivity.
  - reflexivity.
Qed.

Lemma mt_no_first {A} (r : regex) c :
  first_may r c = false ->
  forall s (k : str -> option A), mt r (c :: s) k = if nullable r then k (c :: s) else None.
Proof.
  induction r as [|x|rs|a IHa b IHb|a IHa b IHb|a IHa|a IHa|a IHa]; intros Hf s k; cbn [mt nullable first_may] in *.
  - reflexivity.
  - rewrite N.eqb_sym. rewrite Hf. reflexivity.
  - rewrite Hf. reflexivity.
  - apply orb_false_iff in Hf as [Hfa Hfb]. rewrite (IHa Hfa).
    destruct (nullable a); [|reflexivity]. cbn [andb] in *. apply IHb. exact Hfb.
  - apply orb_false_iff in Hf as [Hfa Hfb]. rewrite (IHa Hfa), (IHb Hfb).
    destruct (nullable a), (nullable b); cbn [orb]; try reflexivity; destruct (k (c :: s)); reflexivity.
  - apply (star_no_first _ (nullable a)). intro k0. apply IHa. exact Hf.
  - rewrite (IHa Hf). destruct (nullable a); [|reflexivity].
    apply (star_no_first _ true). intro k0. rewrite (IHa Hf). reflexivity.
  - rewrite (IHa Hf). destruct (nullable a); destruct (k (c :: s)); reflexivity.
Qed.

Lemma mt_nil_nonnullable {A} (r : regex) :
  nullable r = false -> forall (k : str -> option A), mt r [] k = None.
Proof.
  intros Hn k. destruct (mt r [] k) as [x|] eqn:E; [|reflexivity].
  apply mt_sound in E as (rest & _ & _ & Hs). specialize (Hs Hn). cbn [length] in Hs. lia.
Qed.

(* a rule that matches starts with a character of its first set *)
Lemma match_first r c s rest :
  nullable r = false -> match_rest r (c :: s) = Some rest -> first_may r c = true.
Proof.
  intros Hn H. destruct (first_may r c) eqn:E; [reflexivity|].
  unfold match_rest in H. rewrite (mt_no_first r c E) in H. rewrite Hn in H. discriminate.
Qed.

(* ---- leading layout under  W* X  and  W+ ---- *)
Lemma ws_star_skip {A} W X c s (k : str -> option A) :
  in_ranges c W = true -> first_may X c = false -> nullable X = false ->
  mt (RSeq (RStar (RClass W)) X) (c :: s) k = mt (RSeq (RStar (RClass W)) X) s k.
Proof.
  intros Hc Hf Hn. cbn [mt star length]. rewrite Hc. rewrite (proj2 (Nat.ltb_lt _ _) (Nat.lt_succ_diag_r _)).
  rewrite (mt_no_first X c Hf). rewrite Hn.
  match goal with |- match ?t with _ => _ end = _ => destruct t; reflexivity end.
Qed.

Fixpoint drop_class (W : ranges) (s : str) : str :=
  match s with
  | x :: s' => if in_ranges x W then drop_class W s' else s
  | [] => []
  end.

Lemma star_class_accept W : forall n s, (length s < n)%nat ->
  star (fun s' k' => mt (RClass W) s' k') (fun rest => Some rest) n s = Some (drop_class W s).
Proof.
  induction n as [|n IH]; intros s Hn; [lia|].
  cbn [star mt]. destruct s as [|x s]; [reflexivity|].
  cbn [drop_class]. destruct (in_ranges x W); [|reflexivity].
  cbn [length] in *. rewrite (proj2 (Nat.ltb_lt _ _) (Nat.lt_succ_diag_r _)).
  rewrite IH by lia. reflexivity.
Qed.

Lemma ws_plus_match W c s :
  in_ranges c W = true -> match_rest (RPlus (RClass W)) (c :: s) = Some (drop_class W s).
Proof.
  intro Hc. unfold match_rest. cbn [mt]. rewrite Hc. apply star_class_accept. lia.
Qed.

Lemma drop_class_length W s : (length (drop_class W s) <= length s)%nat.
Proof. induction s as [|x s IH]; cbn [drop_class length]; [lia|]. destruct (in_ranges x W); cbn [length]; lia. Qed.

(* ------------------------------------------------------------------ *)
(* continuations: extensionality, post-composition, fuel               *)
(* ------------------------------------------------------------------ *)
Definition ma_ext {A} (ma : str -> (str -> option A) -> option A) : Prop :=
  forall s k1 k2, (forall x, k1 x = k2 x) -> ma s k1 = ma s k2.

Lemma star_ext {A} (ma : str -> (str -> option A) -> option A) :
  ma_ext ma -> forall n s k1 k2, (forall x, k1 x = k2 x) -> star ma k1 n s = star ma k2 n s.
Proof.
  intros Hma. induction n as [|n IH]; intros s k1 k2 Hk; [reflexivity|].
  cbn [star]. rewrite (Hma s _ (fun s' => if Nat.ltb (length s') (length s) then star ma k2 n s' else None)).
  - rewrite Hk. reflexivity.
  - intro x. destruct (Nat.ltb (length x) (length s)); [apply IH; exact Hk | reflexivity].
Qed.

Lemma mt_ext {A} (r : regex) : ma_ext (fun s (k : str -> option A) => mt r s k).
Proof.
  unfold ma_ext.
  induction r as [|c|rs|a IHa b IHb|a IHa b IHb|a IHa|a IHa|a IHa]; intros s k1 k2 Hk; cbn [mt].
  - apply Hk.
  - destruct s as [|y s]; [reflexivity|]. destruct (y =? c); [apply Hk | reflexivity].
  - destruct s as [|y s]; [reflexivity|]. destruct (in_ranges y rs); [apply Hk | reflexivity].
  - apply IHa. intro x. apply IHb. exact Hk.
  - rewrite (IHa s k1 k2 Hk), (IHb s k1 k2 Hk). reflexivity.
  - apply star_ext; [exact IHa | exact Hk].
  - apply IHa. intro x. apply star_ext; [exact IHa | exact Hk].
  - rewrite (IHa s k1 k2 Hk), Hk. reflexivity.
Qed.

Lemma star_fuel_indep {A} (ma : str -> (str -> option A) -> option A) :
  ma_ext ma -> forall n1 n2 s k, (length s < n1)%nat -> (length s < n2)%nat -> star ma k n1 s = star ma k n2 s.
Proof.
  intros Hma. induction n1 as [|n1 IH]; intros n2 s k H1 H2; [lia|].
  destruct n2 as [|n2]; [lia|]. cbn [star].
  rewrite (Hma s _ (fun s' => if Nat.ltb (length s') (length s) then star ma k n2 s' else None)); [reflexivity|].
  intro x. destruct (Nat.ltb (length x) (length s)) eqn:E; [|reflexivity].
  apply Nat.ltb_lt in E. apply IH; lia.
Qed.

Definition ma_map {A B} (ma : str -> (str -> option A) -> option A) (mb : str -> (str -> option B) -> option B) (f : A -> B) : Prop :=
  forall s k, mb s (fun x => option_map f (k x)) = option_map f (ma s k).

Lemma star_map {A B} (ma : str -> (str -> option A) -> option A) (mb : str -> (str -> option B) -> option B) (f : A -> B) :
  ma_ext mb -> ma_map ma mb f ->
  forall n s k, star mb (fun x => option_map f (k x)) n s = option_map f (star ma k n s).
Proof.
  intros Hext Hmap. induction n as [|n IH]; intros s k; [reflexivity|].
  cbn [star].
  rewrite (Hext s _ (fun s' => option_map f (if Nat.ltb (length s') (length s) then star ma k n s' else None))).
  - rewrite Hmap. destruct (ma s _); reflexivity.
  - intro x. destruct (Nat.ltb (length x) (length s)); [apply IH | reflexivity].
Qed.

Lemma mt_map {A B} (f : A -> B) (r : regex) :
  ma_map (fun s k => mt r s k) (fun s k => mt r s k) f.
Proof.
  unfold ma_map.
  induction r as [|c|rs|a IHa b IHb|a IHa b IHb|a IHa|a IHa|a IHa]; intros s k; cbn [mt].
  - reflexivity.
  - destruct s as [|y s]; [reflexivity|]. destruct (y =? c); reflexivity.
  - destruct s as [|y s]; [reflexivity|]. destruct (in_ranges y rs); reflexivity.
  - rewrite <- IHa. apply mt_ext. intro x. apply IHb.
  - rewrite IHa, IHb. destruct (mt a s k); reflexivity.
  - apply star_map; [apply mt_ext | exact IHa].
  - rewrite <- IHa. apply mt_ext. intro x. apply star_map; [apply mt_ext | exact IHa].
  - rewrite IHa. destruct (mt a s k); reflexivity.
Qed.

(* ------------------------------------------------------------------ *)
(* appending a character the regex can never consume                    *)
(* ------------------------------------------------------------------ *)
Lemma star_extend {A} (ma : str -> (str -> option A) -> option A) c z :
  ma_ext ma ->
  (forall t K, ma (t ++ c :: z) K = ma t (fun rem => K (rem ++ c :: z))) ->
  forall n t k, star ma k n (t ++ c :: z) = star ma (fun rem => k (rem ++ c :: z)) n t.
Proof.
  intros Hext Hma. induction n as [|n IH]; intros t k; [reflexivity|].
  cbn [star]. rewrite Hma.
  rewrite (Hext t _ (fun s' => if Nat.ltb (length s') (length t) then star ma (fun rem => k (rem ++ c :: z)) n s' else None)).
  - destruct (ma t _); reflexivity.
  - intro x. rewrite !app_length. cbn [length].
    replace (Nat.ltb (length x + S (length z)) (length t + S (length z))) with (Nat.ltb (length x) (length t)).
    + destruct (Nat.ltb (length x) (length t)); [apply IH | reflexivity].
    + destruct (Nat.ltb (length x) (length t)) eqn:E1; symmetry.
      * apply Nat.ltb_lt in E1. apply Nat.ltb_lt. lia.
      * apply Nat.ltb_ge in E1. apply Nat.ltb_ge. lia.
Qed.

Lemma mt_extend {A} (r : regex) c z :
  may_consume r c = false ->
  forall t (k : str -> option A), mt r (t ++ c :: z) k = mt r t (fun rem => k (rem ++ c :: z)).
Proof.
  induction r as [|x|rs|a IHa b IHb|a IHa b IHb|a IHa|a IHa|a IHa]; intros Hc t k; cbn [mt may_consume] in *.
  - reflexivity.
  - destruct t as [|y t]; cbn [app]; [|reflexivity]. rewrite N.eqb_sym. rewrite Hc. reflexivity.
  - destruct t as [|y t]; cbn [app]; [|reflexivity]. rewrite Hc. reflexivity.
  - apply orb_false_iff in Hc as [Ha Hb]. rewrite (IHa Ha). apply mt_ext. intro x. apply IHb. exact Hb.
  - apply orb_false_iff in Hc as [Ha Hb]. rewrite (IHa Ha), (IHb Hb). reflexivity.
  - rewrite (star_extend _ c z (mt_ext a) (fun t0 K => IHa Hc t0 K)).
    apply star_fuel_indep; [apply mt_ext | rewrite app_length; cbn [length]; lia | lia].
  - rewrite (IHa Hc). apply mt_ext. intro x.
    rewrite (star_extend _ c z (mt_ext a) (fun t0 K => IHa Hc t0 K)).
    apply star_fuel_indep; [apply mt_ext | rewrite app_length; cbn [length]; lia | lia].
  - rewrite (IHa Hc). reflexivity.
Qed.

Lemma match_rest_extend r c z t :
  may_consume r c = false ->
  match_rest r (t ++ c :: z) = option_map (fun rem => rem ++ c :: z) (match_rest r t).
Proof.
  intro Hc. unfold match_rest. rewrite (mt_extend r c z Hc).
  exact (mt_map (fun rem => rem ++ c :: z) r t (fun rest => Some rest)).
Qed.

(* ------------------------------------------------------------------ *)
(* mandatory literal prefix                                             *)
(* ------------------------------------------------------------------ *)
Fixpoint mp (r : regex) : list ranges * bool :=
  match r with
  | REps => ([], true)
  | RChar x => ([[(x, x)]], true)
  | RClass rs => ([rs], true)
  | RSeq a b =>
      let (pa, fa) := mp a in
      if fa then let (pb, fb) := mp b in (pa ++ pb, fb) else (pa, false)
  | _ => ([], false)
  end.

(* the input does not contradict the prefix (a too short input does not) *)
Fixpoint fits (p : list ranges) (s : str) : bool :=
  match p, s with
  | [], _ => true
  | _, [] => true
  | rs :: p', x :: s' => in_ranges x rs && fits p' s'
  end.

Fixpoint take_fixed (p : list ranges) (s : str) : option str :=
  match p, s with
  | [], _ => Some s
  | _ :: _, [] => None
  | rs :: p', x :: s' => if in_ranges x rs then take_fixed p' s' else None
  end.

Lemma take_fixed_app p1 p2 s :
  take_fixed (p1 ++ p2) s = match take_fixed p1 s with Some s' => take_fixed p2 s' | None => None end.
Proof.
  revert s. induction p1 as [|rs p1 IH]; intro s; cbn [app take_fixed]; [reflexivity|].
  destruct s as [|x s]; [reflexivity|]. destruct (in_ranges x rs); [apply IH | reflexivity].
Qed.

Lemma single_range x y : in_ranges y [(x, x)] = (y =? x).
Proof.
  cbn [in_ranges]. rewrite orb_false_r.
  destruct (y =? x) eqn:E.
  - apply N.eqb_eq in E. subst. rewrite N.leb_refl. reflexivity.
  - apply N.eqb_neq in E. destruct (x <=? y) eqn:E1, (y <=? x) eqn:E2; try reflexivity.
    apply N.leb_le in E1, E2. lia.
Qed.

Lemma fixed_exact {A} (r : regex) :
  snd (mp r) = true ->
  forall s (k : str -> option A),
  mt r s k = match take_fixed (fst (mp r)) s with Some s' => k s' | None => None end.
Proof.
  induction r as [|x|rs|a IHa b IHb|a IHa b IHb|a IHa|a IHa|a IHa]; cbn [mp]; intros Hf s k; try discriminate.
  - reflexivity.
  - cbn [fst take_fixed mt]. destruct s as [|y s]; [reflexivity|]. rewrite single_range. destruct (y =? x); reflexivity.
  - cbn [fst take_fixed mt]. destruct s as [|y s]; [reflexivity|]. destruct (in_ranges y rs); reflexivity.
  - destruct (mp a) as [pa fa]. destruct fa; [|discriminate]. destruct (mp b) as [pb fb].
    cbn [fst snd] in *. cbn [mt]. rewrite (IHa eq_refl). rewrite take_fixed_app.
    destruct (take_fixed pa s) as [s'|]; [apply IHb; exact Hf | reflexivity].
Qed.

Lemma fits_take p s : fits p s = false -> take_fixed p s = None.
Proof.
  revert s. induction p as [|rs p IH]; intros s H; cbn [fits take_fixed] in *; [discriminate|].
  destruct s as [|x s]; [discriminate|]. destruct (in_ranges x rs); [apply IH; exact H | reflexivity].
Qed.

Lemma fits_app p1 p2 s :
  fits (p1 ++ p2) s = false ->
  fits p1 s = false \/ exists s', take_fixed p1 s = Some s' /\ fits p2 s' = false.
Proof.
  revert s. induction p1 as [|rs p1 IH]; intros s H; cbn [app fits take_fixed] in *.
  - right. exists s. split; [reflexivity | exact H].
  - destruct s as [|x s].
    + destruct (p1 ++ p2); discriminate.
    + destruct (in_ranges x rs); cbn [andb] in *; [apply IH; exact H | left; reflexivity].
Qed.

Lemma mp_sound {A} (r : regex) :
  forall s (k : str -> option A), fits (fst (mp r)) s = false -> mt r s k = None.
Proof.
  induction r as [|x|rs|a IHa b IHb|a IHa b IHb|a IHa|a IHa|a IHa]; cbn [mp]; intros s k H; try (cbn [fst fits] in H; discriminate).
  - cbn [fst fits mt] in *. destruct s as [|y s]; [discriminate|]. rewrite single_range in H.
    rewrite andb_true_r in H. rewrite H. reflexivity.
  - cbn [fst fits mt] in *. destruct s as [|y s]; [discriminate|]. rewrite andb_true_r in H. rewrite H. reflexivity.
  - cbn [mt]. destruct (mp a) as [pa fa] eqn:Ea. destruct fa.
    + destruct (mp b) as [pb fb] eqn:Eb. cbn [fst] in *.
      assert (Hfa : snd (mp a) = true) by (rewrite Ea; reflexivity).
      rewrite (fixed_exact a Hfa). rewrite Ea. cbn [fst].
      apply fits_app in H as [H|(s' & Ht & H)].
      * rewrite (fits_take _ _ H). reflexivity.
      * rewrite Ht. apply IHb. exact H.
    + cbn [fst] in *. apply IHa. exact H.
Qed.

Lemma fits_more p s z : fits p s = false -> fits p (s ++ z) = false.
Proof.
  revert s. induction p as [|rs p IH]; intros s H; cbn [fits] in *; [discriminate|].
  destruct s as [|x s]; [discriminate|]. cbn [app]. destruct (in_ranges x rs); cbn [andb] in *; [apply IH; exact H | reflexivity].
Qed.
