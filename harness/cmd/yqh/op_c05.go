package main

// C05 ops: yaml.v3 node trees and yq's conversion of them, leading content.

import (
	"bytes"
	"fmt"
	"io"
	"strings"

	"github.com/mikefarah/yq/v4/pkg/yqlib"
	yaml "gopkg.in/yaml.v3"
)

func c05KindY(k yaml.Kind) byte {
	switch k {
	case yaml.DocumentNode:
		return 'D'
	case yaml.SequenceNode:
		return 'Q'
	case yaml.MappingNode:
		return 'M'
	case yaml.ScalarNode:
		return 'S'
	case yaml.AliasNode:
		return 'A'
	}
	return 'Z'
}

func c05KindC(k yqlib.Kind) byte {
	switch k {
	case yqlib.SequenceNode:
		return 'Q'
	case yqlib.MappingNode:
		return 'M'
	case yqlib.ScalarNode:
		return 'S'
	case yqlib.AliasNode:
		return 'A'
	}
	return 'Z'
}

func fld(b *bytes.Buffer, s string) { b.WriteString(s); b.WriteByte(0) }

func c05DumpY(b *bytes.Buffer, n *yaml.Node) {
	b.WriteByte(c05KindY(n.Kind))
	fld(b, fmt.Sprint(uint32(n.Style)))
	fld(b, n.Tag)
	fld(b, n.Value)
	fld(b, n.Anchor)
	if n.Alias != nil {
		b.WriteByte(1)
		fld(b, n.Alias.Anchor)
	} else {
		b.WriteByte(2)
		b.WriteByte(0)
	}
	fld(b, n.HeadComment)
	fld(b, n.LineComment)
	fld(b, n.FootComment)
	fld(b, fmt.Sprint(n.Line))
	fld(b, fmt.Sprint(n.Column))
	b.WriteByte('(')
	for _, c := range n.Content {
		c05DumpY(b, c)
	}
	b.WriteByte(')')
}

func c05DumpC(b *bytes.Buffer, n *yqlib.CandidateNode) {
	b.WriteByte(c05KindC(n.Kind))
	fld(b, fmt.Sprint(uint32(n.Style)))
	fld(b, n.Tag)
	fld(b, n.Value)
	fld(b, n.Anchor)
	if n.Alias != nil {
		b.WriteByte(1)
		fld(b, n.Alias.Anchor)
	} else {
		b.WriteByte(2)
		b.WriteByte(0)
	}
	fld(b, n.HeadComment)
	fld(b, n.LineComment)
	fld(b, n.FootComment)
	fld(b, fmt.Sprint(n.Line))
	fld(b, fmt.Sprint(n.Column))
	if n.IsMapKey {
		b.WriteByte('K')
	} else {
		b.WriteByte('k')
	}
	if n.Key != nil {
		b.WriteByte(1)
		b.WriteString(n.Key.Tag)
		b.WriteByte(0)
		b.WriteString(n.Key.Value)
		b.WriteByte(0)
	} else {
		b.WriteByte(2)
		b.WriteByte(0)
	}
	b.WriteByte('(')
	for _, c := range n.Content {
		c05DumpC(b, c)
	}
	b.WriteByte(')')
}

// JSON form of a yaml.Node tree for the Python side
func c05TreeY(n *yaml.Node) map[string]interface{} {
	m := map[string]interface{}{
		"k": string([]byte{c05KindY(n.Kind)}), "style": uint32(n.Style), "tag_b64": b64(n.Tag), "value_b64": b64(n.Value), "anchor_b64": b64(n.Anchor),
		"head_b64": b64(n.HeadComment), "line_b64": b64(n.LineComment), "foot_b64": b64(n.FootComment), "ln": n.Line, "col": n.Column,
	}
	if n.Alias != nil {
		m["alias_b64"] = b64(n.Alias.Anchor)
	}
	var cs []interface{}
	for _, c := range n.Content {
		cs = append(cs, c05TreeY(c))
	}
	m["c"] = cs
	return m
}

func init() {
	// c05conv: {input|input_b64} -> {docs: [{tree, doc_head_b64, doc_foot_b64, impl_b64}], err}
	// impl = dump of CandidateNode after UnmarshalYAML(root) '|' dump of the yaml.Node MarshalYAML returns
	register("c05conv", func(r Req) (Resp, error) {
		dec := yaml.NewDecoder(strings.NewReader(r.Text("input")))
		anchorMap := map[string]*yqlib.CandidateNode{}
		var docs []interface{}
		for {
			var d yaml.Node
			err := dec.Decode(&d)
			if err == io.EOF {
				break
			}
			if err != nil {
				return Resp{"docs": docs, "parse_error": true}, err
			}
			if len(d.Content) == 0 {
				docs = append(docs, map[string]interface{}{"empty": true})
				continue
			}
			root := d.Content[0]
			var c yqlib.CandidateNode
			var b bytes.Buffer
			if err := c.UnmarshalYAML(root, anchorMap); err != nil {
				b.WriteString("ERR")
			} else {
				c05DumpC(&b, &c)
				b.WriteByte('|')
				y, err := c.MarshalYAML()
				if err != nil {
					return nil, err
				}
				c05DumpY(&b, y)
			}
			docs = append(docs, map[string]interface{}{"tree": c05TreeY(root), "doc_head_b64": b64(d.HeadComment), "doc_foot_b64": b64(d.FootComment),
				"impl_b64": b64(b.String())})
		}
		return Resp{"docs": docs}, nil
	})
	// c05lead: {input|input_b64} -> {leading_b64, ndocs, first_b64 (first document re-encoded by yq, leading content excluded)}
	register("c05lead", func(r Req) (Resp, error) {
		prefs := yqlib.NewDefaultYamlPreferences()
		dec := yqlib.NewYamlDecoder(prefs)
		if err := dec.Init(strings.NewReader(r.Text("input"))); err != nil {
			return nil, err
		}
		n, err := dec.Decode()
		if err == io.EOF {
			return Resp{"ndocs": 0}, nil
		}
		if err != nil {
			return nil, err
		}
		var buf bytes.Buffer
		lead := n.LeadingContent
		p2 := yqlib.NewDefaultYamlPreferences()
		p2.UnwrapScalar = false
		if e := yqlib.NewYamlEncoder(p2).Encode(&buf, n); e != nil {
			return Resp{"leading_b64": b64(lead)}, e
		}
		return Resp{"leading_b64": b64(lead), "ndocs": 1, "first_b64": b64(buf.String())}, nil
	})
	// c05docs: {input|input_b64} -> {leading_b64, docs_b64: [each document encoded on its own by yq's YAML encoder, unwrap off]}
	register("c05docs", func(r Req) (Resp, error) {
		dec := yqlib.NewYamlDecoder(yqlib.NewDefaultYamlPreferences())
		if err := dec.Init(strings.NewReader(r.Text("input"))); err != nil {
			return nil, err
		}
		p2 := yqlib.NewDefaultYamlPreferences()
		p2.UnwrapScalar = false
		var docs []string
		lead := ""
		for {
			n, err := dec.Decode()
			if err == io.EOF {
				break
			}
			if err != nil {
				return Resp{"docs_b64": docs}, err
			}
			if len(docs) == 0 {
				lead = n.LeadingContent
			}
			var buf bytes.Buffer
			if e := yqlib.NewYamlEncoder(p2).Encode(&buf, n); e != nil {
				return Resp{"docs_b64": docs}, e
			}
			docs = append(docs, b64(buf.String()))
		}
		return Resp{"leading_b64": b64(lead), "docs_b64": docs}, nil
	})
	// c05print: {content|content_b64} -> {out_b64}
	register("c05print", func(r Req) (Resp, error) {
		var buf bytes.Buffer
		err := yqlib.NewYamlEncoder(yqlib.NewDefaultYamlPreferences()).PrintLeadingContent(&buf, r.Text("content"))
		return Resp{"out_b64": b64(buf.String())}, err
	})
	// c05consts: the style constants of both packages
	register("c05consts", func(r Req) (Resp, error) {
		return Resp{
			"yaml":  []uint32{uint32(yaml.TaggedStyle), uint32(yaml.DoubleQuotedStyle), uint32(yaml.SingleQuotedStyle), uint32(yaml.LiteralStyle), uint32(yaml.FoldedStyle), uint32(yaml.FlowStyle)},
			"yqlib": []uint32{uint32(yqlib.TaggedStyle), uint32(yqlib.DoubleQuotedStyle), uint32(yqlib.SingleQuotedStyle), uint32(yqlib.LiteralStyle), uint32(yqlib.FoldedStyle), uint32(yqlib.FlowStyle)},
			"map":   []uint32{uint32(yqlib.MapYamlStyle(yaml.TaggedStyle)), uint32(yqlib.MapYamlStyle(yaml.DoubleQuotedStyle)), uint32(yqlib.MapYamlStyle(yaml.SingleQuotedStyle)), uint32(yqlib.MapYamlStyle(yaml.LiteralStyle)), uint32(yqlib.MapYamlStyle(yaml.FoldedStyle)), uint32(yqlib.MapYamlStyle(yaml.FlowStyle)), uint32(yqlib.MapYamlStyle(0)), uint32(yqlib.MapYamlStyle(3)), uint32(yqlib.MapYamlStyle(33))},
			"back":  []uint32{uint32(yqlib.MapToYamlStyle(yqlib.TaggedStyle)), uint32(yqlib.MapToYamlStyle(yqlib.DoubleQuotedStyle)), uint32(yqlib.MapToYamlStyle(yqlib.SingleQuotedStyle)), uint32(yqlib.MapToYamlStyle(yqlib.LiteralStyle)), uint32(yqlib.MapToYamlStyle(yqlib.FoldedStyle)), uint32(yqlib.MapToYamlStyle(yqlib.FlowStyle)), uint32(yqlib.MapToYamlStyle(0)), uint32(yqlib.MapToYamlStyle(3)), uint32(yqlib.MapToYamlStyle(33))},
		}, nil
	})
}
