// yqh: JSON-lines server around /repo's yqlib (linked through a replace
// directive, so it is rebuilt from /repo's working tree by every check).
//
// One request per input line, one response per output line, same order.
// Every request runs under recover() and a deadline, so the outcome classes
// ok / err / panic / timeout are observable.
//
// Request : {"op": "<name>", ...op-specific fields...}
// Response: {"out": ..., "err": "<message>", "panic": "<site>", "timeout": true}
//
// Strings that may hold arbitrary bytes are sent base64 in fields whose name
// ends in "_b64".  Ops are registered from op_*.go files via register().
package main

import (
	"bufio"
	"encoding/json"
	"fmt"
	"os"
	"runtime"
	"strings"
	"time"

	"github.com/mikefarah/yq/v4/pkg/yqlib"
	logging "gopkg.in/op/go-logging.v1"
)

type Req map[string]interface{}
type Resp map[string]interface{}

type opFunc func(r Req) (Resp, error)

var ops = map[string]opFunc{}

func register(name string, f opFunc) { ops[name] = f }

func (r Req) Str(k string) string {
	if v, ok := r[k]; ok {
		if s, ok := v.(string); ok {
			return s
		}
	}
	return ""
}
func (r Req) Has(k string) bool { _, ok := r[k]; return ok }
func (r Req) Bool(k string) bool {
	if v, ok := r[k]; ok {
		if b, ok := v.(bool); ok {
			return b
		}
	}
	return false
}
func (r Req) Int(k string, def int) int {
	if v, ok := r[k]; ok {
		if f, ok := v.(float64); ok {
			return int(f)
		}
	}
	return def
}
func (r Req) Strs(k string) []string {
	var out []string
	if v, ok := r[k]; ok {
		if l, ok := v.([]interface{}); ok {
			for _, x := range l {
				if s, ok := x.(string); ok {
					out = append(out, s)
				}
			}
		}
	}
	return out
}

// panicSite extracts "file.go:line" of the first yqlib frame below the panic.
func panicSite() string {
	pcs := make([]uintptr, 64)
	n := runtime.Callers(3, pcs)
	frames := runtime.CallersFrames(pcs[:n])
	for {
		f, more := frames.Next()
		if strings.Contains(f.File, "/pkg/yqlib/") || strings.Contains(f.File, "/repo/cmd/") {
			parts := strings.Split(f.File, "/")
			return fmt.Sprintf("%s:%d %s", parts[len(parts)-1], f.Line, shortFn(f.Function))
		}
		if !more {
			break
		}
	}
	return "unknown"
}

func shortFn(s string) string {
	i := strings.LastIndex(s, "/")
	return s[i+1:]
}

func runOne(r Req, deadline time.Duration) Resp {
	ch := make(chan Resp, 1)
	go func() {
		defer func() {
			if p := recover(); p != nil {
				ch <- Resp{"panic": panicSite(), "panic_msg": fmt.Sprint(p)}
			}
		}()
		f, ok := ops[r.Str("op")]
		if !ok {
			ch <- Resp{"err": "unknown op " + r.Str("op"), "harness_error": true}
			return
		}
		resp, err := f(r)
		if resp == nil {
			resp = Resp{}
		}
		if err != nil {
			resp["err"] = err.Error()
		}
		ch <- resp
	}()
	select {
	case resp := <-ch:
		return resp
	case <-time.After(deadline):
		return Resp{"timeout": true}
	}
}

func main() {
	logging.SetLevel(logging.ERROR, "yq-lib")
	yqlib.InitExpressionParser()
	in := bufio.NewReaderSize(os.Stdin, 1<<20)
	out := bufio.NewWriterSize(os.Stdout, 1<<20)
	defer out.Flush()
	enc := json.NewEncoder(out)
	enc.SetEscapeHTML(false)
	for {
		line, err := in.ReadBytes('\n')
		if len(line) > 0 && strings.TrimSpace(string(line)) != "" {
			var r Req
			if e := json.Unmarshal(line, &r); e != nil {
				_ = enc.Encode(Resp{"err": "bad request: " + e.Error(), "harness_error": true})
			} else {
				d := time.Duration(r.Int("deadline_ms", 10000)) * time.Millisecond
				resp := runOne(r, d)
				if id, ok := r["id"]; ok {
					resp["id"] = id
				}
				_ = enc.Encode(resp)
			}
			out.Flush()
		}
		if err != nil {
			break
		}
	}
}
