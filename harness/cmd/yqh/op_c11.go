package main

// C11 ops.
//
// c11: the `eval` op (same code path: opEval) wrapped so that every outcome
// class of property C11 is observable and *contained*:
//   {"class":"ok"}                         results were produced
//   {"class":"err","msg":...}             an error was returned
//   {"class":"panic","site":"file.go:N fn","msg":...,"stack":[yqlib frames]}
//   process exit 3 with "C11-TIMEOUT"/"C11-MEMORY" on stderr  (vlib.yqh_batch
//   then answers {"crash": "...C11-TIMEOUT..."} for this request and restarts
//   the server: a runaway goroutine cannot be cancelled in Go, and leaving it
//   alive would make later answers depend on scheduling and on memory pressure).
//
// c11bounds: direct calls of the small yq-owned functions the Coq model
// Model/Bounds.v restates, through expressions (no unexported access needed).

import (
	"fmt"
	"os"
	"runtime"
	"strings"
	"time"
)

func yqlibFrames(skip int) []string {
	pcs := make([]uintptr, 96)
	n := runtime.Callers(skip, pcs)
	frames := runtime.CallersFrames(pcs[:n])
	var out []string
	for {
		f, more := frames.Next()
		if strings.Contains(f.File, "/pkg/yqlib/") || strings.Contains(f.File, "/repo/cmd/") {
			parts := strings.Split(f.File, "/")
			out = append(out, fmt.Sprintf("%s:%d", parts[len(parts)-1], f.Line))
			if len(out) >= 6 {
				break
			}
		}
		if !more {
			break
		}
	}
	return out
}

// evalStack: the yqlib function names (innermost first, deduplicated) on the
// stack of the goroutine that is running opEval, taken from a dump of all
// goroutines.
func evalStack() string {
	buf := make([]byte, 8<<20)
	n := runtime.Stack(buf, true)
	var best []string
	for _, g := range strings.Split(string(buf[:n]), "\n\n") {
		if !strings.Contains(g, "main.opEval") {
			continue
		}
		seen := map[string]bool{}
		for _, ln := range strings.Split(g, "\n") {
			i := strings.Index(ln, "/pkg/yqlib.")
			if i < 0 || strings.HasPrefix(ln, "\t") {
				continue
			}
			fn := ln[i+len("/pkg/yqlib."):]
			if j := strings.LastIndex(fn, "("); j > 0 {
				fn = fn[:j]
			}
			if !seen[fn] {
				seen[fn] = true
				best = append(best, fn)
			}
		}
	}
	if len(best) > 12 {
		best = best[:12]
	}
	return strings.Join(best, " < ")
}

func c11Eval(r Req) (Resp, error) {
	deadline := time.Duration(r.Int("c11_deadline_ms", 4000)) * time.Millisecond
	memLimit := uint64(r.Int("c11_mem_mb", 1500)) << 20
	ch := make(chan Resp, 1)
	go func() {
		defer func() {
			if p := recover(); p != nil {
				ch <- Resp{"class": "panic", "site": panicSite(), "msg": fmt.Sprint(p), "stack": yqlibFrames(3)}
			}
		}()
		resp, err := opEval(r)
		if resp == nil {
			resp = Resp{}
		}
		if err != nil {
			resp["class"] = "err"
			resp["msg"] = err.Error()
		} else {
			resp["class"] = "ok"
		}
		ch <- resp
	}()
	t0 := time.Now()
	tick := time.NewTicker(50 * time.Millisecond)
	defer tick.Stop()
	var ms runtime.MemStats
	for {
		select {
		case resp := <-ch:
			return resp, nil
		case <-tick.C:
			if time.Since(t0) > deadline {
				fmt.Fprintf(os.Stderr, "\nC11-TIMEOUT after %v\nC11-STACK %s\n", deadline, evalStack())
				os.Exit(3)
			}
			runtime.ReadMemStats(&ms)
			if ms.HeapAlloc+ms.StackInuse > memLimit {
				fmt.Fprintf(os.Stderr, "\nC11-MEMORY heap %d MB stack %d MB after %v\nC11-STACK %s\n", ms.HeapAlloc>>20, ms.StackInuse>>20, time.Since(t0), evalStack())
				os.Exit(3)
			}
		}
	}
}

func init() {
	register("c11", c11Eval)
}
