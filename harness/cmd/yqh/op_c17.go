package main

// C17 ops: direct calls of the @sh encoder and the shell-variables encoder.

import (
	"bytes"
	"strings"

	"github.com/mikefarah/yq/v4/pkg/yqlib"
)

func init() {
	// sh: {s_b64} -> {out_b64}   (shEncoder.Encode on a !!str scalar)
	register("sh", func(r Req) (Resp, error) {
		node := &yqlib.CandidateNode{Kind: yqlib.ScalarNode, Tag: "!!str", Value: r.Text("s")}
		var buf bytes.Buffer
		err := yqlib.NewShEncoder().Encode(&buf, node)
		return Resp{"out_b64": b64(buf.String())}, err
	})
	// shellvars: {input (json text)} -> {out_b64}
	register("shellvars", func(r Req) (Resp, error) {
		dec := yqlib.NewJSONDecoder()
		if err := dec.Init(strings.NewReader(r.Text("input"))); err != nil {
			return nil, err
		}
		node, err := dec.Decode()
		if err != nil {
			return nil, err
		}
		var buf bytes.Buffer
		err = yqlib.NewShellVariablesEncoder().Encode(&buf, node)
		return Resp{"out_b64": b64(buf.String())}, err
	})
}
