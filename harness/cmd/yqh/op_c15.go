package main

// C15/C13 op: evaluate several expressions against the same input text, each
// under its own recover(), through the same library path as `eval`.
//
// multi: {input|input_b64, in, out, indent, exprs: [..]} ->
//        {results: [{out: "...", err: "...", panic: "site"}, ...]}

import (
	"fmt"
)

func evalOneRecovered(r Req, expr string) (res map[string]interface{}) {
	res = map[string]interface{}{}
	defer func() {
		if p := recover(); p != nil {
			res["panic"] = panicSite()
			res["panic_msg"] = fmt.Sprint(p)
		}
	}()
	sub := Req{}
	for k, v := range r {
		sub[k] = v
	}
	sub["expr"] = expr
	delete(sub, "expr_b64")
	sub["text"] = true
	resp, err := opEval(sub)
	if resp != nil {
		if o, ok := resp["out"]; ok {
			res["out"] = o
		}
	}
	if err != nil {
		res["err"] = err.Error()
	}
	return res
}

func init() {
	register("multi", func(r Req) (Resp, error) {
		exprs := r.Strs("exprs")
		results := make([]interface{}, 0, len(exprs))
		for _, e := range exprs {
			results = append(results, evalOneRecovered(r, e))
		}
		return Resp{"results": results}, nil
	})
}
