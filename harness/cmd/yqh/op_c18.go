package main

// C18 ops: histories of evaluations inside one process, re-using library
// objects (ExpressionParser, parsed trees, decoder instances), and concurrent
// evaluations on separate evaluators / documents.

import (
	"bufio"
	"bytes"
	"container/list"
	"fmt"
	"os"
	"strings"
	"sync"

	"github.com/mikefarah/yq/v4/pkg/yqlib"
)

type c18Objects struct {
	trees    map[string]*yqlib.ExpressionNode
	decoders map[string]yqlib.Decoder
	encoders map[string]yqlib.Encoder
}

func newC18Objects() *c18Objects {
	return &c18Objects{trees: map[string]*yqlib.ExpressionNode{}, decoders: map[string]yqlib.Decoder{}, encoders: map[string]yqlib.Encoder{}}
}

func stepMap(v interface{}) Req {
	if m, ok := v.(map[string]interface{}); ok {
		return Req(m)
	}
	return Req{}
}

func c18Decoder(format string, all bool) (yqlib.Decoder, error) {
	if format == "" || format == "yaml" {
		p := yqlib.ConfiguredYamlPreferences.Copy()
		p.EvaluateTogether = all
		return yqlib.NewYamlDecoder(p), nil
	}
	f, err := yqlib.FormatFromString(format)
	if err != nil {
		return nil, err
	}
	if f.DecoderFactory == nil {
		return nil, fmt.Errorf("no decoder for %s", format)
	}
	return f.DecoderFactory(), nil
}

// what cmd.configureEncoder writes from the flags
func c18Configure(s Req) {
	if !s.Has("indent") && !s.Has("unwrap") {
		return
	}
	indent := s.Int("indent", 2)
	unwrap := true
	if s.Has("unwrap") {
		unwrap = s.Bool("unwrap")
	}
	yqlib.ConfiguredXMLPreferences.Indent = indent
	yqlib.ConfiguredYamlPreferences.Indent = indent
	yqlib.ConfiguredJSONPreferences.Indent = indent
	yqlib.ConfiguredYamlPreferences.UnwrapScalar = unwrap
	yqlib.ConfiguredPropertiesPreferences.UnwrapScalar = unwrap
	yqlib.ConfiguredJSONPreferences.UnwrapScalar = unwrap
}

// one evaluation: {expr, input|input_b64, in, out, all, reuse_tree, reuse_dec, indent, unwrap}
func c18Step(o *c18Objects, s Req) (string, error) {
	c18Configure(s)
	expr := s.Text("expr")
	var node *yqlib.ExpressionNode
	var err error
	if s.Bool("reuse_tree") {
		if t, ok := o.trees[expr]; ok {
			node = t
		}
	}
	if node == nil {
		node, err = yqlib.ExpressionParser.ParseExpression(expr)
		if err != nil {
			return "", fmt.Errorf("parse: %w", err)
		}
		if s.Bool("reuse_tree") {
			o.trees[expr] = node
		}
	}
	all := s.Bool("all")
	inFmt := s.Str("in")
	var dec yqlib.Decoder
	key := fmt.Sprintf("%s/%v", inFmt, all)
	if s.Bool("reuse_dec") {
		dec = o.decoders[key]
	}
	if dec == nil {
		dec, err = c18Decoder(inFmt, all)
		if err != nil {
			return "", err
		}
		if s.Bool("reuse_dec") {
			o.decoders[key] = dec
		}
	}
	outFmt := s.Str("out")
	if outFmt == "" {
		outFmt = "yaml"
	}
	f, err := yqlib.FormatFromString(outFmt)
	if err != nil {
		return "", err
	}
	// reuse_enc: the same Encoder instance as in earlier evaluations (a new printer every time)
	var enc yqlib.Encoder
	if s.Bool("reuse_enc") {
		enc = o.encoders[outFmt]
	}
	if enc == nil {
		enc = f.EncoderFactory()
		if enc == nil {
			return "", fmt.Errorf("no encoder for %s", outFmt)
		}
		if s.Bool("reuse_enc") {
			o.encoders[outFmt] = enc
		}
	}
	out := new(bytes.Buffer)
	printer := yqlib.NewPrinter(enc, yqlib.NewSinglePrinterWriter(out))
	input := s.Text("input")
	if all {
		var docs *list.List
		docs, err = yqlib.ReadDocuments(bufio.NewReader(strings.NewReader(input)), dec)
		if err == nil {
			if docs.Len() == 0 {
				docs.PushBack(&yqlib.CandidateNode{Kind: yqlib.ScalarNode, Tag: "!!null"})
			}
			var ctx yqlib.Context
			ctx, err = yqlib.NewDataTreeNavigator().GetMatchingNodes(yqlib.Context{MatchingNodes: docs}, node)
			if err == nil {
				err = printer.PrintResults(ctx.MatchingNodes)
			}
		}
	} else {
		_, err = yqlib.NewStreamEvaluator().Evaluate("", bufio.NewReader(strings.NewReader(input)), node, printer, dec)
	}
	return out.String(), err
}

func errString(e error) string {
	if e == nil {
		return ""
	}
	return e.Error()
}

func init() {
	// history: {steps: [step...], files: {name: content}} -> {outs: [{out_b64, err}]}
	register("history", func(r Req) (Resp, error) {
		o := newC18Objects()
		if fs, ok := r["files"].(map[string]interface{}); ok {
			for name, content := range fs {
				if c, ok := content.(string); ok {
					if err := os.WriteFile(name, []byte(c), 0o600); err != nil {
						return nil, err
					}
				}
			}
		}
		steps, _ := r["steps"].([]interface{})
		outs := make([]interface{}, 0, len(steps))
		for _, sv := range steps {
			s := stepMap(sv)
			var res string
			var err error
			func() {
				defer func() {
					if p := recover(); p != nil {
						err = fmt.Errorf("panic: %v", p)
					}
				}()
				res, err = c18Step(o, s)
			}()
			outs = append(outs, map[string]interface{}{"out_b64": b64(res), "err": errString(err)})
		}
		return Resp{"outs": outs}, nil
	})

	// concurrent: {a: step, b: step, n: rounds, files} -> {solo: [..2], mismatches: k, first: {...}}
	// the two evaluations use separate evaluators, decoders, printers, documents
	register("concurrent", func(r Req) (Resp, error) {
		if fs, ok := r["files"].(map[string]interface{}); ok {
			for name, content := range fs {
				if c, ok := content.(string); ok {
					if err := os.WriteFile(name, []byte(c), 0o600); err != nil {
						return nil, err
					}
				}
			}
		}
		a, b := stepMap(r["a"]), stepMap(r["b"])
		n := r.Int("n", 20)
		type res struct {
			out string
			err string
		}
		runOne := func(s Req) (x res) {
			defer func() {
				if p := recover(); p != nil {
					x = res{"", fmt.Sprintf("panic: %v", p)}
				}
			}()
			out, err := c18Step(newC18Objects(), s)
			return res{out, errString(err)}
		}
		soloA, soloB := runOne(a), runOne(b)
		mism := 0
		var first interface{}
		for i := 0; i < n; i++ {
			var ra, rb res
			var wg sync.WaitGroup
			wg.Add(2)
			go func() { defer wg.Done(); ra = runOne(a) }()
			go func() { defer wg.Done(); rb = runOne(b) }()
			wg.Wait()
			if ra != soloA || rb != soloB {
				mism++
				if first == nil {
					first = map[string]interface{}{"a_out_b64": b64(ra.out), "a_err": ra.err, "b_out_b64": b64(rb.out), "b_err": rb.err}
				}
			}
		}
		return Resp{"solo": []interface{}{
			map[string]interface{}{"out_b64": b64(soloA.out), "err": soloA.err},
			map[string]interface{}{"out_b64": b64(soloB.out), "err": soloB.err}},
			"mismatches": mism, "first": first}, nil
	})
}
