package main

// C07 op.  ynodes: parse a YAML text with gopkg.in/yaml.v3 *directly* (not
// through yqlib) and dump the node tree: an independent reader of the bytes
// yq printed, used to extract the per-path attribute table.

import (
	"bytes"
	"io"

	yaml "gopkg.in/yaml.v3"
)

func dumpYNode(n *yaml.Node) map[string]interface{} {
	m := map[string]interface{}{
		"kind": int(n.Kind), "style": int(n.Style), "tag": n.Tag, "value": n.Value, "anchor": n.Anchor,
		"head": n.HeadComment, "line": n.LineComment, "foot": n.FootComment, "l": n.Line, "c": n.Column,
	}
	if n.Alias != nil {
		m["alias"] = n.Alias.Anchor
	}
	if len(n.Content) > 0 {
		cs := make([]interface{}, len(n.Content))
		for i, c := range n.Content {
			cs[i] = dumpYNode(c)
		}
		m["content"] = cs
	}
	return m
}

func init() {
	// ynodes: {input|input_b64} -> {docs: [node...]}
	register("ynodes", func(r Req) (Resp, error) {
		dec := yaml.NewDecoder(bytes.NewReader([]byte(r.Text("input"))))
		var docs []interface{}
		for {
			var n yaml.Node
			err := dec.Decode(&n)
			if err == io.EOF {
				break
			}
			if err != nil {
				return Resp{"docs": docs}, err
			}
			docs = append(docs, dumpYNode(&n))
		}
		return Resp{"docs": docs}, nil
	})
}
