package main

// General-purpose ops: eval (library path of `yq [ea] EXPR`), encode, parse.

import (
	"bufio"
	"bytes"
	"container/list"
	"encoding/base64"
	"fmt"
	"strings"

	"github.com/mikefarah/yq/v4/pkg/yqlib"
)

func b64(s string) string { return base64.StdEncoding.EncodeToString([]byte(s)) }
func unb64(s string) string {
	b, err := base64.StdEncoding.DecodeString(s)
	if err != nil {
		panic("harness: bad base64 " + err.Error())
	}
	return string(b)
}

// input text: "input" (utf-8) or "input_b64"
func (r Req) Text(k string) string {
	if r.Has(k + "_b64") {
		return unb64(r.Str(k + "_b64"))
	}
	return r.Str(k)
}

func decoderFor(name string) (yqlib.Decoder, error) {
	switch name {
	case "", "yaml":
		p := yqlib.NewDefaultYamlPreferences()
		return yqlib.NewYamlDecoder(p), nil
	case "json":
		return yqlib.NewJSONDecoder(), nil
	}
	f, err := yqlib.FormatFromString(name)
	if err != nil {
		return nil, err
	}
	if f.DecoderFactory == nil {
		return nil, fmt.Errorf("no decoder for %s", name)
	}
	return f.DecoderFactory(), nil
}

func encoderFor(r Req) (yqlib.Encoder, error) {
	name := r.Str("out")
	indent := r.Int("indent", 0)
	unwrap := r.Bool("unwrap")
	switch name {
	case "", "json":
		return yqlib.NewJSONEncoder(yqlib.JsonPreferences{Indent: indent, ColorsEnabled: false, UnwrapScalar: unwrap}), nil
	case "yaml":
		p := yqlib.NewDefaultYamlPreferences()
		if r.Has("indent") {
			p.Indent = indent
		}
		if r.Has("unwrap") {
			p.UnwrapScalar = unwrap
		}
		if r.Has("nosep") {
			p.PrintDocSeparators = !r.Bool("nosep")
		}
		return yqlib.NewYamlEncoder(p), nil
	case "sh":
		return yqlib.NewShEncoder(), nil
	}
	f, err := yqlib.FormatFromString(name)
	if err != nil {
		return nil, err
	}
	return f.EncoderFactory(), nil
}

// eval: {expr, input|input_b64, in, out, indent, unwrap, all, nulsep}
// -> {out_b64, out (if valid utf8 requested via "text":true)}
func opEval(r Req) (Resp, error) {
	dec, err := decoderFor(r.Str("in"))
	if err != nil {
		return nil, err
	}
	enc, err := encoderFor(r)
	if err != nil {
		return nil, err
	}
	out := new(bytes.Buffer)
	printer := yqlib.NewPrinter(enc, yqlib.NewSinglePrinterWriter(out))
	if r.Bool("nulsep") {
		printer.SetNulSepOutput(true)
	}
	input := r.Text("input")
	expr := r.Text("expr")
	var evalErr error
	if r.Bool("all") {
		var docs *list.List
		docs, evalErr = yqlib.ReadDocuments(bufio.NewReader(strings.NewReader(input)), dec)
		if evalErr == nil {
			if docs.Len() == 0 && r.Bool("null_on_empty") {
				// mirror allAtOnceEvaluator.EvaluateFiles
			}
			var results *list.List
			results, evalErr = yqlib.NewAllAtOnceEvaluator().EvaluateCandidateNodes(expr, docs)
			if evalErr == nil {
				evalErr = printer.PrintResults(results)
			}
		}
	} else {
		node, perr := yqlib.ExpressionParser.ParseExpression(expr)
		if perr != nil {
			return Resp{"stage": "parse"}, perr
		}
		_, evalErr = yqlib.NewStreamEvaluator().Evaluate("", bufio.NewReader(strings.NewReader(input)), node, printer, dec)
	}
	resp := Resp{"out_b64": b64(out.String()), "printed": printer.PrintedAnything()}
	if r.Bool("text") {
		resp["out"] = out.String()
	}
	return resp, evalErr
}

// parse: {expr} -> {tree: <s-expression of the operator tree>}
func dumpTree(n *yqlib.ExpressionNode) interface{} {
	if n == nil {
		return nil
	}
	m := map[string]interface{}{}
	if n.Operation != nil {
		m["op"] = n.Operation.OperationType.Type
		m["val"] = n.Operation.StringValue
		if n.Operation.UpdateAssign {
			m["upd"] = true
		}
		if n.Operation.Preferences != nil {
			m["prefs"] = fmt.Sprintf("%+v", n.Operation.Preferences)
		}
	}
	if n.LHS != nil {
		m["l"] = dumpTree(n.LHS)
	}
	if n.RHS != nil {
		m["r"] = dumpTree(n.RHS)
	}
	return m
}

func opParse(r Req) (Resp, error) {
	node, err := yqlib.ExpressionParser.ParseExpression(r.Text("expr"))
	if err != nil {
		return nil, err
	}
	return Resp{"tree": dumpTree(node)}, nil
}

func init() {
	register("eval", opEval)
	register("parse", opParse)
	register("ping", func(r Req) (Resp, error) { return Resp{"out": "pong"}, nil })
}
