package main

// C14 ops: encoders / decoders of the "other" formats driven on trees given
// as data (so arbitrary bytes reach them without passing through yq's own
// YAML / JSON codecs), and the in-expression encode / decode operators.
//
// Tree description (request and response):
//   scalar   {"k":"s","t":"!!str","v_b64":"..."}   (optional "style": "literal"|"single"|"double"|"folded"|"flow")
//   sequence {"k":"q","c":[...]}
//   mapping  {"k":"m","c":[key,value,key,value,...]}
//
// c14_enc : {fmt, node, <prefs>}            -> {out_b64} | err
// c14_dec : {fmt, text_b64, <prefs>}        -> {node} | err (+ errclass)
// c14_op  : {expr, node, <prefs>}           -> {nodes:[...]} | err   (all-at-once evaluator on the given node)
//
// prefs: sep (one character), csv_auto (bool), xml_attr, xml_content, indent,
//        lua_unquoted, lua_globals, props_sep, props_brackets, props_wrap

import (
	"bufio"
	"bytes"
	"encoding/base64"
	"encoding/xml"
	"errors"
	"fmt"
	"io"
	"net/url"
	"strings"
	"unicode/utf8"

	"github.com/mikefarah/yq/v4/pkg/yqlib"
	toml "github.com/pelletier/go-toml/v2/unstable"
)

func c14Build(v interface{}) (*yqlib.CandidateNode, error) {
	m, ok := v.(map[string]interface{})
	if !ok {
		return nil, fmt.Errorf("harness: bad node description")
	}
	k, _ := m["k"].(string)
	switch k {
	case "s":
		tag, _ := m["t"].(string)
		if tag == "" {
			tag = "!!str"
		}
		val := ""
		if s, ok := m["v_b64"].(string); ok {
			val = unb64(s)
		} else if s, ok := m["v"].(string); ok {
			val = s
		}
		n := &yqlib.CandidateNode{Kind: yqlib.ScalarNode, Tag: tag, Value: val}
		switch m["style"] {
		case "literal":
			n.Style = yqlib.LiteralStyle
		case "single":
			n.Style = yqlib.SingleQuotedStyle
		case "double":
			n.Style = yqlib.DoubleQuotedStyle
		case "folded":
			n.Style = yqlib.FoldedStyle
		case "flow":
			n.Style = yqlib.FlowStyle
		}
		return n, nil
	case "q":
		n := &yqlib.CandidateNode{Kind: yqlib.SequenceNode, Tag: "!!seq"}
		cs, _ := m["c"].([]interface{})
		for _, c := range cs {
			ch, err := c14Build(c)
			if err != nil {
				return nil, err
			}
			n.AddChild(ch)
		}
		return n, nil
	case "m":
		n := &yqlib.CandidateNode{Kind: yqlib.MappingNode, Tag: "!!map"}
		cs, _ := m["c"].([]interface{})
		if len(cs)%2 != 0 {
			return nil, fmt.Errorf("harness: odd map content")
		}
		for i := 0; i < len(cs); i += 2 {
			kn, err := c14Build(cs[i])
			if err != nil {
				return nil, err
			}
			vn, err := c14Build(cs[i+1])
			if err != nil {
				return nil, err
			}
			n.AddKeyValueChild(kn, vn)
		}
		return n, nil
	}
	return nil, fmt.Errorf("harness: bad node kind %q", k)
}

func c14Dump(n *yqlib.CandidateNode) interface{} {
	if n == nil {
		return nil
	}
	switch n.Kind {
	case yqlib.ScalarNode:
		return map[string]interface{}{"k": "s", "t": n.Tag, "v_b64": b64(n.Value)}
	case yqlib.SequenceNode:
		cs := make([]interface{}, 0, len(n.Content))
		for _, c := range n.Content {
			cs = append(cs, c14Dump(c))
		}
		return map[string]interface{}{"k": "q", "c": cs}
	case yqlib.MappingNode:
		cs := make([]interface{}, 0, len(n.Content))
		for _, c := range n.Content {
			cs = append(cs, c14Dump(c))
		}
		return map[string]interface{}{"k": "m", "c": cs}
	case yqlib.AliasNode:
		return map[string]interface{}{"k": "a", "c": c14Dump(n.Alias)}
	}
	return map[string]interface{}{"k": "?"}
}

func c14Sep(r Req, def rune) rune {
	s := r.Str("sep")
	if s == "" {
		return def
	}
	ru, _ := utf8.DecodeRuneInString(s)
	return ru
}

func c14XmlPrefs(r Req) yqlib.XmlPreferences {
	p := yqlib.NewDefaultXmlPreferences()
	if r.Has("xml_attr") {
		p.AttributePrefix = r.Str("xml_attr")
	}
	if r.Has("xml_content") {
		p.ContentName = r.Str("xml_content")
	}
	if r.Has("indent") {
		p.Indent = r.Int("indent", 2)
	}
	if r.Has("xml_proc") {
		p.ProcInstPrefix = r.Str("xml_proc")
	}
	if r.Has("xml_directive") {
		p.DirectiveName = r.Str("xml_directive")
	}
	if r.Has("xml_keep_ns") {
		p.KeepNamespace = r.Bool("xml_keep_ns")
	}
	if r.Has("xml_skip_proc") {
		p.SkipProcInst = r.Bool("xml_skip_proc")
	}
	if r.Has("xml_skip_dir") {
		p.SkipDirectives = r.Bool("xml_skip_dir")
	}
	return p
}

// c14_tomlexpr: {text_b64} -> {exprs: [...]}: the expression list of go-toml's unstable parser, produced without yqlib.
// kv: {k:"kv", path:[b64...], v:value}; table / atable: {k, path}; value: {k:<Kind>, v:b64} | {k:"Array", c:[value...]} |
// {k:"InlineTable", c:[kv...]}
func c14TomlPath(it toml.Iterator) []string {
	out := []string{}
	for it.Next() {
		out = append(out, b64(string(it.Node().Data)))
	}
	return out
}

func c14TomlValue(n *toml.Node) interface{} {
	switch n.Kind {
	case toml.Array:
		cs := []interface{}{}
		it := n.Children()
		for it.Next() {
			cs = append(cs, c14TomlValue(it.Node()))
		}
		return map[string]interface{}{"k": "Array", "c": cs}
	case toml.InlineTable:
		cs := []interface{}{}
		it := n.Children()
		for it.Next() {
			cs = append(cs, c14TomlExpr(it.Node()))
		}
		return map[string]interface{}{"k": "InlineTable", "c": cs}
	}
	return map[string]interface{}{"k": n.Kind.String(), "v": b64(string(n.Data))}
}

func c14TomlExpr(n *toml.Node) interface{} {
	switch n.Kind {
	case toml.Table:
		return map[string]interface{}{"k": "table", "path": c14TomlPath(n.Key())}
	case toml.ArrayTable:
		return map[string]interface{}{"k": "atable", "path": c14TomlPath(n.Key())}
	case toml.KeyValue:
		return map[string]interface{}{"k": "kv", "path": c14TomlPath(n.Key()), "v": c14TomlValue(n.Value())}
	}
	return map[string]interface{}{"k": "other:" + n.Kind.String()}
}

// c14_xmltok: {text_b64} -> {toks: [...]}: the token stream of encoding/xml's RawToken (Strict off, as yq configures
// it), produced without yqlib.  S: start (space, local, attrs [[space, local, value]...]), C: character data,
// E: end, M: comment, P: processing instruction, D: directive; all strings base64.
func c14XmlTokens(text string) ([]interface{}, error) {
	d := xml.NewDecoder(strings.NewReader(text))
	d.Strict = false
	toks := []interface{}{}
	for {
		t, err := d.RawToken()
		if t == nil {
			if err != nil && !errors.Is(err, io.EOF) {
				return toks, err
			}
			return toks, nil
		}
		switch se := t.(type) {
		case xml.StartElement:
			attrs := []interface{}{}
			for _, a := range se.Attr {
				attrs = append(attrs, []string{b64(a.Name.Space), b64(a.Name.Local), b64(a.Value)})
			}
			toks = append(toks, map[string]interface{}{"t": "S", "sp": b64(se.Name.Space), "lo": b64(se.Name.Local), "a": attrs})
		case xml.CharData:
			toks = append(toks, map[string]interface{}{"t": "C", "v": b64(string(se))})
		case xml.EndElement:
			toks = append(toks, map[string]interface{}{"t": "E", "sp": b64(se.Name.Space), "lo": b64(se.Name.Local)})
		case xml.Comment:
			toks = append(toks, map[string]interface{}{"t": "M", "v": b64(string(se))})
		case xml.ProcInst:
			toks = append(toks, map[string]interface{}{"t": "P", "target": b64(se.Target), "v": b64(string(se.Inst))})
		case xml.Directive:
			toks = append(toks, map[string]interface{}{"t": "D", "v": b64(string(se))})
		}
		if err != nil {
			return toks, err
		}
	}
}

func c14LuaPrefs(r Req) yqlib.LuaPreferences {
	p := yqlib.NewDefaultLuaPreferences()
	p.UnquotedKeys = r.Bool("lua_unquoted")
	p.Globals = r.Bool("lua_globals")
	return p
}

func c14PropsPrefs(r Req) yqlib.PropertiesPreferences {
	p := yqlib.NewDefaultPropertiesPreferences()
	if r.Has("props_sep") {
		p.KeyValueSeparator = r.Str("props_sep")
	}
	p.UseArrayBrackets = r.Bool("props_brackets")
	if r.Bool("props_wrap") {
		p.UnwrapScalar = false
	}
	return p
}

func c14CsvPrefs(r Req, def rune) yqlib.CsvPreferences {
	auto := true
	if r.Has("csv_auto") {
		auto = r.Bool("csv_auto")
	}
	return yqlib.CsvPreferences{Separator: c14Sep(r, def), AutoParse: auto}
}

func c14Encoder(r Req) (yqlib.Encoder, error) {
	switch r.Str("fmt") {
	case "base64":
		return yqlib.NewBase64Encoder(), nil
	case "uri":
		return yqlib.NewUriEncoder(), nil
	case "csv":
		return yqlib.NewCsvEncoder(c14CsvPrefs(r, ',')), nil
	case "tsv":
		return yqlib.NewCsvEncoder(c14CsvPrefs(r, '\t')), nil
	case "props":
		return yqlib.NewPropertiesEncoder(c14PropsPrefs(r)), nil
	case "xml":
		return yqlib.NewXMLEncoder(c14XmlPrefs(r)), nil
	case "lua":
		return yqlib.NewLuaEncoder(c14LuaPrefs(r)), nil
	case "toml":
		return yqlib.NewTomlEncoder(), nil
	case "json":
		return yqlib.NewJSONEncoder(yqlib.JsonPreferences{Indent: r.Int("indent", 0)}), nil
	}
	return nil, fmt.Errorf("harness: no encoder %q", r.Str("fmt"))
}

func c14Decoder(r Req) (yqlib.Decoder, error) {
	switch r.Str("fmt") {
	case "base64":
		return yqlib.NewBase64Decoder(), nil
	case "uri":
		return yqlib.NewUriDecoder(), nil
	case "csv":
		return yqlib.NewCSVObjectDecoder(c14CsvPrefs(r, ',')), nil
	case "tsv":
		return yqlib.NewCSVObjectDecoder(c14CsvPrefs(r, '\t')), nil
	case "props":
		return yqlib.NewPropertiesDecoder(), nil
	case "xml":
		return yqlib.NewXMLDecoder(c14XmlPrefs(r)), nil
	case "lua":
		return yqlib.NewLuaDecoder(c14LuaPrefs(r)), nil
	case "toml":
		return yqlib.NewTomlDecoder(), nil
	case "json":
		return yqlib.NewJSONDecoder(), nil
	}
	return nil, fmt.Errorf("harness: no decoder %q", r.Str("fmt"))
}

func c14ErrClass(err error) string {
	if err == nil {
		return ""
	}
	var ce base64.CorruptInputError
	if errors.As(err, &ce) {
		return "b64corrupt"
	}
	if errors.Is(err, io.ErrUnexpectedEOF) {
		return "ueof"
	}
	var ee url.EscapeError
	if errors.As(err, &ee) {
		return "uriescape"
	}
	if errors.Is(err, io.EOF) {
		return "eof"
	}
	return "other"
}

// the same path as the CLI / encodeToString: Printer over a buffered writer
func c14Print(enc yqlib.Encoder, node *yqlib.CandidateNode) (string, error) {
	var out bytes.Buffer
	printer := yqlib.NewPrinter(enc, yqlib.NewSinglePrinterWriter(bufio.NewWriter(&out)))
	err := printer.PrintResults(node.AsList())
	return out.String(), err
}

// set the process-wide preferences the in-expression operators read
func c14WithGlobals(r Req, f func() (Resp, error)) (Resp, error) {
	oc, ot, ox, ol, op := yqlib.ConfiguredCsvPreferences, yqlib.ConfiguredTsvPreferences, yqlib.ConfiguredXMLPreferences,
		yqlib.ConfiguredLuaPreferences, yqlib.ConfiguredPropertiesPreferences
	defer func() {
		yqlib.ConfiguredCsvPreferences, yqlib.ConfiguredTsvPreferences, yqlib.ConfiguredXMLPreferences = oc, ot, ox
		yqlib.ConfiguredLuaPreferences, yqlib.ConfiguredPropertiesPreferences = ol, op
	}()
	yqlib.ConfiguredCsvPreferences = c14CsvPrefs(r, ',')
	yqlib.ConfiguredTsvPreferences = c14CsvPrefs(r, '\t')
	if r.Has("sep") && r.Str("fmt") == "csv" {
		yqlib.ConfiguredTsvPreferences = ot
	}
	if r.Has("sep") && r.Str("fmt") == "tsv" {
		yqlib.ConfiguredCsvPreferences = oc
	}
	yqlib.ConfiguredXMLPreferences = c14XmlPrefs(r)
	yqlib.ConfiguredLuaPreferences = c14LuaPrefs(r)
	yqlib.ConfiguredPropertiesPreferences = c14PropsPrefs(r)
	return f()
}

func init() {
	register("c14_enc", func(r Req) (Resp, error) {
		node, err := c14Build(r["node"])
		if err != nil {
			return Resp{"harness_error": true}, err
		}
		enc, err := c14Encoder(r)
		if err != nil {
			return Resp{"harness_error": true}, err
		}
		out, err := c14Print(enc, node)
		return Resp{"out_b64": b64(out)}, err
	})
	register("c14_dec", func(r Req) (Resp, error) {
		dec, err := c14Decoder(r)
		if err != nil {
			return Resp{"harness_error": true}, err
		}
		if err := dec.Init(strings.NewReader(r.Text("text"))); err != nil {
			return Resp{"errclass": c14ErrClass(err)}, err
		}
		node, err := dec.Decode()
		if err != nil {
			return Resp{"errclass": c14ErrClass(err)}, err
		}
		resp := Resp{"node": c14Dump(node)}
		// a second Decode must report the end of the stream
		if r.Bool("again") {
			n2, err2 := dec.Decode()
			resp["again_eof"] = errors.Is(err2, io.EOF)
			if n2 != nil {
				resp["again_node"] = c14Dump(n2)
			}
		}
		return resp, nil
	})
	register("c14_tomlexpr", func(r Req) (Resp, error) {
		p := toml.Parser{}
		p.Reset([]byte(r.Text("text")))
		exprs := []interface{}{}
		for p.NextExpression() {
			exprs = append(exprs, c14TomlExpr(p.Expression()))
		}
		return Resp{"exprs": exprs}, p.Error()
	})
	register("c14_xmltok", func(r Req) (Resp, error) {
		toks, err := c14XmlTokens(r.Text("text"))
		return Resp{"toks": toks}, err
	})
	register("c14_op", func(r Req) (Resp, error) {
		return c14WithGlobals(r, func() (Resp, error) {
			node, err := c14Build(r["node"])
			if err != nil {
				return Resp{"harness_error": true}, err
			}
			res, err := yqlib.NewAllAtOnceEvaluator().EvaluateNodes(r.Text("expr"), node)
			if err != nil {
				return Resp{"errclass": c14ErrClass(err)}, err
			}
			outs := []interface{}{}
			for el := res.Front(); el != nil; el = el.Next() {
				outs = append(outs, c14Dump(el.Value.(*yqlib.CandidateNode)))
			}
			return Resp{"nodes": outs}, nil
		})
	})
}
