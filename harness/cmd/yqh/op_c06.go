package main

// C06 ops: the JSON encoder on a directly built CandidateNode tree, and the
// JSON decoder with a canonical dump of the node tree it builds.

import (
	"bytes"
	"fmt"
	"math"
	"strconv"
	"strings"

	"github.com/mikefarah/yq/v4/pkg/yqlib"
)

// tree: {"k":"s","t":tag,"v_b64":..} | {"k":"q","c":[tree..]} | {"k":"m","c":[[key_b64,tree]..]}
//
//	| {"k":"a","c":tree} | {"k":"z"}
func c06Build(x interface{}) (*yqlib.CandidateNode, error) {
	m, ok := x.(map[string]interface{})
	if !ok {
		return nil, fmt.Errorf("harness: bad tree")
	}
	kind, _ := m["k"].(string)
	switch kind {
	case "s":
		tag, _ := m["t"].(string)
		v, _ := m["v_b64"].(string)
		return &yqlib.CandidateNode{Kind: yqlib.ScalarNode, Tag: tag, Value: unb64(v)}, nil
	case "q":
		n := &yqlib.CandidateNode{Kind: yqlib.SequenceNode, Tag: "!!seq"}
		cs, _ := m["c"].([]interface{})
		for _, c := range cs {
			ch, err := c06Build(c)
			if err != nil {
				return nil, err
			}
			ch.Parent = n
			n.Content = append(n.Content, ch)
		}
		return n, nil
	case "m":
		n := &yqlib.CandidateNode{Kind: yqlib.MappingNode, Tag: "!!map"}
		cs, _ := m["c"].([]interface{})
		for _, c := range cs {
			pair, ok := c.([]interface{})
			if !ok || len(pair) != 2 {
				return nil, fmt.Errorf("harness: bad pair")
			}
			ks, _ := pair[0].(string)
			key := &yqlib.CandidateNode{Kind: yqlib.ScalarNode, Tag: "!!str", Value: unb64(ks), IsMapKey: true, Parent: n}
			ch, err := c06Build(pair[1])
			if err != nil {
				return nil, err
			}
			ch.Parent = n
			ch.Key = key
			n.Content = append(n.Content, key, ch)
		}
		return n, nil
	case "a":
		t, err := c06Build(m["c"])
		if err != nil {
			return nil, err
		}
		return &yqlib.CandidateNode{Kind: yqlib.AliasNode, Alias: t}, nil
	case "z":
		return &yqlib.CandidateNode{}, nil
	}
	return nil, fmt.Errorf("harness: bad tree kind %q", kind)
}

func c06Dump(b *bytes.Buffer, n *yqlib.CandidateNode) {
	switch n.Kind {
	case yqlib.ScalarNode:
		if n.Tag == "!!float" {
			b.WriteByte('F')
			return
		}
		b.WriteByte('S')
		b.WriteString(n.Tag)
		b.WriteByte(0)
		b.WriteString(n.Value)
		b.WriteByte(0)
	case yqlib.SequenceNode:
		b.WriteByte('[')
		for _, c := range n.Content {
			c06Dump(b, c)
		}
		b.WriteByte(']')
	case yqlib.MappingNode:
		b.WriteByte('{')
		for i := 0; i+1 < len(n.Content); i += 2 {
			b.WriteString(n.Content[i].Value)
			b.WriteByte(0)
			c06Dump(b, n.Content[i+1])
		}
		b.WriteByte('}')
	case yqlib.AliasNode:
		b.WriteByte('*')
		if n.Alias != nil {
			c06Dump(b, n.Alias)
		}
	default:
		b.WriteByte('Z')
	}
}

// float scalars of the tree with their text (for the value oracle)
func c06Floats(n *yqlib.CandidateNode, out *[]string) {
	if n.Kind == yqlib.ScalarNode && n.Tag == "!!float" {
		*out = append(*out, n.Value)
	}
	for _, c := range n.Content {
		c06Floats(c, out)
	}
}

func init() {
	// c06enc: {node, indent, unwrap} -> {out_b64}
	register("c06enc", func(r Req) (Resp, error) {
		n, err := c06Build(r["node"])
		if err != nil {
			return Resp{"harness_error": true}, err
		}
		enc := yqlib.NewJSONEncoder(yqlib.JsonPreferences{Indent: r.Int("indent", 2), ColorsEnabled: false, UnwrapScalar: r.Bool("unwrap")})
		var buf bytes.Buffer
		err = enc.Encode(&buf, n)
		return Resp{"out_b64": b64(buf.String())}, err
	})
	// c06pf: {text|text_b64} -> {bits: decimal uint64 of strconv.ParseFloat(text, 64)} or err
	register("c06pf", func(r Req) (Resp, error) {
		f, err := strconv.ParseFloat(r.Text("text"), 64)
		if err != nil {
			return nil, err
		}
		return Resp{"bits": strconv.FormatUint(math.Float64bits(f), 10), "v": fmt.Sprintf("%v", f)}, nil
	})
	// c06dec: {input|input_b64} -> {out_b64: dump of the first document's node tree, floats: [...]}
	register("c06dec", func(r Req) (Resp, error) {
		dec := yqlib.NewJSONDecoder()
		if err := dec.Init(strings.NewReader(r.Text("input"))); err != nil {
			return nil, err
		}
		n, err := dec.Decode()
		if err != nil {
			return nil, err
		}
		var b bytes.Buffer
		c06Dump(&b, n)
		var fl []string
		c06Floats(n, &fl)
		return Resp{"out_b64": b64(b.String()), "floats": fl}, nil
	})
}
