package main

// sha256 of the go/printer text of the audited token constructors of lexer_participle.go
// (audited at /repo 51a9ae2; regenerate only after re-reading the changed function against c09LexAction and Model/Lexer.v)
// encodeParseIndent re-audited at /repo 5d1e45d (adds a range error for indents above 1000000: an error path of the kind Model/Lexer.v does not model)
var lexHelperDigests = map[string]string{
	"simpleOp": "e1565fd45f5c4d01cf6a6f223344092e8af2a0ec9f5982e232d54e1f3e035f25",
	"assignableOp": "5e856306b86fa93a0d293d58167e70546dd80f5aa3b7ef84d9b6757cc1d08e94",
	"pathToken": "6dce6a823672c23888f075b3fa7277a3620a8890c4f2666a041e8a83d6f3b6be",
	"recursiveDecentOpToken": "26e528439960cb150a932c748eed3e822fd4dc4942ff2350d7b8713c2ec18be3",
	"opTokenWithPrefs": "142895023be25a4acb8eb8d95643a1af3f41c0b327db0b297bb4133632bc469d",
	"expressionOpToken": "7d4c03ad258e847866e2cd195e669bc784263f7886ca4fc1495a4f98c8c72814",
	"flattenWithDepth": "b926e5b16c05b5437273b52bd8e0eb00b9052b583a76a05e8de97ca4dcc921bb",
	"assignAllCommentsOp": "84661392ae7691cc7da894733fd0d575bc872d1fadfae4214dd8fbd9b8569318",
	"assignOpToken": "b289f6b1abcd5971d863346e595da85b99ee007033daa1a81b2fa77b61fc41b0",
	"booleanValue": "5604aaac38cbb141fab4fe721674ef71dd4be6e1788e983f999a19c39a6e9054",
	"nullValue": "34d229f45951507e79d32d3604d27f328e34e12cbfbf3489ce52d262d2680972",
	"stringValue": "9022464d8d779a6b6f618cee1c5f109eea58f25c16c2fdb4684a5899b96433b5",
	"envOp": "9cbb6c4630ce8ba295fad58d26188e9d43d84824140c3b1db29d992a12c4c211",
	"envSubstWithOptions": "726594fe5209fda169a7588b6725cceb24bb7d5f4606fe00f75f60bd99126e15",
	"multiplyWithPrefs": "43d699e80a1fceab6e46fb37c60789e5c22329f47aa0fd736e5ff5c65c56499a",
	"getVariableOpToken": "00959f2772e78f455ba41ea05df0aad4633b1b76fee42a10a7b321c0c9e3b896",
	"hexValue": "f9fad714659116d3c3d1b5766cc84a0d1e7209f6bfa47791f7f17540c199cac1",
	"floatValue": "0c683252de18437e63ba687323f024ab3b92954f72c5c17d5c44b56328a4d97b",
	"numberValue": "38b9e17c209cdd2ae2974c25c477c99286d590eb1d14fa61e909e71d7b0f4480",
	"parentWithLevel": "acfc660f30667598719be0ab20a3b021f86b1fd5c795040f7318424b9c07c938",
	"parentWithDefaultLevel": "37a5cedc86796acfca9a07f7b8b3723d691a24f3824729cd2dce2ebb063e91bc",
	"encodeParseIndent": "e42a7deb986763a14b1e9be69366a491a27f405262add60f7c2b577766627b6b",
	"encodeWithIndent": "a2635d96cbfbe3ab7889bc4f986acc7b8185c7af75cf196f3e0234f930c49ddd",
	"decodeOp": "21bb8ddb9ccc015aba79aeec009854d6b20a4a0c99b77a81db91f3533f7f412b",
	"loadOp": "00059b560dbedfc050eca6bdfa8375ca5416518933d6cef0edd7b7a71a029249",
	"opToken": "0671ce97e2e2eae4713d8ca12416b3943a8f1ed50ceda380c9c25b675fa1b48b",
	"literalToken": "088cc09b9bd17fcceaf412c5f4e13032a0ffcde15cebe3bf6675a181a99cb61a",
	"getYqDefinition": "c11dbfe3f2ec14d419573f758e940aaeaa7d3a16b8140aff3574c050d027cc1b",
	"Tokenise": "26d7103bb4d306c5821dfe4d7aa4c97a086a5d527e8377f871e161cede491e92",
	"newParticipleLexer": "5c956c673aa423692ef0c9c70aa65bb98dbc36743dc18621c6c1dacb398973e7",
}
