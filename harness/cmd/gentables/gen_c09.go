package main

// gen_c09: operator table of pkg/yqlib/operation.go -> coq/Gen/OpTable.v
//
// Recognised shape (exactly what the pinned tree contains):
//
//	var <name>OpType = &operationType{Type: "<lit>", NumArgs: <int>, Precedence: <int>,
//	                                  Handler: <ident>, CheckForPostTraverse: <true|false>, ToString: <ident|func lit>}
//
// Every top-level `var` of operation.go must either be such a declaration or
// the helper `valueToStringFunc` (a func literal).  Any other shape, an unknown
// field, a non-literal Type/NumArgs/Precedence, a duplicate variable or field,
// or a missing Type/Precedence is a translator failure (exit 3).  It also
// fails if another non-test file of the package declares an operationType
// literal (the table would be incomplete).
import (
	"crypto/sha256"
	"fmt"
	"go/ast"
	"go/printer"
	"go/token"
	"os"
	"path/filepath"
	"regexp/syntax"
	"strconv"
	"strings"
)

type opRow struct {
	name  string
	typ   string
	nargs uint64
	prec  uint64
	cpt   bool
}

func coqStrBytes(s string) string {
	var parts []string
	for _, b := range []byte(s) {
		parts = append(parts, strconv.Itoa(int(b)))
	}
	return "[" + strings.Join(parts, ";") + "]"
}

func uintLit(e ast.Expr, what string) uint64 {
	lit, ok := e.(*ast.BasicLit)
	if !ok || lit.Kind != token.INT {
		fail("operation.go: %s is not an integer literal", what)
	}
	n, err := strconv.ParseUint(lit.Value, 0, 32)
	if err != nil {
		fail("operation.go: %s: %v", what, err)
	}
	return n
}

func parseOperationType(name string, e ast.Expr) opRow {
	un, ok := e.(*ast.UnaryExpr)
	if !ok || un.Op != token.AND {
		fail("operation.go: var %s is not &operationType{...}", name)
	}
	cl, ok := un.X.(*ast.CompositeLit)
	if !ok || !isIdent(cl.Type, "operationType") {
		fail("operation.go: var %s is not &operationType{...}", name)
	}
	row := opRow{name: name}
	seen := map[string]bool{}
	for _, el := range cl.Elts {
		kv, ok := el.(*ast.KeyValueExpr)
		if !ok {
			fail("operation.go: var %s: positional field in operationType literal", name)
		}
		key, ok := kv.Key.(*ast.Ident)
		if !ok {
			fail("operation.go: var %s: field key is not an identifier", name)
		}
		if seen[key.Name] {
			fail("operation.go: var %s: duplicate field %s", name, key.Name)
		}
		seen[key.Name] = true
		switch key.Name {
		case "Type":
			lit, ok := kv.Value.(*ast.BasicLit)
			if !ok || lit.Kind != token.STRING {
				fail("operation.go: var %s: Type is not a string literal", name)
			}
			v, err := strconv.Unquote(lit.Value)
			if err != nil {
				fail("operation.go: var %s: %v", name, err)
			}
			row.typ = v
		case "NumArgs":
			row.nargs = uintLit(kv.Value, name+".NumArgs")
		case "Precedence":
			row.prec = uintLit(kv.Value, name+".Precedence")
		case "CheckForPostTraverse":
			id, ok := kv.Value.(*ast.Ident)
			if !ok || (id.Name != "true" && id.Name != "false") {
				fail("operation.go: var %s: CheckForPostTraverse is not a boolean literal", name)
			}
			row.cpt = id.Name == "true"
		case "Handler":
			if _, ok := kv.Value.(*ast.Ident); !ok {
				fail("operation.go: var %s: Handler is not an identifier", name)
			}
		case "ToString":
			switch kv.Value.(type) {
			case *ast.Ident, *ast.FuncLit:
			default:
				fail("operation.go: var %s: ToString has an unexpected shape", name)
			}
		default:
			fail("operation.go: var %s: unknown operationType field %s", name, key.Name)
		}
	}
	if !seen["Type"] || !seen["Precedence"] {
		fail("operation.go: var %s: Type or Precedence missing", name)
	}
	for _, c := range []byte(row.typ) {
		if !((c >= 'A' && c <= 'Z') || c == '_' || (c >= '0' && c <= '9')) {
			fail("operation.go: var %s: Type %q has an unexpected character", name, row.typ)
		}
	}
	return row
}

func genC09() {
	_, f := parseFile("pkg/yqlib/operation.go")
	// the struct itself must have exactly the fields we translate
	wantFields := map[string]bool{"Type": true, "NumArgs": true, "Precedence": true, "Handler": true,
		"CheckForPostTraverse": true, "ToString": true}
	foundStruct := false
	var rows []opRow
	names := map[string]bool{}
	for _, d := range f.Decls {
		gd, ok := d.(*ast.GenDecl)
		if !ok {
			continue
		}
		if gd.Tok == token.TYPE {
			for _, s := range gd.Specs {
				ts := s.(*ast.TypeSpec)
				if ts.Name.Name != "operationType" {
					continue
				}
				st, ok := ts.Type.(*ast.StructType)
				if !ok {
					fail("operation.go: operationType is not a struct")
				}
				foundStruct = true
				for _, fld := range st.Fields.List {
					for _, n := range fld.Names {
						if !wantFields[n.Name] {
							fail("operation.go: operationType has a field %s the translator does not know", n.Name)
						}
						delete(wantFields, n.Name)
					}
				}
				if len(wantFields) != 0 {
					fail("operation.go: operationType lacks expected fields %v", wantFields)
				}
			}
		}
		if gd.Tok != token.VAR {
			continue
		}
		for _, s := range gd.Specs {
			vs := s.(*ast.ValueSpec)
			if len(vs.Names) != 1 || len(vs.Values) != 1 {
				fail("operation.go: var declaration with %d names / %d values", len(vs.Names), len(vs.Values))
			}
			name := vs.Names[0].Name
			if name == "valueToStringFunc" {
				if _, ok := vs.Values[0].(*ast.FuncLit); !ok {
					fail("operation.go: valueToStringFunc is not a func literal")
				}
				continue
			}
			if !strings.HasSuffix(name, "OpType") {
				fail("operation.go: unexpected top-level var %s", name)
			}
			if names[name] {
				fail("operation.go: duplicate var %s", name)
			}
			names[name] = true
			rows = append(rows, parseOperationType(name, vs.Values[0]))
		}
	}
	if !foundStruct {
		fail("operation.go: type operationType not found")
	}
	if len(rows) == 0 {
		fail("operation.go: no operationType declarations found")
	}
	// no operationType literal anywhere else in the package (non-test files)
	dir := filepath.Join(repo, "pkg/yqlib")
	ents, err := os.ReadDir(dir)
	if err != nil {
		fail("cannot list %s: %v", dir, err)
	}
	for _, e := range ents {
		n := e.Name()
		if !strings.HasSuffix(n, ".go") || strings.HasSuffix(n, "_test.go") || n == "operation.go" {
			continue
		}
		src, err := os.ReadFile(filepath.Join(dir, n))
		if err != nil {
			fail("cannot read %s: %v", n, err)
		}
		if strings.Contains(string(src), "operationType{") {
			fail("%s declares an operationType literal outside operation.go", n)
		}
	}

	var b strings.Builder
	b.WriteString("(* GENERATED by harness/cmd/gentables (gen_c09.go) from /repo/pkg/yqlib/operation.go — do not edit.\n")
	b.WriteString("   One record per `var xOpType = &operationType{...}`, in source order. *)\n")
	b.WriteString("From YQ Require Import Base.Str.\n\n")
	b.WriteString("Record opinfo := mk_opinfo {\n  oi_var : str;   (* name of the Go variable *)\n  oi_type : str;  (* operationType.Type *)\n")
	b.WriteString("  oi_nargs : N;   (* NumArgs *)\n  oi_prec : N;    (* Precedence *)\n  oi_cpt : bool   (* CheckForPostTraverse *)\n}.\n\n")
	b.WriteString("Definition op_table : list opinfo := [\n")
	for i, r := range rows {
		sep := ";"
		if i == len(rows)-1 {
			sep = ""
		}
		fmt.Fprintf(&b, "  (* %s : %s *)\n  mk_opinfo %s\n    %s %d %d %v%s\n", r.name, r.typ, coqStrBytes(r.name), coqStrBytes(r.typ), r.nargs, r.prec, r.cpt, sep)
	}
	b.WriteString("].\n")
	writeIfChanged("OpTable.v", b.String())
}

func init() { extraGens = append(extraGens, genC09) }

// ---------------------------------------------------------------------------
// gen_c09 (lexer part): ordered rule list of pkg/yqlib/lexer_participle.go
// -> coq/Gen/LexRules.v
//
// Each element of participleYqRules is either
//	{"Name", `regex`, <action>, 0}          (strings: raw or interpreted literals)
//	simpleOp("regex", xOpType)              name = ToUpper(regex[1]) + regex[1:]
//	assignableOp("regex", xOpType, yOpType) same naming
// and <action> is nil or a call of one of the token constructors listed in
// lexAction below.  The regex is parsed with regexp/syntax (the parser Go's
// regexp.Compile uses, Perl flags) and translated into the Coq AST of
// Base/Regex.v over BYTES; any operator outside the translated subset
// (anchors, repeats {n,m}, non-greedy, case folding, word boundaries,
// back-references, a class cutting through the non-ASCII range) is a
// translator failure.  The bodies of the token constructors are not
// translated: their go/printer text is hashed and compared with the hashes of
// the audited version, a changed constructor is a translator failure too.
// ---------------------------------------------------------------------------

func c09Regex(re *syntax.Regexp, ctx string) string {
	if re.Flags&syntax.NonGreedy != 0 {
		fail("%s: non-greedy operator", ctx)
	}
	seq := func(parts []string) string {
		if len(parts) == 0 {
			return "REps"
		}
		out := parts[len(parts)-1]
		for i := len(parts) - 2; i >= 0; i-- {
			out = "(RSeq " + parts[i] + " " + out + ")"
		}
		return out
	}
	switch re.Op {
	case syntax.OpEmptyMatch:
		return "REps"
	case syntax.OpLiteral:
		var parts []string
		for _, r := range re.Rune {
			if re.Flags&syntax.FoldCase != 0 {
				// regexp/syntax writes [xX] as the literal x with the fold flag
				if (r >= 'a' && r <= 'z') || (r >= 'A' && r <= 'Z') {
					lo := r | 0x20
					parts = append(parts, fmt.Sprintf("(RClass [(%d, %d); (%d, %d)]%%N)", lo-0x20, lo-0x20, lo, lo))
					continue
				}
				if r >= 0x80 {
					fail("%s: case folding of a non-ASCII literal", ctx)
				}
			}
			for _, b := range []byte(string(r)) {
				parts = append(parts, fmt.Sprintf("(RChar %d)", b))
			}
		}
		return seq(parts)
	case syntax.OpCharClass:
		var rs []rng
		for i := 0; i+1 < len(re.Rune); i += 2 {
			lo, hi := int(re.Rune[i]), int(re.Rune[i+1])
			if hi < 0x80 {
				rs = append(rs, rng{lo, hi})
				continue
			}
			// a range reaching into non-ASCII must cover all of it: then every byte >= 0x80 matches
			if hi != 0x10FFFF || lo > 0x80 {
				fail("%s: character class cuts through the non-ASCII range (%x-%x)", ctx, lo, hi)
			}
			if lo < 0x80 {
				rs = append(rs, rng{lo, 0x7f})
			}
			rs = append(rs, rng{0x80, 0xff})
		}
		return "(RClass " + coqRanges(normRanges(rs)) + ")"
	case syntax.OpAnyCharNotNL:
		return "(RClass [(0, 9); (11, 255)]%N)"
	case syntax.OpAnyChar:
		return "(RClass [(0, 255)]%N)"
	case syntax.OpCapture:
		return c09Regex(re.Sub[0], ctx)
	case syntax.OpStar:
		return "(RStar " + c09Regex(re.Sub[0], ctx) + ")"
	case syntax.OpPlus:
		return "(RPlus " + c09Regex(re.Sub[0], ctx) + ")"
	case syntax.OpQuest:
		return "(ROpt " + c09Regex(re.Sub[0], ctx) + ")"
	case syntax.OpConcat:
		var parts []string
		for _, s := range re.Sub {
			parts = append(parts, c09Regex(s, ctx))
		}
		return seq(parts)
	case syntax.OpAlternate:
		out := c09Regex(re.Sub[len(re.Sub)-1], ctx)
		for i := len(re.Sub) - 2; i >= 0; i-- {
			out = "(RAlt " + c09Regex(re.Sub[i], ctx) + " " + out + ")"
		}
		return out
	}
	fail("%s: regex operator %v is outside the translated subset", ctx, re.Op)
	return ""
}

func c09StrLit(e ast.Expr, what string) string {
	lit, ok := e.(*ast.BasicLit)
	if !ok || lit.Kind != token.STRING {
		fail("lexer_participle.go: %s is not a string literal", what)
	}
	v, err := strconv.Unquote(lit.Value)
	if err != nil {
		fail("lexer_participle.go: %s: %v", what, err)
	}
	return v
}

func c09Ident(e ast.Expr, what string) string {
	id, ok := e.(*ast.Ident)
	if !ok {
		fail("lexer_participle.go: %s is not an identifier", what)
	}
	return id.Name
}

func c09Bool(e ast.Expr, what string) bool {
	n := c09Ident(e, what)
	if n != "true" && n != "false" {
		fail("lexer_participle.go: %s is not a boolean literal", what)
	}
	return n == "true"
}

func c09OptStr(s string) string {
	if s == "" {
		return "None"
	}
	return "(Some " + coqStrBytes(s) + ")"
}

// audited token constructors: go/printer text -> sha256 (see lexHelperDigests)
var lexHelpers = []string{"simpleOp", "assignableOp", "pathToken", "recursiveDecentOpToken", "opTokenWithPrefs", "expressionOpToken",
	"flattenWithDepth", "assignAllCommentsOp", "assignOpToken", "booleanValue", "nullValue", "stringValue", "envOp", "envSubstWithOptions",
	"multiplyWithPrefs", "getVariableOpToken", "hexValue", "floatValue", "numberValue", "parentWithLevel", "parentWithDefaultLevel",
	"encodeParseIndent", "encodeWithIndent", "decodeOp", "loadOp", "opToken", "literalToken", "getYqDefinition", "Tokenise", "newParticipleLexer"}

func c09FuncDigest(fset *token.FileSet, f *ast.File, name string) string {
	for _, d := range f.Decls {
		if fd, ok := d.(*ast.FuncDecl); ok && fd.Name.Name == name {
			var b strings.Builder
			if err := printer.Fprint(&b, fset, fd); err != nil {
				fail("print %s: %v", name, err)
			}
			return fmt.Sprintf("%x", sha256.Sum256([]byte(b.String())))
		}
	}
	fail("lexer_participle.go: func %s not found", name)
	return ""
}

// lexAction translates the third element of a rule.
func c09LexAction(e ast.Expr, rule string, known map[string]bool) string {
	if id, ok := e.(*ast.Ident); ok && id.Name == "nil" {
		return "ASkip"
	}
	call, ok := e.(*ast.CallExpr)
	if !ok {
		fail("lexer_participle.go: rule %s: action is neither nil nor a call", rule)
	}
	fn := c09Ident(call.Fun, "rule "+rule+" action")
	args := call.Args
	need := func(n int) {
		if len(args) != n {
			fail("lexer_participle.go: rule %s: %s takes %d arguments here, %d expected", rule, fn, len(args), n)
		}
	}
	opvar := func(e ast.Expr) string {
		n := c09Ident(e, "rule "+rule+" operation type")
		if !known[n] {
			fail("lexer_participle.go: rule %s: %s is not an operationType of operation.go", rule, n)
		}
		return n
	}
	mk := func(v, assign, cpt, val string) string {
		return fmt.Sprintf("AOp %s %s %s %s", coqStrBytes(v), c09OptStr(assign), cpt, val)
	}
	switch fn {
	case "opToken":
		need(1)
		return mk(opvar(args[0]), "", "CTable", "VNone")
	case "opTokenWithPrefs":
		need(3)
		v := opvar(args[0])
		assign := ""
		if !isIdent(args[1], "nil") {
			assign = opvar(args[1])
		}
		val := "VNone"
		if !isIdent(args[2], "nil") {
			cl, ok := args[2].(*ast.CompositeLit)
			if !ok {
				fail("lexer_participle.go: rule %s: preferences are not a composite literal", rule)
			}
			tn := c09Ident(cl.Type, "rule "+rule+" preferences type")
			switch tn {
			case "compareTypePref":
				oe, gr := false, false
				for _, el := range cl.Elts {
					kv, ok := el.(*ast.KeyValueExpr)
					if !ok {
						fail("lexer_participle.go: rule %s: positional compareTypePref", rule)
					}
					switch c09Ident(kv.Key, "compareTypePref field") {
					case "OrEqual":
						oe = c09Bool(kv.Value, "OrEqual")
					case "Greater":
						gr = c09Bool(kv.Value, "Greater")
					default:
						fail("lexer_participle.go: rule %s: unknown compareTypePref field", rule)
					}
				}
				s := "l"
				if gr {
					s = "g"
				}
				if oe {
					s += "e"
				} else {
					s += "t"
				}
				val = "(VFixed " + coqStrBytes(s) + ")"
			case "commentOpPreferences", "assignVarPreferences", "flattenPreferences", "changeCasePrefs":
			default:
				fail("lexer_participle.go: rule %s: unknown preferences type %s", rule, tn)
			}
		}
		return mk(v, assign, "CTable", val)
	case "literalToken":
		need(2)
		tt := c09Ident(args[0], "token type")
		switch tt {
		case "openBracket", "closeBracket", "openCollect", "closeCollect", "openCollectObject", "closeCollectObject", "traverseArrayCollect":
		default:
			fail("lexer_participle.go: rule %s: unknown token type %s", rule, tt)
		}
		return fmt.Sprintf("ALiteral LT_%s %v", tt, c09Bool(args[1], "checkForPost"))
	case "recursiveDecentOpToken":
		need(1)
		c09Bool(args[0], "includeMapKeys")
		return mk("recursiveDescentOpType", "", "CTable", "VNone")
	case "getVariableOpToken":
		need(0)
		return mk("getVariableOpType", "", "CTrue", "VVar")
	case "flattenWithDepth":
		need(0)
		return mk("flattenOpType", "", "CTable", "VNone")
	case "expressionOpToken":
		need(1)
		c09StrLit(args[0], "expression")
		return mk("expressionOpType", "", "CFalse", "VNone")
	case "encodeParseIndent":
		need(1)
		return mk("encodeOpType", "", "CFalse", "VNone")
	case "encodeWithIndent":
		need(2)
		return mk("encodeOpType", "", "CTable", "VNone")
	case "decodeOp":
		need(1)
		return mk("decodeOpType", "", "CTable", "VNone")
	case "loadOp":
		need(1)
		return mk("loadOpType", "", "CTable", "VNone")
	case "parentWithLevel", "parentWithDefaultLevel":
		need(0)
		return mk("getParentOpType", "", "CTrue", "VNone")
	case "assignAllCommentsOp":
		need(1)
		c09Bool(args[0], "updateAssign")
		return mk("assignCommentOpType", "", "CFalse", "VNone")
	case "assignOpToken":
		need(1)
		if c09Bool(args[0], "updateAssign") {
			return mk("assignOpType", "", "CFalse", "(VFixed "+coqStrBytes("u")+")")
		}
		return mk("assignOpType", "", "CFalse", "(VFixed [])")
	case "hexValue", "floatValue", "numberValue", "nullValue":
		need(0)
		return mk("valueOpType", "", "CFalse", "VText")
	case "booleanValue":
		need(1)
		c09Bool(args[0], "val")
		return mk("valueOpType", "", "CFalse", "VText")
	case "stringValue":
		need(0)
		return mk("stringInterpolationOpType", "", "CFalse", "VString")
	case "envOp":
		need(1)
		c09Bool(args[0], "strenv")
		return mk("envOpType", "", "CTable", "VNone")
	case "envSubstWithOptions":
		need(0)
		return mk("envsubstOpType", "", "CFalse", "VNone")
	case "multiplyWithPrefs":
		need(1)
		return mk(opvar(args[0]), "", "CFalse", "VNone")
	case "pathToken":
		need(1)
		if c09Bool(args[0], "wrapped") {
			return mk("traversePathOpType", "", "CTrue", "(VPath true)")
		}
		return mk("traversePathOpType", "", "CTrue", "(VPath false)")
	}
	fail("lexer_participle.go: rule %s: unknown token constructor %s", rule, fn)
	return ""
}

func genC09Lexer() {
	// operation types known to operation.go
	_, fop := parseFile("pkg/yqlib/operation.go")
	known := map[string]bool{}
	for _, d := range fop.Decls {
		if gd, ok := d.(*ast.GenDecl); ok && gd.Tok == token.VAR {
			for _, s := range gd.Specs {
				for _, n := range s.(*ast.ValueSpec).Names {
					known[n.Name] = true
				}
			}
		}
	}
	fset, f := parseFile("pkg/yqlib/lexer_participle.go")
	for _, h := range lexHelpers {
		got := c09FuncDigest(fset, f, h)
		if want, ok := lexHelperDigests[h]; !ok || want != got {
			fail("lexer_participle.go: token constructor %s differs from the audited version (sha256 %s): re-audit lexAction and Model/Lexer.v", h, got)
		}
	}
	var list *ast.CompositeLit
	for _, d := range f.Decls {
		gd, ok := d.(*ast.GenDecl)
		if !ok || gd.Tok != token.VAR {
			continue
		}
		for _, s := range gd.Specs {
			vs := s.(*ast.ValueSpec)
			for i, n := range vs.Names {
				if n.Name == "participleYqRules" && i < len(vs.Values) {
					cl, ok := vs.Values[i].(*ast.CompositeLit)
					if !ok {
						fail("lexer_participle.go: participleYqRules is not a composite literal")
					}
					list = cl
				}
			}
		}
	}
	if list == nil {
		fail("lexer_participle.go: participleYqRules not found")
	}
	type lrule struct{ name, pattern, re, action string }
	var rules []lrule
	names := map[string]bool{}
	for idx, el := range list.Elts {
		var r lrule
		switch x := el.(type) {
		case *ast.CompositeLit:
			if x.Type != nil || len(x.Elts) != 4 {
				fail("lexer_participle.go: rule #%d is not a 4-element literal", idx)
			}
			r.name = c09StrLit(x.Elts[0], fmt.Sprintf("rule #%d name", idx))
			r.pattern = c09StrLit(x.Elts[1], "rule "+r.name+" pattern")
			if lit, ok := x.Elts[3].(*ast.BasicLit); !ok || lit.Value != "0" {
				fail("lexer_participle.go: rule %s: fourth element is not 0", r.name)
			}
			r.action = c09LexAction(x.Elts[2], r.name, known)
		case *ast.CallExpr:
			fn := c09Ident(x.Fun, fmt.Sprintf("rule #%d", idx))
			if fn == "simpleOp" && len(x.Args) == 2 {
				r.pattern = c09StrLit(x.Args[0], "simpleOp pattern")
				v := c09Ident(x.Args[1], "simpleOp operation type")
				if !known[v] {
					fail("lexer_participle.go: simpleOp(%q): unknown operation type %s", r.pattern, v)
				}
				r.action = fmt.Sprintf("AOp %s None CTable VNone", coqStrBytes(v))
			} else if fn == "assignableOp" && len(x.Args) == 3 {
				r.pattern = c09StrLit(x.Args[0], "assignableOp pattern")
				v, a := c09Ident(x.Args[1], "assignableOp operation type"), c09Ident(x.Args[2], "assignableOp assign type")
				if !known[v] || !known[a] {
					fail("lexer_participle.go: assignableOp(%q): unknown operation type", r.pattern)
				}
				r.action = fmt.Sprintf("AOp %s %s CTable VNone", coqStrBytes(v), c09OptStr(a))
			} else {
				fail("lexer_participle.go: rule #%d: unknown rule constructor %s/%d", idx, fn, len(x.Args))
			}
			if len(r.pattern) < 2 {
				fail("lexer_participle.go: simpleOp pattern %q too short", r.pattern)
			}
			r.name = strings.ToUpper(string(r.pattern[1])) + r.pattern[1:]
		default:
			fail("lexer_participle.go: rule #%d has an unknown shape %T", idx, el)
		}
		if r.name == "" || names[r.name] {
			fail("lexer_participle.go: empty or duplicate rule name %q", r.name)
		}
		names[r.name] = true
		for i := 0; i+1 < len(r.pattern); i++ {
			if r.pattern[i] == '\\' {
				if r.pattern[i+1] >= '1' && r.pattern[i+1] <= '9' {
					fail("lexer_participle.go: rule %s: back-reference", r.name)
				}
				i++
			}
		}
		// exactly what participle compiles, minus the leading anchor (the model matches at the current position)
		re, err := syntax.Parse("(?:"+r.pattern+")", syntax.Perl)
		if err != nil {
			fail("lexer_participle.go: rule %s: %v", r.name, err)
		}
		r.re = c09Regex(re, "rule "+r.name)
		rules = append(rules, r)
	}
	if len(rules) == 0 {
		fail("lexer_participle.go: no rules")
	}
	var b strings.Builder
	b.WriteString("(* GENERATED by harness/cmd/gentables (gen_c09.go) from /repo/pkg/yqlib/lexer_participle.go — do not edit.\n")
	b.WriteString("   participleYqRules in source order: name, regex (over bytes), elided by participle (lower-case name), token action. *)\n")
	b.WriteString("From YQ Require Import Base.Str Base.Regex.\n\n")
	b.WriteString("Inductive ltoktype := LT_openBracket | LT_closeBracket | LT_openCollect | LT_closeCollect\n  | LT_openCollectObject | LT_closeCollectObject | LT_traverseArrayCollect.\n")
	b.WriteString("(* StringValue as far as the tree dump keeps it: none / the matched text / path element (wrapped in quotes or not)\n   / variable name / quoted string / a fixed tag *)\n")
	b.WriteString("Inductive lval := VNone | VText | VPath (wrapped : bool) | VVar | VString | VFixed (s : str).\n")
	b.WriteString("(* CheckForPostTraverse of the token: the operation type's flag / true / false *)\n")
	b.WriteString("Inductive lcpt := CTable | CTrue | CFalse.\n")
	b.WriteString("Inductive laction :=\n| ASkip                                   (* CreateYqToken == nil *)\n| ALiteral (tt : ltoktype) (cpt : bool)   (* literalToken *)\n")
	b.WriteString("| AOp (var : str) (assign : option str) (cpt : lcpt) (val : lval).\n\n")
	b.WriteString("Record lrule := mk_lrule { lr_name : str; lr_re : regex; lr_elide : bool; lr_action : laction }.\n\n")
	b.WriteString("Definition lex_rules : list lrule := [\n")
	for i, r := range rules {
		sep := ";"
		if i == len(rules)-1 {
			sep = ""
		}
		elide := r.name[0] >= 'a' && r.name[0] <= 'z'
		if r.name[0] >= 0x80 {
			fail("lexer_participle.go: rule %s: non-ASCII rule name", r.name)
		}
		fmt.Fprintf(&b, "  (* %d %s *)\n  mk_lrule %s\n    %s\n    %v (%s)%s\n", i, strings.ReplaceAll(strings.ReplaceAll(r.name, "*)", "* )"), "(*", "( *"), coqStrBytes(r.name), r.re, elide, r.action, sep)
	}
	b.WriteString("].\n")
	writeIfChanged("LexRules.v", b.String())
}

func init() { extraGens = append(extraGens, genC09Lexer) }
