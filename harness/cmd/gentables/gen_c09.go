package main

// gen_c09: operator table of pkg/yqlib/operation.go -> coq/Gen/OpTable.v
//
// Recognised shape (exactly what the pinned tree contains):
//
//	var <name>OpType = &operationType{Type: "<lit>", NumArgs: <int>, Precedence: <int>,
//	                                  Handler: <ident>, CheckForPostTraverse: <true|false>, ToString: <ident|func lit>}
//
// Every top-level `var` of operation.go must either be such a declaration or
// the helper `valueToStringFunc` (a func literal).  Any other shape, an unknown
// field, a non-literal Type/NumArgs/Precedence, a duplicate variable or field,
// or a missing Type/Precedence is a translator failure (exit 3).  It also
// fails if another non-test file of the package declares an operationType
// literal (the table would be incomplete).
import (
	"fmt"
	"go/ast"
	"go/token"
	"os"
	"path/filepath"
	"strconv"
	"strings"
)

type opRow struct {
	name  string
	typ   string
	nargs uint64
	prec  uint64
	cpt   bool
}

func coqStrBytes(s string) string {
	var parts []string
	for _, b := range []byte(s) {
		parts = append(parts, strconv.Itoa(int(b)))
	}
	return "[" + strings.Join(parts, ";") + "]"
}

func uintLit(e ast.Expr, what string) uint64 {
	lit, ok := e.(*ast.BasicLit)
	if !ok || lit.Kind != token.INT {
		fail("operation.go: %s is not an integer literal", what)
	}
	n, err := strconv.ParseUint(lit.Value, 0, 32)
	if err != nil {
		fail("operation.go: %s: %v", what, err)
	}
	return n
}

func parseOperationType(name string, e ast.Expr) opRow {
	un, ok := e.(*ast.UnaryExpr)
	if !ok || un.Op != token.AND {
		fail("operation.go: var %s is not &operationType{...}", name)
	}
	cl, ok := un.X.(*ast.CompositeLit)
	if !ok || !isIdent(cl.Type, "operationType") {
		fail("operation.go: var %s is not &operationType{...}", name)
	}
	row := opRow{name: name}
	seen := map[string]bool{}
	for _, el := range cl.Elts {
		kv, ok := el.(*ast.KeyValueExpr)
		if !ok {
			fail("operation.go: var %s: positional field in operationType literal", name)
		}
		key, ok := kv.Key.(*ast.Ident)
		if !ok {
			fail("operation.go: var %s: field key is not an identifier", name)
		}
		if seen[key.Name] {
			fail("operation.go: var %s: duplicate field %s", name, key.Name)
		}
		seen[key.Name] = true
		switch key.Name {
		case "Type":
			lit, ok := kv.Value.(*ast.BasicLit)
			if !ok || lit.Kind != token.STRING {
				fail("operation.go: var %s: Type is not a string literal", name)
			}
			v, err := strconv.Unquote(lit.Value)
			if err != nil {
				fail("operation.go: var %s: %v", name, err)
			}
			row.typ = v
		case "NumArgs":
			row.nargs = uintLit(kv.Value, name+".NumArgs")
		case "Precedence":
			row.prec = uintLit(kv.Value, name+".Precedence")
		case "CheckForPostTraverse":
			id, ok := kv.Value.(*ast.Ident)
			if !ok || (id.Name != "true" && id.Name != "false") {
				fail("operation.go: var %s: CheckForPostTraverse is not a boolean literal", name)
			}
			row.cpt = id.Name == "true"
		case "Handler":
			if _, ok := kv.Value.(*ast.Ident); !ok {
				fail("operation.go: var %s: Handler is not an identifier", name)
			}
		case "ToString":
			switch kv.Value.(type) {
			case *ast.Ident, *ast.FuncLit:
			default:
				fail("operation.go: var %s: ToString has an unexpected shape", name)
			}
		default:
			fail("operation.go: var %s: unknown operationType field %s", name, key.Name)
		}
	}
	if !seen["Type"] || !seen["Precedence"] {
		fail("operation.go: var %s: Type or Precedence missing", name)
	}
	for _, c := range []byte(row.typ) {
		if !((c >= 'A' && c <= 'Z') || c == '_' || (c >= '0' && c <= '9')) {
			fail("operation.go: var %s: Type %q has an unexpected character", name, row.typ)
		}
	}
	return row
}

func genC09() {
	_, f := parseFile("pkg/yqlib/operation.go")
	// the struct itself must have exactly the fields we translate
	wantFields := map[string]bool{"Type": true, "NumArgs": true, "Precedence": true, "Handler": true,
		"CheckForPostTraverse": true, "ToString": true}
	foundStruct := false
	var rows []opRow
	names := map[string]bool{}
	for _, d := range f.Decls {
		gd, ok := d.(*ast.GenDecl)
		if !ok {
			continue
		}
		if gd.Tok == token.TYPE {
			for _, s := range gd.Specs {
				ts := s.(*ast.TypeSpec)
				if ts.Name.Name != "operationType" {
					continue
				}
				st, ok := ts.Type.(*ast.StructType)
				if !ok {
					fail("operation.go: operationType is not a struct")
				}
				foundStruct = true
				for _, fld := range st.Fields.List {
					for _, n := range fld.Names {
						if !wantFields[n.Name] {
							fail("operation.go: operationType has a field %s the translator does not know", n.Name)
						}
						delete(wantFields, n.Name)
					}
				}
				if len(wantFields) != 0 {
					fail("operation.go: operationType lacks expected fields %v", wantFields)
				}
			}
		}
		if gd.Tok != token.VAR {
			continue
		}
		for _, s := range gd.Specs {
			vs := s.(*ast.ValueSpec)
			if len(vs.Names) != 1 || len(vs.Values) != 1 {
				fail("operation.go: var declaration with %d names / %d values", len(vs.Names), len(vs.Values))
			}
			name := vs.Names[0].Name
			if name == "valueToStringFunc" {
				if _, ok := vs.Values[0].(*ast.FuncLit); !ok {
					fail("operation.go: valueToStringFunc is not a func literal")
				}
				continue
			}
			if !strings.HasSuffix(name, "OpType") {
				fail("operation.go: unexpected top-level var %s", name)
			}
			if names[name] {
				fail("operation.go: duplicate var %s", name)
			}
			names[name] = true
			rows = append(rows, parseOperationType(name, vs.Values[0]))
		}
	}
	if !foundStruct {
		fail("operation.go: type operationType not found")
	}
	if len(rows) == 0 {
		fail("operation.go: no operationType declarations found")
	}
	// no operationType literal anywhere else in the package (non-test files)
	dir := filepath.Join(repo, "pkg/yqlib")
	ents, err := os.ReadDir(dir)
	if err != nil {
		fail("cannot list %s: %v", dir, err)
	}
	for _, e := range ents {
		n := e.Name()
		if !strings.HasSuffix(n, ".go") || strings.HasSuffix(n, "_test.go") || n == "operation.go" {
			continue
		}
		src, err := os.ReadFile(filepath.Join(dir, n))
		if err != nil {
			fail("cannot read %s: %v", n, err)
		}
		if strings.Contains(string(src), "operationType{") {
			fail("%s declares an operationType literal outside operation.go", n)
		}
	}

	var b strings.Builder
	b.WriteString("(* GENERATED by harness/cmd/gentables (gen_c09.go) from /repo/pkg/yqlib/operation.go — do not edit.\n")
	b.WriteString("   One record per `var xOpType = &operationType{...}`, in source order. *)\n")
	b.WriteString("From YQ Require Import Base.Str.\n\n")
	b.WriteString("Record opinfo := mk_opinfo {\n  oi_var : str;   (* name of the Go variable *)\n  oi_type : str;  (* operationType.Type *)\n")
	b.WriteString("  oi_nargs : N;   (* NumArgs *)\n  oi_prec : N;    (* Precedence *)\n  oi_cpt : bool   (* CheckForPostTraverse *)\n}.\n\n")
	b.WriteString("Definition op_table : list opinfo := [\n")
	for i, r := range rows {
		sep := ";"
		if i == len(rows)-1 {
			sep = ""
		}
		fmt.Fprintf(&b, "  (* %s : %s *)\n  mk_opinfo %s\n    %s %d %d %v%s\n", r.name, r.typ, coqStrBytes(r.name), coqStrBytes(r.typ), r.nargs, r.prec, r.cpt, sep)
	}
	b.WriteString("].\n")
	writeIfChanged("OpTable.v", b.String())
}

func init() { extraGens = append(extraGens, genC09) }
