package main

// genExtra is the hook point for further generated tables (operator table,
// formats, lexer rules); each gen* function lives in its own file.
var extraGens []func()

func genExtra() {
	for _, g := range extraGens {
		runGen(g)
	}
}
