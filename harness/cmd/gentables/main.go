// gentables: translator from /repo's Go source (go/parser + go/ast) to the
// table-shaped parts of the Coq model (coq/Gen/*.v).  It recognises exactly
// the AST shapes present in the pinned tree; anything else is a translator
// failure (exit 3), reported by the checks as a broken tie, never skipped.
//
// usage: gentables <repo> <outdir>
package main

import (
	"crypto/sha256"
	"fmt"
	"go/ast"
	"go/parser"
	"go/token"
	"os"
	"path/filepath"
	"reflect"
	"runtime"
	"sort"
	"strconv"
	"strings"
)

var repo, outdir string
var digests = map[string]string{}

// genFailure aborts one generator; the others still run (see runGen).
type genFailure struct{ msg string }

func fail(format string, a ...interface{}) {
	panic(genFailure{fmt.Sprintf(format, a...)})
}

var failures []string

// runGen runs one generator; a failure is recorded as "FAILED <source file of the generator> <message>".
func runGen(g func()) {
	pc := reflect.ValueOf(g).Pointer()
	file, _ := runtime.FuncForPC(pc).FileLine(pc)
	defer func() {
		if p := recover(); p != nil {
			msg := fmt.Sprint(p)
			if gf, ok := p.(genFailure); ok {
				msg = gf.msg
			}
			failures = append(failures, fmt.Sprintf("FAILED %s %s", filepath.Base(file), msg))
		}
	}()
	g()
}

func parseFile(rel string) (*token.FileSet, *ast.File) {
	p := filepath.Join(repo, rel)
	src, err := os.ReadFile(p)
	if err != nil {
		fail("cannot read %s: %v", rel, err)
	}
	digests[rel] = fmt.Sprintf("%x", sha256.Sum256(src))
	fset := token.NewFileSet()
	f, err := parser.ParseFile(fset, p, src, parser.ParseComments)
	if err != nil {
		fail("cannot parse %s: %v", rel, err)
	}
	return fset, f
}

// writeIfChanged keeps mtimes stable so an unchanged tree costs no Coq rebuild.
func writeIfChanged(name, content string) {
	p := filepath.Join(outdir, name)
	old, err := os.ReadFile(p)
	if err == nil && string(old) == content {
		return
	}
	if err := os.WriteFile(p, []byte(content), 0o644); err != nil {
		fail("write %s: %v", p, err)
	}
}

type rng struct{ lo, hi int }

func coqRanges(rs []rng) string {
	var parts []string
	for _, r := range rs {
		parts = append(parts, fmt.Sprintf("(%d, %d)", r.lo, r.hi))
	}
	return "[" + strings.Join(parts, "; ") + "]%N"
}

func normRanges(rs []rng) []rng {
	sort.Slice(rs, func(i, j int) bool { return rs[i].lo < rs[j].lo })
	var out []rng
	for _, r := range rs {
		if len(out) > 0 && r.lo <= out[len(out)-1].hi+1 {
			if r.hi > out[len(out)-1].hi {
				out[len(out)-1].hi = r.hi
			}
		} else {
			out = append(out, r)
		}
	}
	return out
}

// parseBracketClass parses a regexp consisting of exactly one bracket class
// (RE2 syntax subset: ^ negation, \w \d \s, a-b ranges, literal characters,
// escaped literals).  Returns the ranges and whether the class is negated.
func parseBracketClass(re string) ([]rng, bool) {
	if len(re) < 2 || re[0] != '[' || re[len(re)-1] != ']' {
		fail("regex %q is not a single bracket class", re)
	}
	body := []rune(re[1 : len(re)-1])
	neg := false
	if len(body) > 0 && body[0] == '^' {
		neg = true
		body = body[1:]
	}
	var rs []rng
	i := 0
	readAtom := func() (int, []rng) { // returns single char or class
		c := body[i]
		if c == '\\' {
			if i+1 >= len(body) {
				fail("regex %q: dangling backslash", re)
			}
			e := body[i+1]
			i += 2
			switch e {
			case 'w':
				return -1, []rng{{'0', '9'}, {'A', 'Z'}, {'_', '_'}, {'a', 'z'}}
			case 'd':
				return -1, []rng{{'0', '9'}}
			case 's':
				return -1, []rng{{'\t', '\n'}, {'\f', '\r'}, {' ', ' '}}
			case 'n':
				return '\n', nil
			case 't':
				return '\t', nil
			case 'r':
				return '\r', nil
			default:
				if (e >= 'a' && e <= 'z') || (e >= 'A' && e <= 'Z') || (e >= '0' && e <= '9') {
					fail("regex %q: unsupported escape \\%c", re, e)
				}
				return int(e), nil
			}
		}
		if c == '[' || c == ']' {
			fail("regex %q: nested bracket / posix class unsupported", re)
		}
		i++
		return int(c), nil
	}
	for i < len(body) {
		c, cls := readAtom()
		if cls != nil {
			rs = append(rs, cls...)
			continue
		}
		if i+1 < len(body) && body[i] == '-' {
			i++
			d, cls2 := readAtom()
			if cls2 != nil || d < c {
				fail("regex %q: bad range", re)
			}
			rs = append(rs, rng{c, d})
		} else {
			rs = append(rs, rng{c, c})
		}
	}
	return normRanges(rs), neg
}

func findVarMustCompile(f *ast.File, name string) string {
	for _, d := range f.Decls {
		gd, ok := d.(*ast.GenDecl)
		if !ok || gd.Tok != token.VAR {
			continue
		}
		for _, s := range gd.Specs {
			vs := s.(*ast.ValueSpec)
			for i, n := range vs.Names {
				if n.Name != name || i >= len(vs.Values) {
					continue
				}
				call, ok := vs.Values[i].(*ast.CallExpr)
				if !ok || len(call.Args) != 1 {
					fail("%s: not a call with one argument", name)
				}
				sel, ok := call.Fun.(*ast.SelectorExpr)
				if !ok || sel.Sel.Name != "MustCompile" {
					fail("%s: not regexp.MustCompile", name)
				}
				lit, ok := call.Args[0].(*ast.BasicLit)
				if !ok || lit.Kind != token.STRING {
					fail("%s: argument is not a string literal", name)
				}
				v, err := strconv.Unquote(lit.Value)
				if err != nil {
					fail("%s: %v", name, err)
				}
				return v
			}
		}
	}
	fail("var %s not found", name)
	return ""
}

func findFunc(f *ast.File, name string) *ast.FuncDecl {
	for _, d := range f.Decls {
		if fd, ok := d.(*ast.FuncDecl); ok && fd.Name.Name == name && fd.Recv == nil {
			return fd
		}
	}
	fail("func %s not found", name)
	return nil
}

func charLit(e ast.Expr) (int, bool) {
	if p, ok := e.(*ast.ParenExpr); ok {
		return charLit(p.X)
	}
	lit, ok := e.(*ast.BasicLit)
	if !ok {
		return 0, false
	}
	switch lit.Kind {
	case token.CHAR:
		v, _, _, err := strconv.UnquoteChar(lit.Value[1:len(lit.Value)-1], '\'')
		if err != nil {
			return 0, false
		}
		return int(v), true
	case token.INT:
		n, err := strconv.Atoi(lit.Value)
		return n, err == nil
	}
	return 0, false
}

func isIdent(e ast.Expr, name string) bool {
	id, ok := e.(*ast.Ident)
	return ok && id.Name == name
}

// runePredicate translates the body `return <expr>` of a func(r rune) bool
// built from ||, &&-pairs `lo <= r && r <= hi`, `r == c`, and calls to other
// translated predicates, into a range list.
func runePredicate(f *ast.File, name string, known map[string][]rng) []rng {
	fd := findFunc(f, name)
	if len(fd.Type.Params.List) != 1 || len(fd.Type.Params.List[0].Names) != 1 {
		fail("%s: expected one parameter", name)
	}
	param := fd.Type.Params.List[0].Names[0].Name
	if len(fd.Body.List) != 1 {
		fail("%s: expected a single return statement", name)
	}
	ret, ok := fd.Body.List[0].(*ast.ReturnStmt)
	if !ok || len(ret.Results) != 1 {
		fail("%s: expected a single return statement", name)
	}
	var walk func(e ast.Expr) []rng
	walk = func(e ast.Expr) []rng {
		switch x := e.(type) {
		case *ast.ParenExpr:
			return walk(x.X)
		case *ast.CallExpr:
			id, ok := x.Fun.(*ast.Ident)
			if !ok || len(x.Args) != 1 || !isIdent(x.Args[0], param) {
				fail("%s: unsupported call", name)
			}
			r, ok := known[id.Name]
			if !ok {
				fail("%s: call to untranslated predicate %s", name, id.Name)
			}
			return append([]rng{}, r...)
		case *ast.BinaryExpr:
			switch x.Op {
			case token.LOR:
				return append(walk(x.X), walk(x.Y)...)
			case token.EQL:
				if isIdent(x.X, param) {
					if c, ok := charLit(x.Y); ok {
						return []rng{{c, c}}
					}
				}
				fail("%s: unsupported == shape", name)
			case token.LAND:
				// lo <= r && r <= hi
				l, lok := x.X.(*ast.BinaryExpr)
				r, rok := x.Y.(*ast.BinaryExpr)
				if lok && rok && l.Op == token.LEQ && r.Op == token.LEQ && isIdent(l.Y, param) && isIdent(r.X, param) {
					lo, ok1 := charLit(l.X)
					hi, ok2 := charLit(r.Y)
					if ok1 && ok2 {
						return []rng{{lo, hi}}
					}
				}
				fail("%s: unsupported && shape", name)
			}
		}
		fail("%s: unsupported expression shape %T", name, e)
		return nil
	}
	return normRanges(walk(ret.Results[0]))
}

func genSh() {
	_, fsh := parseFile("pkg/yqlib/encoder_sh.go")
	re := findVarMustCompile(fsh, "unsafeChars")
	rs, neg := parseBracketClass(re)
	_, fsv := parseFile("pkg/yqlib/encoder_shellvariables.go")
	known := map[string][]rng{}
	known["isAlphaOrUnderscore"] = runePredicate(fsv, "isAlphaOrUnderscore", known)
	known["isAlphaNumericOrUnderscore"] = runePredicate(fsv, "isAlphaNumericOrUnderscore", known)
	var b strings.Builder
	b.WriteString("(* GENERATED by harness/cmd/gentables from /repo — do not edit.\n")
	fmt.Fprintf(&b, "   encoder_sh.go: unsafeChars = %s *)\n", strconv.Quote(re))
	b.WriteString("From YQ Require Import Base.Str.\n\n")
	fmt.Fprintf(&b, "Definition sh_unsafe_negated : bool := %v.\n", neg)
	fmt.Fprintf(&b, "Definition sh_unsafe_ranges : ranges := %s.\n", coqRanges(rs))
	b.WriteString("(* unsafeChars.MatchString(string(r)) *)\n")
	b.WriteString("Definition sh_unsafe (c : N) : bool :=\n  if sh_unsafe_negated then negb (in_ranges c sh_unsafe_ranges) else in_ranges c sh_unsafe_ranges.\n\n")
	fmt.Fprintf(&b, "Definition sv_alpha_us_ranges : ranges := %s.\n", coqRanges(known["isAlphaOrUnderscore"]))
	fmt.Fprintf(&b, "Definition sv_alnum_us_ranges : ranges := %s.\n", coqRanges(known["isAlphaNumericOrUnderscore"]))
	b.WriteString("Definition sv_alpha_us (c : N) : bool := in_ranges c sv_alpha_us_ranges.\n")
	b.WriteString("Definition sv_alnum_us (c : N) : bool := in_ranges c sv_alnum_us_ranges.\n")
	writeIfChanged("ShSafe.v", b.String())
}

func genDigest() {
	var keys []string
	for k := range digests {
		keys = append(keys, k)
	}
	sort.Strings(keys)
	var b strings.Builder
	b.WriteString("(* GENERATED by harness/cmd/gentables — SHA-256 of every source file read. *)\n")
	b.WriteString("From Coq Require Import String List.\nImport ListNotations.\nOpen Scope string_scope.\n")
	b.WriteString("Definition source_digests : list (string * string) := [\n")
	for i, k := range keys {
		sep := ";"
		if i == len(keys)-1 {
			sep = ""
		}
		fmt.Fprintf(&b, "  (%s, %s)%s\n", strconv.Quote(k), strconv.Quote(digests[k]), sep)
	}
	b.WriteString("].\n")
	writeIfChanged("Digest.v", b.String())
}

func main() {
	if len(os.Args) != 3 {
		fail("usage: gentables <repo> <outdir>")
	}
	repo, outdir = os.Args[1], os.Args[2]
	if err := os.MkdirAll(outdir, 0o755); err != nil {
		fail("%v", err)
	}
	runGen(genSh)
	genExtra()
	runGen(genDigest)
	if len(failures) > 0 {
		for _, f := range failures {
			fmt.Fprintln(os.Stderr, "gentables: "+f)
		}
		os.Exit(3)
	}
}
