module verif/harness

go 1.23.0

require (
	github.com/mikefarah/yq/v4 v4.0.0
	github.com/pelletier/go-toml/v2 v2.2.3
	gopkg.in/op/go-logging.v1 v1.0.0-20160211212156-b2cb9fa56473
	gopkg.in/yaml.v3 v3.0.1
)

require (
	github.com/a8m/envsubst v1.4.2 // indirect
	github.com/alecthomas/participle/v2 v2.1.4 // indirect
	github.com/dimchansky/utfbom v1.1.1 // indirect
	github.com/elliotchance/orderedmap v1.8.0 // indirect
	github.com/fatih/color v1.18.0 // indirect
	github.com/goccy/go-json v0.10.5 // indirect
	github.com/goccy/go-yaml v1.13.3 // indirect
	github.com/jinzhu/copier v0.4.0 // indirect
	github.com/magiconair/properties v1.8.9 // indirect
	github.com/mattn/go-colorable v0.1.13 // indirect
	github.com/mattn/go-isatty v0.0.20 // indirect
	github.com/yuin/gopher-lua v1.1.1 // indirect
	golang.org/x/net v0.34.0 // indirect
	golang.org/x/sys v0.29.0 // indirect
	golang.org/x/text v0.23.0 // indirect
)

replace github.com/mikefarah/yq/v4 => /repo
