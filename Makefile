# /verif top level.  `make setup` builds everything from files on disk (offline).
.PHONY: setup clean
setup:
	python3 checks/setup.py
clean:
	rm -rf work
	find coq -name '*.vo' -o -name '*.vok' -o -name '*.vos' -o -name '*.glob' -o -name '.*.aux' | xargs rm -f
